#!/bin/bash
# usage: import_round.sh <seed-root> <variants...>   — imports every finished, not yet stored seed
root=$1; shift
for d in $root/C*/; do
  id=$(basename $d)
  for v in "$@"; do
    [ -f $d/SEED/$v/patch.diff ] && [ -f $d/SEED/$v/demo_test.go ] && [ -f $d/SEED/$v/NOTES.md ] || continue
    [ -d /verif/seeded/$id-$v ] && continue
    SEED_ROOT=$root /verif/tools/seed_import.sh $id $v 2>&1 | grep -E "^$id-$v|detected by|NOT CONFIRMED|does not apply|: R[0-9]" | cut -c1-240
  done
done
