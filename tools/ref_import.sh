#!/bin/bash
# usage: ref_import.sh <root> <first-number>  — imports finished behaviour-preserving variants
# /tmp/ref5/<k>/OUT/R<j>.diff as /verif/refactorings/R<first+k-1>-R<j>.diff after confirming that
# each applies to a fresh worktree of /repo HEAD and that the unedited suite passes with it.
export GOFLAGS=-mod=mod GOPROXY=off
root=$1; first=$2
for k in ${KS:-1 2 3 4 5 6 7 8}; do
  for j in 1 2 3 4; do
    src=$root/$k/OUT/R$j.diff
    n=$((first+k-1))
    dst=/verif/refactorings/R$n-R$j.diff
    [ -f $src ] && [ -f $root/$k/OUT/R$j.md ] || continue
    [ -f $dst ] && continue
    wt=$(mktemp -d /tmp/refverify.XXXXXX)
    git -C /repo worktree add -q --detach $wt HEAD || continue
    ( cd $wt && git apply $src ) || { echo "R$n-R$j: does not apply"; git -C /repo worktree remove --force $wt; continue; }
    res=$(cd $wt && go test -vet=off -count=1 . 2>&1 | tail -1)
    git -C /repo worktree remove --force $wt; rm -rf $wt
    case "$res" in ok*) cp $src $dst; cp $root/$k/OUT/R$j.md /verif/refactorings/R$n-R$j.md; echo "R$n-R$j: suite ok, stored";; *) echo "R$n-R$j: SUITE FAILS: $res";; esac
  done
done
