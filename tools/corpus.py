#!/usr/bin/env python3
"""Runs the checker (-prop all, no evidence) on scratch copies of /repo's current tree with
 (a) every behaviour-preserving variant under /verif/refactorings applied  (must be silent)
 (b) every seeded change under /verif/seeded applied                      (should be reported)
in parallel.  usage: corpus.py [ref|seed|all] [name-filter] [-w]   (-w rewrites seed metas)"""
import json, os, subprocess, tempfile, shutil, glob, sys, re
from concurrent.futures import ThreadPoolExecutor
what = sys.argv[1] if len(sys.argv) > 1 else 'all'
flt = sys.argv[2] if len(sys.argv) > 2 and not sys.argv[2].startswith('-') else ''
write = '-w' in sys.argv
BIN = '/verif/bin/twigcheck'
subprocess.run('cd /verif/twigcheck && GOFLAGS=-mod=mod GOPROXY=off go build -o /verif/bin/twigcheck .', shell=True, check=True)

def run(patch):
    tmp = tempfile.mkdtemp(prefix='twigmut.')
    try:
        subprocess.run(['rsync', '-a', '--exclude', '.git', '/repo/', tmp + '/'], check=True)
        p = subprocess.run(['patch', '-p1', '-s', '--no-backup-if-mismatch', '-i', patch], cwd=tmp, capture_output=True, text=True)
        if p.returncode != 0:
            return None, ''
        out = subprocess.run([BIN, '-prop', 'all', '-repo', tmp, '-verif', '/verif', '-no-evidence'], capture_output=True, text=True)
        return out.returncode, out.stdout + out.stderr
    finally:
        shutil.rmtree(tmp, ignore_errors=True)

def summarize(txt):
    det = sorted({l.split('property=')[1].split()[0] for l in txt.splitlines() if l.startswith('VIOLATION property=')})
    und = sorted({l.split('property=')[1].split(':')[0] for l in txt.splitlines() if l.startswith('CANNOT-DECIDE property=')})
    rules = sorted(set(re.findall(r'^(?:[a-z_0-9]+\.go:\d+|-): (R\d+\.\d+)', txt, re.M)))
    lines = [l[:230] for l in txt.splitlines() if re.match(r'^(?:[a-z_0-9]+\.go:\d+|-): R\d', l) or l.startswith('CANNOT')]
    return det, und, rules, lines

jobs = []
if what in ('ref', 'all'):
    for f in sorted(glob.glob('/verif/refactorings/*.diff')):
        if flt in f: jobs.append(('ref', os.path.basename(f)[:-5], f))
if what in ('seed', 'all'):
    for f in sorted(glob.glob('/verif/seeded/*/patch.diff')):
        if flt not in f: continue
        try:
            if json.load(open(os.path.dirname(f) + '/meta.json')).get('retired'):
                print(f'seed {os.path.basename(os.path.dirname(f))}: retired'); continue
        except Exception: pass
        jobs.append(('seed', os.path.basename(os.path.dirname(f)), f))

def work(j):
    kind, name, f = j
    rc, txt = run(f)
    return kind, name, f, rc, txt

bad_ref = 0; missed = []; own = 0; anyd = 0; nseed = 0
with ThreadPoolExecutor(max_workers=int(os.environ.get('J', '8'))) as ex:
    for kind, name, f, rc, txt in ex.map(work, jobs):
        if rc is None:
            print(f'{kind} {name}: PATCH DOES NOT APPLY'); continue
        det, und, rules, lines = summarize(txt)
        if kind == 'ref':
            if det or und or rc != 0:
                bad_ref += 1
                print(f'ref {name}: NOT SILENT rc={rc} det={det} und={und}')
                for l in lines[:12]: print('     ', l)
            else:
                print(f'ref {name}: silent')
        else:
            nseed += 1
            prop = name.split('-')[0]
            if prop in det: own += 1
            if det: anyd += 1
            else: missed.append(name)
            print(f'seed {name}: det={" ".join(det) or "—"} rules={" ".join(rules)} und={" ".join(und)}')
            if write:
                mp = os.path.dirname(f) + '/meta.json'
                meta = json.load(open(mp))
                meta['applies_to_current_tree'] = True
                meta['detected_by'] = det; meta['rules_reporting'] = rules; meta['cannot_decide'] = und
                json.dump(meta, open(mp, 'w'), indent=1)
print(f'SUMMARY: refactorings not silent={bad_ref}; seeds={nseed} own={own} any={anyd} missed={" ".join(missed)}')
