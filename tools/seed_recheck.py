#!/usr/bin/env python3
"""Re-runs every quick check against every stored seeded change (on a scratch copy of /repo's
current tree with the patch applied) and rewrites detected_by / applies in each meta.json.
Prints the summary table used in DESIGN.md."""
import json, os, subprocess, tempfile, shutil, glob, sys
rows=[]
for meta_path in sorted(glob.glob('/verif/seeded/*/meta.json')):
    d=os.path.dirname(meta_path); name=os.path.basename(d)
    meta=json.load(open(meta_path))
    tmp=tempfile.mkdtemp(prefix='twigmut.')
    try:
        subprocess.run(['rsync','-a','--exclude','.git','/repo/',tmp+'/'],check=True)
        p=subprocess.run(['patch','-p1','-s','--no-backup-if-mismatch','-i',d+'/patch.diff'],cwd=tmp,capture_output=True,text=True)
        if p.returncode!=0:
            meta['applies_to_current_tree']=False
            rows.append((name,meta['property'],'(patch no longer applies)',''))
        else:
            meta['applies_to_current_tree']=True
            out=subprocess.run(['/verif/bin/twigcheck','-prop','all','-repo',tmp,'-verif','/verif','-no-evidence'],capture_output=True,text=True)
            txt=out.stdout+out.stderr
            det=sorted({l.split('property=')[1].split()[0] for l in txt.splitlines() if l.startswith('VIOLATION property=')})
            und=sorted({l.split('property=')[1].split(':')[0] for l in txt.splitlines() if l.startswith('CANNOT-DECIDE property=')})
            rules=sorted({l.split(': ',1)[1].split()[0] for l in txt.splitlines() if ': R' in l and '.go:' in l.split(': R')[0][-30:] or l.startswith('-: R')})
            meta['detected_by']=det
            meta['rules_reporting']=rules
            meta['cannot_decide']=und
            rows.append((name,meta['property'],' '.join(det) or '—',' '.join(rules)))
        json.dump(meta,open(meta_path,'w'),indent=1)
    finally:
        shutil.rmtree(tmp,ignore_errors=True)
own=sum(1 for n,p,d,r in rows if p in d.split())
anyd=sum(1 for n,p,d,r in rows if d not in ('—','(patch no longer applies)'))
print(f"{len(rows)} seeded changes: {own} reported by the check of the property they break, {anyd} reported by some check")
for n,p,d,r in rows:
    print(f"| {n} | {d} | {r} |")
