#!/bin/bash
# usage: [SEED_ROOT=/tmp/seed2] seed_import.sh <Cxx> <A|B> [stored-variant-name]
# Confirms a sub-agent's seeded change in a fresh scratch worktree (unchanged tree + demo passes;
# change + existing suite passes; change + demo fails), runs every quick check against it with the
# patch applied to /repo (undone straight afterwards) and stores it under /verif/seeded/<Cxx>-<X>/.
set -u
export GOFLAGS=-mod=mod GOPROXY=off
id=$1; x=$2
src=${SEED_ROOT:-/tmp/seed}/$id/SEED/$x
name=${3:-$x}
[ -f $src/patch.diff ] && [ -f $src/demo_test.go ] || { echo "missing deliverables in $src"; exit 3; }
wt=$(mktemp -d /tmp/seedverify.XXXXXX)
git -C /repo worktree add -q --detach $wt HEAD || exit 3
cleanup() { git -C /repo worktree remove --force $wt 2>/dev/null; rm -rf $wt; }
trap cleanup EXIT
cd $wt
cp $src/demo_test.go ./zz_seed_demo_test.go
a=$(go test -vet=off -count=1 -run 'TestSeedDemo' . 2>&1 | tail -1)
case "$a" in ok*) A=pass;; *) A=FAIL;; esac
rm -f zz_seed_demo_test.go
git apply $src/patch.diff || { echo "patch does not apply"; exit 3; }
b=$(go test -vet=off -count=1 . 2>&1 | tail -1)
case "$b" in ok*) B=pass;; *) B=FAIL;; esac
cp $src/demo_test.go ./zz_seed_demo_test.go
c=$(go test -vet=off -count=1 -run 'TestSeedDemo' . 2>&1 | tail -1)
case "$c" in ok*) C=pass;; *) C=FAIL;; esac
rm -f zz_seed_demo_test.go
echo "$id-$x: (a) unchanged+demo=$A  (b) change+suite=$B  (c) change+demo=$C"
if [ "$A" != pass ] || [ "$B" != pass ] || [ "$C" != FAIL ]; then echo "NOT CONFIRMED"; exit 4; fi
# run the checks on a scratch copy of /repo's working tree with the patch applied (the same
# analysis as `git -C /repo apply …; ./check.sh all quick; git -C /repo checkout -- .`, without
# disturbing a check that is reading /repo at the same moment)
cd /verif
sc=$(mktemp -d /tmp/seedcheck.XXXXXX)
rsync -a --exclude .git /repo/ $sc/
( cd $sc && patch -p1 -s --no-backup-if-mismatch -i $src/patch.diff ) || { rm -rf $sc; exit 3; }
out=$(TWIG_REPO=$sc /verif/check.sh all quick -no-evidence 2>&1)
rm -rf $sc
det=$(echo "$out" | grep -o "VIOLATION property=C[0-9]*" | sort -u | sed 's/VIOLATION property=//' | tr '\n' ' ')
und=$(echo "$out" | grep -o "CANNOT-DECIDE property=C[0-9]*" | sort -u | sed 's/CANNOT-DECIDE property=//' | tr '\n' ' ')
echo "   detected by: [${det}]   cannot-decide: [${und}]"
echo "$out" | grep -E "^[a-z_0-9]+\.go:[0-9]+: R" | cut -c1-260 | head -8
dst=/verif/seeded/$id-$name
mkdir -p $dst
cp $src/patch.diff $dst/patch.diff; cp $src/demo_test.go $dst/demo_test.go; cp $src/NOTES.md $dst/NOTES.md 2>/dev/null
python3 - "$id" "$name" "$det" "$dst" <<'PY'
import json,sys
id,x,det,dst=sys.argv[1:5]
meta={"property":id,"variant":x,"origin":"independent sub-agent given only the property text and a scratch worktree",
 "needs_to_manifest":"see NOTES.md (written by the sub-agent)",
 "confirmed":{"unchanged_tree_plus_demo":"pass","change_plus_existing_suite":"pass","change_plus_demo":"fail",
   "how":"tools/seed_import.sh: fresh scratch worktree of /repo HEAD; go test -vet=off -count=1 (-run TestSeedDemo) ."},
 "detected_by":det.split(),
 "checks_run":"patch applied to a scratch copy of /repo's working tree, TWIG_REPO=<copy> ./check.sh all quick -no-evidence"}
json.dump(meta,open(dst+'/meta.json','w'),indent=1)
PY
