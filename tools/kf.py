#!/usr/bin/env python3
"""kf.py <property> <rule> <function> <construct> <status> <commit|-> <what> — append an entry to known_findings.json"""
import json, sys
p='/verif/known_findings.json'
d=json.load(open(p))
prop,rule,fn,cons,status,commit,what=sys.argv[1:8]
e={"property":prop,"rule":rule,"function":fn,"construct":cons,"what":what,"status":status}
if commit!='-': e["commit"]=commit
d['findings'].append(e)
json.dump(d,open(p,'w'),indent=1,ensure_ascii=False)
