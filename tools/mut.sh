#!/bin/sh
# usage: mut.sh <prop> <file> <sed-expression>   — applies a sed edit to a scratch copy of /repo,
# checks that it still builds, runs the checker on the copy and removes it.
prop=$1; file=$2; expr=$3
d=$(mktemp -d /tmp/twigmut.XXXXXX)
rsync -a --exclude .git /repo/ $d/
sed -i "$expr" $d/$file
if cmp -s $d/$file /repo/$file; then echo "MUTATION DID NOT APPLY"; rm -rf $d; exit 3; fi
( cd $d && GOFLAGS=-mod=mod GOPROXY=off go build ./... ) || { echo "MUTANT DOES NOT BUILD"; rm -rf $d; exit 3; }
/verif/bin/twigcheck -prop $prop -repo $d -verif /verif -no-evidence 2>&1 | grep -v "^VIOLATION" | cut -c1-330
rm -rf $d
