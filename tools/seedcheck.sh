#!/bin/sh
# usage: seedcheck.sh <seed-dir-name> [prop]   — runs the checker on a scratch copy with the seed applied
seed=$1; prop=${2:-all}
d=$(mktemp -d /tmp/twigmut.XXXXXX)
rsync -a --exclude .git /repo/ $d/
( cd $d && patch -p1 -s --no-backup-if-mismatch < /verif/seeded/$seed/patch.diff ) || { echo "PATCH DOES NOT APPLY"; rm -rf $d; exit 3; }
/verif/bin/twigcheck -prop $prop -repo $d -verif /verif -no-evidence 2>&1 | grep -E "^[a-z_0-9]+\.go:[0-9]+: R|^-: R|CANNOT" | cut -c1-${COLS:-260}
rm -rf $d
