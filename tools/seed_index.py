#!/usr/bin/env python3
"""Writes /verif/seeded/INDEX.md: one row per stored seeded change (summary, rules that report it,
whether the check of its own property reports it) from the meta.json files that tools/corpus.py -w
refreshes."""
import json, glob, os, re
rows = []
for f in sorted(glob.glob('/verif/seeded/*/meta.json')):
    d = os.path.dirname(f); name = os.path.basename(d)
    m = json.load(open(f))
    t = ''
    if os.path.exists(d + '/NOTES.md'):
        t = open(d + '/NOTES.md').readline().strip().lstrip('# ').strip()
        t = re.sub(r'^(C\d\d\s*/?\s*)?(series \d\s*/\s*)?(seed|Seed|change|Variant|variant)?\s*[A-Z]?\s*[—:-]\s*', '', t)
    prop = name.split('-')[0]
    det = m.get('detected_by', [])
    by = 'own' if prop in det else ('other: ' + ' '.join(det) if det else 'missed')
    rows.append((name, t[:170], ' '.join(m.get('rules_reporting', [])) or '—', by))
own = sum(1 for r in rows if r[3] == 'own'); anyd = sum(1 for r in rows if r[3] != 'missed')
with open('/verif/seeded/INDEX.md', 'w') as o:
    o.write(f"# Seeded changes\n\n{len(rows)} stored; {anyd} reported by some check, {own} by the check of the property they were written against.\n")
    o.write("Regenerate with `tools/corpus.py seed -w && tools/seed_index.py`.\n\n| seed | change (first line of the author's note) | rules reporting | by |\n|---|---|---|---|\n")
    for r in rows:
        o.write('| ' + ' | '.join(r) + ' |\n')
print(len(rows), anyd, own)
