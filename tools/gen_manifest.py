#!/usr/bin/env python3
"""Regenerates /verif/MANIFEST.json from the table below (kept next to the checker so the
manifest, the claims and the not_applicable list stay in step)."""
import json, os
here = os.path.dirname(os.path.dirname(os.path.abspath(__file__)))
props = [json.loads(l) for l in open(os.path.join(here, 'properties.jsonl'))]

COMMON_NOTE = ("Trusted: go/types, go/ssa construction, call-graph over-approximation (VTA ∪ CHA for the package's own interfaces). "
               "A pass means the named structural clause holds on every path of the current source; it is not an observation of behaviour.")

# id -> (technique, level text, level note, design ref)
CLAIMED = {
 "C01": ("who-may-call check over the VTA∪CHA call graph (no render path reaches a Put into a parse-tree pool), store lint on render-reachable functions, per-field must-assign / must-zero dataflow over every pool's acquire and release functions (with interprocedural initialiser summaries), borrow/release typestate in the parser",
         "Decides the ownership clauses for every history: a render can never release, recycle or write the cached tree; every live field of every pooled object is definitely re-initialised between owners; no value is left in two pools; memory borrowed from a pooled tokenizer is not used after the tokenizer's release. Equality of output bytes with a pristine process is argued from these, not observed.",
         "One frozen exception: the tokenizer's interning table survives reuse and is accepted only while its transparency sub-obligation holds. unsafe container-of in ReleaseTokenizer is recognised as 'releases its argument'. " + COMMON_NOTE, "§2 C01"),
 "C02": ("static race detection by ownership classes + lockset: forward must-held-lock dataflow over SSA with inherited entry locksets along static call edges; every write (and every read of a written location) to non-fresh objects of shared struct types / package variables reachable from the concurrent API roots must hold the sibling mutex; provenance check that relative-name resolution never reads an Engine field; lock-leak check; pool hand-off typestate (R01.4)",
         "Sound race-freedom argument for the engine's own shared memory under every schedule, given the class table: shared locations are lock-protected or never written from the concurrent roots, per-call objects change hands only through pools (R01.4), published parse trees are never written (R01.2), and relative names resolve from per-render state. That concurrent results equal serial results, and races inside user callbacks/writers, are not decided.",
         "Assumes the class table is complete (per-call types listed in the evidence; every other struct type and every package variable is treated as shared) and that configuration calls are not concurrent with renders. " + COMMON_NOTE, "§2 C02"),
 "C03": ("enumeration of every map-ordered loop (range over map, loops over reflect MapKeys()/MapRange) on render paths from the typed AST + effect classification of the loop body (output writes, unsorted appends, accumulation, first-entry-wins, computed-key stores) + enumeration of time/rand/%p/goroutine sources on render paths against a frozen exemption table",
         "Decides 'independent of Go's map iteration order and of time/randomness except where exempt by definition' for every template and context: each map-ordered loop is over sorted keys or has no order-dependent effect. Printing of pointer-bearing user values via %v and cross-process equality are not decided.",
         "The effect classification is a deny-list of order-dependent effects chosen from the defects this code base exhibited (each confirmed by reading); an exotic order-dependent effect outside the list would be missed. " + COMMON_NOTE, "§2 C03"),
 "C14": ("information-flow lint on SSA: every branch comparing a size value (len/cap/size parameter) with a constant >= 16 on parse/render paths must have equal sets of token/node/output-producing callees in its two exclusive regions; growth sites must copy",
         "Decides that template length can select capacities only, never which tokenizer/parser/renderer runs, and that buffer growth preserves content. That the one tokenizer treats a tag identically at every byte offset is value-level arithmetic and not decided.",
         "'Semantic' functions are classified by role (appends to []Token, returns Node/[]Token, writes to io.Writer, or calls such a function). " + COMMON_NOTE, "§2 C14"),
 "C05": ("abstract interpretation on go/cfg (interval facts over (tokenIndex, len(tokens)) with EOF-sentinel, alias, callee-preservation/monotonicity summaries and call-site-meet entry facts); per-SSA-value dominance of kind/validity tests for every kind-sensitive reflect call plus type-provenance of reflect Set/SetMapIndex/Append; enumeration rules for data-dependent Must*, single-result type assertions (pool homogeneity, literal provenance, dominating assertion), interface{}-keyed maps, integer division, untrusted length prefixes, lock leaks",
         "Decides for every source, context value and compiled-data byte string that the enumerated families of panic sites in twig's own code are guarded on every path. Termination (tokenizer loop progress, unbounded ranges, recursion depth), arithmetic overflow into slice bounds, byte-offset string slicing and panics in user callbacks are NOT decided.",
         "Frozen exceptions (each keyed to one function + construct, reasons in the evidence): two diagnostics in parseInclude, the second pass of DetectFilterChain, the all-strings branches of max/min. The Go runtime's documentation of which reflect calls panic on which kinds is the specification used. " + COMMON_NOTE, "§2 C05"),
 "C06": ("must-pass-through dataflow on SSA (a sandbox guard querying the policy for the same name dominates every dynamic FilterFunc/FunctionFunc call and built-in arm) + must-assign dataflow for flag inheritance at every derived RenderContext + who-writes-the-flag check",
         "Sound structural argument for the confinement clause on every path of the current source: whenever the context flag is set, a policy query for exactly the invoked name precedes every filter/function invocation, the flag is inherited by every derived context and is never cleared. Liveness ('allowed constructs keep working') is not decided.",
         "Assumes filters/functions are invoked only through values of the named types FilterFunc/FunctionFunc (R06.5 checks none is converted to an interface on render paths); user SecurityPolicy implementations are assumed to answer truthfully. " + COMMON_NOTE, "§2 C06"),
 "C07": ("static evaluation of constant tables: registration-table alias binding, SSA return-flow check that the registered escape is exactly html.EscapeString of the stringified input, and evaluation of every hand-written escape table's arms with html.UnescapeString inside the checker",
         "Decides the table/wiring half for every input string: both names reach the same routine, the routine is the trusted library escape with nothing applied afterwards, and the fallback table is complete, correct and well-formed. Stringification of non-string values is value-level and not decided.",
         "html.EscapeString / html.UnescapeString of the Go standard library are trusted. " + COMMON_NOTE, "§2 C07"),
 "C08": ("static evaluation and cross-checking of constant tables (precedence switch vs. specification classes vs. evaluation switch vs. parser word-operator tests and multi-word assembly vs. tokenizer operator characters) + path-sensitive search on SSA for short-circuit and single-branch evaluation + structural lint of the print-tag NAME shortcut",
         "Decides ONLY the shape-visible clauses: the operator tables agree and are ordered as specified, and/or short-circuit, ?: evaluates one branch, and print-tag content reaches the parser through the shared expression tokenizer unless it is a valid identifier. The heart of the property — that the precedence-climbing code implements the table (associativity/precedence of the parse result), arithmetic results, unary-minus scope — is algorithmic/value-level and NOT decided (on this tree 1 + 2 * 3 * 4 still evaluates to 28: found by reading, invisible to these rules).",
         "The specification classes are transcribed from the property statement into the checker. One frozen exception: the dead `||` spelling. " + COMMON_NOTE, "§2 C08"),
 "C09": ("path-sensitive searches on SSA over the renderers: tracked truthy-edge state in IfNode.Render, else/body reachability and length-test edges in the for renderer, must-pass-through of a deferred restore for every loop-variable binding (with correlated field tests), byte-offset/rune lint for string iteration, provenance check of SetNode's binding",
         "Decides the control-flow clauses visible in the shape of the renderers on every path: exactly one if-branch, else iff nothing iterates, loop variables scoped and restored, characters numbered by position, set binds in the caller's scope. The seven counter formulas, truthiness table values and range construction are value-level and NOT decided.",
         COMMON_NOTE, "§2 C09"),
 "C10": ("typed-AST lint: every lookup in a name → block-body map that reaches a branch condition is decided on the comma-ok result, never on len()/nil of the body; SSA dominance check that both block maps are copied into the parent's context before the parent renders",
         "Decides one necessary condition of block substitution for every template set: presence of a definition is membership (an empty override is honoured), and the hand-over of blocks and parentBlocks along extends is complete on every path. Which definition wins along longer chains, parent() chains and nested blocks are substitution semantics over data and are NOT decided.",
         "Weak clause of a behavioural property, stated as such. " + COMMON_NOTE, "§2 C10"),
 "C11": ("SSA value-origin analysis (the context handed to every nested Render in a template-loading function is a Clone()/NewRenderContext() result on every phi edge), edge-refined must-dataflow on the only / ignoreMissing flags, errors.Is tied to the swallowed error value, freshness lint on every store to a RenderContext scope-map field",
         "Decides non-interference on every path: the included/extended/imported template never renders in the caller's own context, `only` never coexists with read-through access, `ignore missing` swallows only ErrTemplateNotFound of the failed load, and no two contexts (or a context and the caller) ever share a scope map. Option parsing and computed names are not decided.",
         COMMON_NOTE, "§2 C11"),
 "C16": ("sibling cross-check: the ordered wire-operation lists of serialiser and deserialiser (and of the string helpers) are extracted from the typed AST and compared element-wise (kind, width, signedness, byte order, field, version constant); SSA dominance checks for length narrowing and untrusted length prefixes; type check that no gob-registered node type is encodable; path-expression agreement in the compiled loader",
         "Decides that serialise∘deserialise is the identity on name, source, timestamps and AST bytes for every value the prefix can represent (larger ones are rejected), that arbitrary input cannot force a huge allocation, and that a compiled template can only ever be rendered from Parse(Source). Rendered equality for every context is argued from the last point, not observed.",
         "encoding/binary and io.ReadFull semantics trusted; the legacy gob container format is not examined. " + COMMON_NOTE, "§2 C16"),
 "C17": ("error-propagation analysis on SSA: fixed point of 'propagating' functions over the call graph; per call site, value flow of the error result to a Return through phis, named results, %w / NewError / Err-field / errors.Join wrapping; path search from the non-nil edge of every nil test for a nil-error return; text-only (cause-loss) detection; not-found edges of name lookups; top-level Unwrap / empty-output returns",
         "Decides, for every position at which a filter, function, test, loader or nested template can fail, that the failure reaches the top-level return as an error that still wraps its cause, and that a failed name lookup is an error. Errors turned into values inside user callbacks and the documented tolerances are outside.",
         "One frozen exception (timestamp queries in Engine.Load), with its reason. Loader retry loops are recognised: a later loader's success may supersede an earlier loader's failure. " + COMMON_NOTE, "§2 C17"),
 "C18": ("mutation lint with freshness analysis on SSA: every mutating operation (element store, map update/delete, append, copy destination, sort.*, slices.Sort*, reflect Set*/Swapper/Copy) in render-reachable functions must act on a container that is provably fresh (allocation, allocating helper summary, fresh-at-every-call-site parameter) or engine-internal; containers derived from interface{}-typed parameters, evaluation results or their elements are violations",
         "Decides for every template and every context shape that twig's own code never writes through caller-derived values, and that the caller's top-level map is copied rather than adopted. Mutation by user callbacks and by methods of user types reached through attribute access is out of twig's hands and not decided.",
         "Freshness is intra-procedural plus return/parameter summaries over static calls; a container whose origin is neither provably fresh nor data-derived counts as engine-internal. " + COMMON_NOTE, "§2 C18"),
 "C19": ("sibling cross-check: the implementations registered as length/count/first/last/slice/reverse (filters, functions, built-in arm) and the for renderer are resolved from the registration tables and linted for byte-based string measures (len, s[i], computed s[a:b], Value.Len() where String is admitted, range keys used as ordinals); constant-folding of optional-argument defaults against later branch conditions",
         "Decides two clauses relating sibling implementations: one unit of length (runes) for strings across length/first/last/slice/reverse/for, and an omitted optional argument is not represented by a value that has its own meaning when supplied. ALL other equations of the property (idempotence, involution, permutation, join/split, default, merge, keys, the slice index rules themselves, decimal arithmetic) quantify over values and are NOT decided.",
         "Weak clause of a value-level property, stated as such. " + COMMON_NOTE, "§2 C19"),
 "C20": ("typed-AST lint (complete key literals, StructField.Index never indexed) + SSA backward-slice purity check of every store into a cache entry's lookup fields + classification of every write to the cache map (delete / statistics-only read-modify-write under the same key / pure insert) + identity of the reflect.Value that keys and serves the access",
         "Decides that a cache hit returns what a miss would compute, for every history and any number of distinct (type, name) pairs: the cache and its eviction are unobservable. reflect's FieldByName/MethodByName semantics are trusted.",
         COMMON_NOTE, "§2 C20"),
 "C13": ("pairing-completeness lint over the typed AST (every parser-side comparison/switch/predicate on a tag-delimiter kind also tests its *_TRIM partner on the same operand with the same polarity) + must-pass-through path search in Parse (whitespace pass before parsing, nil-test correlation) + constant evaluation of the trim cut set",
         "Decides the clause 'the dash is accepted on every tag boundary and never changes whether a template parses', and that trimming is wired to the right neighbour with the right character set, for every template. Output equality with the hand-trimmed template is value-level and not decided.",
         "Operand identity inside one boolean expression is by expression text after type resolution of the constants; tokenizer byte arithmetic is not examined. " + COMMON_NOTE, "§2 C13"),
}

NOT_YET = "static rule for this property not implemented yet at this commit (planned, see DESIGN.md §2)"
NA = {}

m = {
 "version": 1,
 "setup_cmd": "export GOFLAGS=-mod=mod GOPROXY=off; cd /verif/twigcheck && go build -o /verif/bin/twigcheck .",
 "hooks": {"guard": "verif", "enable": "-tags verif (no hook files exist: static analysis needs no instrumentation of /repo)",
           "baseline_off_cmd": "cd /repo && GOFLAGS=-mod=mod GOPROXY=off go test -json -vet=off -count=1 -timeout 25m ./...",
           "source_commits": [], "add_only": True},
 "engines": [{"name": "twigcheck", "path": "/verif/twigcheck", "serves_properties": sorted(CLAIMED),
              "kind_free_text": "repository-specific static analyser (go/packages + go/types + go/ssa + go/cfg + VTA∪CHA call graph); nothing under /repo is executed"}],
 "checks": [], "not_applicable": [],
 "notes": "Family of technique: static analysis only. Every check loads /repo's current working tree, enumerates obligations (rule, function, construct) and reports a specific construct as the violation. Known findings: /verif/known_findings.json. See DESIGN.md.",
}
for p in props:
    i = p['id']
    if i in CLAIMED:
        t, txt, note, ref = CLAIMED[i]
        m['checks'].append({"property_id": i, "quick_cmd": f"./check.sh {i} quick", "thorough_cmd": f"./check.sh {i} thorough",
                            "evidence_file": f"/verif/evidence/{i}.json", "replay_cmd_template": "cat {path}", "engine": "twigcheck",
                            "level_claimed": {"category": "other", "text": txt, "design_ref": ref}, "level_note": note, "technique": t})
    else:
        m['not_applicable'].append({"property_id": i, "reason": NA.get(i, NOT_YET)})
json.dump(m, open(os.path.join(here, 'MANIFEST.json'), 'w'), indent=1, ensure_ascii=False)
print("claimed:", sorted(CLAIMED), "n/a:", [x['property_id'] for x in m['not_applicable']])
