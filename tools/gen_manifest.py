#!/usr/bin/env python3
"""Regenerates /verif/MANIFEST.json from the table below (kept next to the checker so the
manifest, the claims and the not_applicable list stay in step)."""
import json, os
here = os.path.dirname(os.path.dirname(os.path.abspath(__file__)))
props = [json.loads(l) for l in open(os.path.join(here, 'properties.jsonl'))]

COMMON_NOTE = ("Trusted: go/types, go/ssa construction, call-graph over-approximation (VTA ∪ CHA for the package's own interfaces). "
               "A pass means the named structural clause holds on every path of the current source; it is not an observation of behaviour.")

# id -> (technique, level text, level note, design ref)
CLAIMED = {
 "C01": ("who-may-call check over the VTA∪CHA call graph (no render path reaches a Put into a parse-tree pool), store lint on render-reachable functions, per-field must-assign / must-zero dataflow over every pool's acquire and release functions (with interprocedural initialiser summaries), borrow/release typestate in the parser; escape lint: package-level maps/slices never flow into a field store or a return value (R01.8)",
         "Decides the ownership clauses for every history: a render can never release, recycle or write the cached tree; every live field of every pooled object is definitely re-initialised between owners; no value is left in two pools; memory borrowed from a pooled tokenizer is not used after the tokenizer's release. Equality of output bytes with a pristine process is argued from these, not observed.",
         "One frozen exception: the tokenizer's interning table survives reuse and is accepted only while its transparency sub-obligation holds. unsafe container-of in ReleaseTokenizer is recognised as 'releases its argument'. " + COMMON_NOTE, "§2 C01"),
 "C02": ("static race detection by ownership classes + lockset: forward must-held-lock dataflow over SSA with inherited entry locksets along static call edges; every write (and every read of a written location) to non-fresh objects of shared struct types / package variables reachable from the concurrent API roots must hold the sibling mutex; provenance check that relative-name resolution never reads an Engine field; lock-leak check; pool hand-off typestate (R01.4); taint of reads of shared integer locations written from the concurrent roots (stores and sync/atomic operations) to the conditions a Return/Panic is control dependent on (R02.4); lock re-entrance check over the call graph",
         "Sound race-freedom argument for the engine's own shared memory under every schedule, given the class table: shared locations are lock-protected or never written from the concurrent roots, per-call objects change hands only through pools (R01.4), published parse trees are never written (R01.2), and relative names resolve from per-render state. That concurrent results equal serial results, and races inside user callbacks/writers, are not decided.",
         "Assumes the class table is complete (per-call types listed in the evidence; every other struct type and every package variable is treated as shared) and that configuration calls are not concurrent with renders. " + COMMON_NOTE, "§2 C02"),
 "C03": ("enumeration of every map-ordered loop (range over map, loops over reflect MapKeys()/MapRange) on render paths from the typed AST + effect classification of the loop body (output writes, unsorted appends, accumulation, first-entry-wins, computed-key stores) + enumeration of time/rand/%p/goroutine sources on render paths against a frozen exemption table; enumeration extended to Engine.Load, the Loader methods and the loader constructors; shape rule for sort comparators over plain values (every condition and result relates one projection of both elements, R03.4) and strictness of reflect-key comparators (R03.3)",
         "Decides 'independent of Go's map iteration order and of time/randomness except where exempt by definition' for every template and context: each map-ordered loop is over sorted keys or has no order-dependent effect. Printing of pointer-bearing user values via %v and cross-process equality are not decided.",
         "The effect classification is a deny-list of order-dependent effects chosen from the defects this code base exhibited (each confirmed by reading); an exotic order-dependent effect outside the list would be missed. " + COMMON_NOTE, "§2 C03"),
 "C14": ("information-flow lint on SSA: every branch comparing a size value (len/cap/size parameter) with a constant >= 16 on parse/render paths must have equal sets of token/node/output-producing callees in its two exclusive regions; growth sites must copy; no string/slice header is manufactured over live buffers (unsafe.String/Slice); template data is never sliced at a constant position >= 16; no constant read limit (io.LimitReader/CopyN/LimitedReader, single Read into a constant buffer) on load paths; no scan over a node/token list bounded by a constant (R14.5)",
         "Decides that template length can select capacities only, never which tokenizer/parser/renderer runs, and that buffer growth preserves content. That the one tokenizer treats a tag identically at every byte offset is value-level arithmetic and not decided.",
         "'Semantic' functions are classified by role (appends to []Token, returns Node/[]Token, writes to io.Writer, or calls such a function). " + COMMON_NOTE, "§2 C14"),
 "C04": ("identity-flow lint on the typed AST and SSA: the TEXT arm hands <token>.Value itself to the text-node constructor; the text/verbatim renderers make exactly one call that receives (w, n.content); who-reads-this-field check on the content fields; comment arm and CommentNode.Render are inert; parseVerbatim calls no parser function; WriteString writes only its parameter on every path; classification of every write into the verbatim content builder",
         "Decides ONLY the transport half: stored literal text reaches the writer byte for byte, comments and verbatim bodies can never be evaluated. The larger half — that the tokenizer's byte offsets partition the source (no byte dropped or duplicated next to a tag) — is arithmetic over strings.Index results and NOT decided.",
         "One open known finding (R04.5: verbatim bodies are re-printed from tokens; the pinned tests encode that output). One frozen exception (MacroNode.CallMacro re-scans text nodes). " + COMMON_NOTE, "§2 C04"),
 "C05": ("abstract interpretation on go/cfg (interval facts over (tokenIndex, len(tokens)) with EOF-sentinel, alias, callee-preservation/monotonicity summaries and call-site-meet entry facts); per-SSA-value dominance of kind/validity tests for every kind-sensitive reflect call plus type-provenance of reflect Set/SetMapIndex/Append; sign analysis of every non-constant allocation size; length evidence for every x[a:len(x)-k]; enumeration rules for data-dependent Must*, single-result type assertions (pool homogeneity, literal provenance, dominating assertion), interface{}-keyed maps, integer division, untrusted length prefixes, lock leaks; lock re-entrance (a call made in a lock region cannot reach an acquisition of the same mutex); provenance of offsets found by index searches",
         "Decides for every source, context value and compiled-data byte string that the enumerated families of panic sites in twig's own code are guarded on every path. Termination (tokenizer loop progress, unbounded ranges, recursion depth), arithmetic overflow into slice bounds, byte-offset string slicing and panics in user callbacks are NOT decided.",
         "Frozen exceptions (each keyed to one function + construct, reasons in the evidence): two diagnostics in parseInclude, the second pass of DetectFilterChain, the all-strings branches of max/min. The Go runtime's documentation of which reflect calls panic on which kinds is the specification used. " + COMMON_NOTE, "§2 C05"),
 "C06": ("must-pass-through dataflow on SSA (a sandbox guard querying the policy for the same name dominates every dynamic FilterFunc/FunctionFunc call and built-in arm) + must-assign dataflow for flag inheritance at every derived RenderContext + who-writes-the-flag check",
         "Sound structural argument for the confinement clause on every path of the current source: whenever the context flag is set, a policy query for exactly the invoked name precedes every filter/function invocation, the flag is inherited by every derived context and is never cleared. Liveness ('allowed constructs keep working') is not decided.",
         "Assumes filters/functions are invoked only through values of the named types FilterFunc/FunctionFunc (R06.5 checks none is converted to an interface on render paths); user SecurityPolicy implementations are assumed to answer truthfully. " + COMMON_NOTE, "§2 C06"),
 "C07": ("static evaluation of constant tables: registration-table alias binding, SSA return-flow check that the registered escape is exactly html.EscapeString of the stringified input, and evaluation of every hand-written escape table's arms with html.UnescapeString inside the checker; must-pass-through on every loop that walks a filter chain (each pass applies the item or leaves, R07.5)",
         "Decides the table/wiring half for every input string: both names reach the same routine, the routine is the trusted library escape with nothing applied afterwards, and the fallback table is complete, correct and well-formed. Stringification of non-string values is value-level and not decided.",
         "html.EscapeString / html.UnescapeString of the Go standard library are trusted. " + COMMON_NOTE, "§2 C07"),
 "C08": ("static evaluation and cross-checking of constant tables (precedence switch vs. specification classes vs. evaluation switch vs. parser word-operator tests and multi-word assembly vs. tokenizer operator characters) + path-sensitive search on SSA for short-circuit and single-branch evaluation + structural lint of the print-tag NAME shortcut + three shape rules of the precedence descent on SSA (the descent on a tighter operator lies on a cycle through the precedence comparison; the conditional operator is not consumed inside the descent; unary operands are parsed as primaries); capacity/guard check at every render-reachable call of a hand-written digit formatter (R08.7); sibling agreement of the `in` arms with the equality routine of the == arm (R08.8)",
         "Decides ONLY the shape-visible clauses: the operator tables agree and are ordered as specified, and/or short-circuit, ?: evaluates one branch, and print-tag content reaches the parser through the shared expression tokenizer unless it is a valid identifier. Of the precedence-climbing code three necessary shape conditions are decided (they reported, and a fix: commit repaired, 1 + 2 * 3 * 4 = 28, `a == b and c * d == e`, a conditional attached to a product, (-a + b) = -(a + b)); that the parse result implements the table for every expression, arithmetic results and coercions are value-level and NOT decided.",
         "The specification classes are transcribed from the property statement into the checker. One frozen exception: the dead `||` spelling. " + COMMON_NOTE, "§2 C08"),
 "C09": ("path-sensitive searches on SSA over the renderers: tracked truthy-edge state in IfNode.Render, else/body reachability and length-test edges in the for renderer, must-pass-through of a deferred restore for every loop-variable binding (with correlated field tests), byte-offset/rune lint for string iteration, provenance check of SetNode's binding; path search that between two evaluations of if-chain conditions — in the renderer or any helper — lies the falsy edge of a truthiness test (R09.10)",
         "Decides the control-flow clauses visible in the shape of the renderers on every path: exactly one if-branch, else iff nothing iterates, loop variables scoped and restored, characters numbered by position, set binds in the caller's scope. The seven counter formulas, truthiness table values and range construction are value-level and NOT decided.",
         COMMON_NOTE, "§2 C09"),
 "C10": ("typed-AST lint: every lookup in a name → block-body map that reaches a branch condition is decided on the comma-ok result, never on len()/nil of the body; SSA dominance check that both block maps are copied into the parent's context before the parent renders (directly or through a helper); parent() renders with the caller's effective block table; a block's own body is rendered only after the block table was consulted; extends resolves its parent through Engine.Load on every successful render",
         "Decides one necessary condition of block substitution for every template set: presence of a definition is membership (an empty override is honoured), and the hand-over of blocks and parentBlocks along extends is complete on every path. Which definition wins along longer chains, parent() chains and nested blocks are substitution semantics over data and are NOT decided.",
         "Weak clause of a behavioural property, stated as such. " + COMMON_NOTE, "§2 C10"),
 "C11": ("SSA value-origin analysis (the context handed to every nested Render in a template-loading function is a Clone()/NewRenderContext() result on every phi edge), edge-refined must-dataflow on the only / ignoreMissing flags, errors.Is tied to the swallowed error value, freshness lint on every store to a RenderContext scope-map field",
         "Decides non-interference on every path: the included/extended/imported template never renders in the caller's own context, `only` never coexists with read-through access, `ignore missing` swallows only ErrTemplateNotFound of the failed load, and no two contexts (or a context and the caller) ever share a scope map. Option parsing and computed names are not decided.",
         COMMON_NOTE, "§2 C11"),
 "C15": ("SSA dominance and path checks in Engine.Load and the registration functions: not-found returns wrap ErrTemplateNotFound (%w) and no cache store is on that path; loader loops leave at the first success; loader lists are append-only; every successful registration passes the cache store when the flag is on; cache reads/writes are dominated by the cache flag; the staleness comparison uses > or !=; backward slice of every successful GetModifiedTime result to os.FileInfo.ModTime or a delegated GetModifiedTime (R15.5)",
         "Decides ONLY the clauses visible in the shape of the code. Every temporal claim of the property (visible to the next call, not re-read when unchanged, stays as it was, development-mode toggling) quantifies over operation histories and is NOT decided.",
         "Weak clause set of a history property, stated as such. " + COMMON_NOTE, "§2 C15"),
 "C16": ("sibling cross-check: the ordered wire-operation lists of serialiser and deserialiser (and of the string helpers) are extracted from the typed AST and compared element-wise (kind, width, signedness, byte order, field, version constant); SSA dominance checks for length narrowing and untrusted length prefixes; type check that no gob-registered node type is encodable; path-expression agreement in the compiled loader; must-pass-through of the file write before every nil-error return of a saving function (R16.7)",
         "Decides that serialise∘deserialise is the identity on name, source, timestamps and AST bytes for every value the prefix can represent (larger ones are rejected), that arbitrary input cannot force a huge allocation, and that a compiled template can only ever be rendered from Parse(Source). Rendered equality for every context is argued from the last point, not observed.",
         "encoding/binary and io.ReadFull semantics trusted; the legacy gob container format is not examined. " + COMMON_NOTE, "§2 C16"),
 "C17": ("error-propagation analysis on SSA: fixed point of 'propagating' functions over the call graph; per call site, value flow of the error result to a Return through phis, named results, %w / NewError / Err-field / errors.Join wrapping; path search from the non-nil edge of every nil test for a nil-error return; text-only (cause-loss) detection; not-found edges of name lookups; top-level Unwrap / empty-output returns",
         "Decides, for every position at which a filter, function, test, loader or nested template can fail, that the failure reaches the top-level return as an error that still wraps its cause, and that a failed name lookup is an error. Errors turned into values inside user callbacks and the documented tolerances are outside.",
         "One frozen exception (timestamp queries in Engine.Load), with its reason. Loader retry loops are recognised: a later loader's success may supersede an earlier loader's failure. " + COMMON_NOTE, "§2 C17"),
 "C18": ("mutation lint with freshness analysis on SSA: every mutating operation (element store, map update/delete, append, copy destination, sort.*, slices.Sort*, reflect Set*/Swapper/Copy) in render-reachable functions must act on a container that is provably fresh (allocation, allocating helper summary, fresh-at-every-call-site parameter) or engine-internal; containers derived from interface{}-typed parameters, evaluation results or their elements are violations",
         "Decides for every template and every context shape that twig's own code never writes through caller-derived values, and that the caller's top-level map is copied rather than adopted. Mutation by user callbacks and by methods of user types reached through attribute access is out of twig's hands and not decided.",
         "Freshness is intra-procedural plus return/parameter summaries over static calls; a container whose origin is neither provably fresh nor data-derived counts as engine-internal. " + COMMON_NOTE, "§2 C18"),
 "C19": ("sibling cross-check: the implementations registered as length/count/first/last/slice/reverse (filters, functions, built-in arm) and the for renderer are resolved from the registration tables and linted for byte-based string measures (len, s[i], computed s[a:b], Value.Len() where String is admitted, range keys used as ordinals); constant-folding of optional-argument defaults against later branch conditions",
         "Decides two clauses relating sibling implementations: one unit of length (runes) for strings across length/first/last/slice/reverse/for, and an omitted optional argument is not represented by a value that has its own meaning when supplied. ALL other equations of the property (idempotence, involution, permutation, join/split, default, merge, keys, the slice index rules themselves, decimal arithmetic) quantify over values and are NOT decided.",
         "Weak clause of a value-level property, stated as such. " + COMMON_NOTE, "§2 C19"),
 "C20": ("typed-AST lint (complete key literals, StructField.Index never indexed) + SSA backward-slice purity check of every store into a cache entry's lookup fields + classification of every write to the cache map (delete / statistics-only read-modify-write under the same key / pure insert) + identity of the reflect.Value that keys and serves the access",
         "Decides that a cache hit returns what a miss would compute, for every history and any number of distinct (type, name) pairs: the cache and its eviction are unobservable. reflect's FieldByName/MethodByName semantics are trusted.",
         COMMON_NOTE, "§2 C20"),
 "C12": ("who-renders-this-field check (single choke point for MacroNode.body) + SSA case analysis of the parameter-binding loop (value provenance args[i] / evaluated default / nil, index identity, one binding per iteration by path enumeration) + origin analysis of the macro's context and of every caller's argument slice",
         "Decides that all call forms share one binding routine, that binding is positional with defaults and null fill-in and exactly one binding per parameter on every path, that the body renders in a fresh context, and that every caller passes forwarded or in-order evaluated arguments. Agreement of the two macro declaration parsers and the macro-text mini-interpreter are NOT decided.",
         COMMON_NOTE, "§2 C12"),
 "C13": ("pairing-completeness lint over the typed AST (every parser-side comparison/switch/predicate on a tag-delimiter kind also tests its *_TRIM partner on the same operand with the same polarity) + must-pass-through path search in Parse (whitespace pass before parsing, nil-test correlation) + constant evaluation of the trim cut set",
         "Decides the clause 'the dash is accepted on every tag boundary and never changes whether a template parses', and that trimming is wired to the right neighbour with the right character set, for every template. Output equality with the hand-trimmed template is value-level and not decided.",
         "Operand identity inside one boolean expression is by expression text after type resolution of the constants; tokenizer byte arithmetic is not examined. " + COMMON_NOTE, "§2 C13"),
}

# Rules added in rounds 5-7 (see DESIGN.md §9-§10): appended to the technique / level texts above.
TECH_ADD = {
 "C01": "; parse-tree objects reachable from a registered Template are never released (R01.9); pools of library buffers (bytes.Buffer, strings.Builder): reset before first use at every Get or reset-and-untouched on every path to every Put (R01.3)",
 "C02": "; read-lock/write-lock distinction in the lockset (writes need the write side); registered templates' trees are never released while shared (R02.5)",
 "C03": "; a return inside a map-ordered loop that depends on the visited entry must lie under an equality test on the key itself (R03.1)",
 "C04": "; classification of every store into Token.Value: parameter, source slice, constant or shortened value, never a concatenation (R04.6)",
 "C05": "; interval lint on narrow-integer arithmetic feeding bounds (R05.12); constant look-around reads next to searched offsets (R05.13); provenance and Comparable()-dominance of every key handed to reflect MapIndex/SetMapIndex plus key-type agreement (R05.14); progress lint on tokenizer scan loops: no cycle through the loop's exit test avoids a store of the position, with path feasibility decided over the 256 values of the current byte, truth tables of byte-class predicates obtained by constant evaluation of their SSA, and boolean phis fixed by the entered edge (R05.15)",
 "C06": "; policy queries are side-effect free (R06.6); below a render, templates are only rendered in contexts derived from the current one (R06.7); every filter written in a template becomes a node that applies it (R06.8); `include … sandboxed` sets the flag on every path, with constant-phi branches decided by the incoming edge (R06.9)",
 "C07": "; who-rebinds-escape check on the filter tables (R07.6); backward value flow at every write of an apply node: only the ApplyFilter result, converted (R07.7)",
 "C08": "; relational operators compare numerically wherever both operands convert (R08.9); shape rules of the precedence descent (R08.10); forward value flow from string→integer conversions to literal nodes: base ten only (R08.11)",
 "C09": "; SetVariable binds on every path (R09.11), no entry of a context's variable map is removed on render paths except by the loop's restore (R09.12); must-pass-through of the `loop` binding before every render of a for body, through helpers (R09.13); provenance of GetAttr attribute names: compared with constants only under a dominating key lookup (R09.14)",
 "C10": "; parent() renders the inherited body at the call, in the caller's context (R10.6); control-flow disjointness of the extends hand-over from every other use of the output writer (R10.7)",
 "C11": "; include resolves its template through Engine.Load on every render (R11.5), every `with` variable is handed over — each pass of the loop binds the name or leaves (R11.6); outward walks of the .parent chain that copy variables must be guarded by an absence test (R11.7); path search from every by-name lookup in a context's own map: a miss reaches .parent or another verified reader before any return (R11.8)",
 "C12": "; the parser never evaluates default expressions (R12.6); import/from learn a library's macros by rendering it (R12.7); chain walks over contexts are not bounded by constants (R12.8)",
 "C13": "; trim locality — whether a neighbour is trimmed depends on the delimiter kinds only, through scanning helpers and conditional pass wrappers (R13.2); the whitespace pass rewrites the very token slice the parser reads (R13.4)",
 "C14": "; results decided by size comparisons (R14.6); chain walks bounded by constants (R14.7)",
 "C15": "; the registry map is never replaced outside the constructor (R15.6); Exists of file-backed loaders answers true only behind a file-system query, also through predicate closures handed to search helpers (R15.7)",
 "C16": "; the fields of a compiled template are written only by its constructor and the deserialiser (R16.1c); the name → file mapping of the compiled store is injective (R16.8); the tree of a template loaded from compiled form is the result of parsing its stored source (R16.9)",
 "C17": "; the filter named by a node is applied before any successful return (R17.5)",
 "C18": "; no address of a reflected caller value is taken (R18.3); a data value is never asserted to an interface with mutating or consuming methods (R18.4)",
 "C20": "; type-level containment walk: resolved lookups are held by package-level variables and stateful types only as values of map[attributeCacheKey] (R20.7); provenance of the key's type and of the entry modified after a hit (R20.5, R20.6)",
}
LEVEL_ADD = {
 "C05": " Of termination one necessary condition is decided for the tokenizer's position-governed scan loops (R05.15: every way round stores the position); that the stored position is larger, and every other loop, are not.",
 "C11": " Also decided: by-name reads fall through to the enclosing contexts on every miss path, and flattening a context chain keeps inner bindings.",
 "C09": " Also decided: `loop` is bound before every body render, and attribute access on hashes is not pre-empted by name-specific shorthands.",
 "C10": " Also decided: an extending template hands its writer to the extends node only — nothing else is rendered on that path.",
}
for k, v in TECH_ADD.items():
    t, txt, note, ref = CLAIMED[k]
    CLAIMED[k] = (t + v, txt + LEVEL_ADD.get(k, ""), note, ref)

# Rules added in round 7 (DESIGN.md §11)
TECH_ADD7 = {
 "C01": "; value taint from process-wide scalars (package-level counters, flags, sync/atomic values) written on parse/render paths to results and to the conditions of returns (R01.10)",
 "C02": "; package-level scalars and sync/atomic typed values are shared locations; R02.4 also follows their values into results",
 "C04": "; no constant word is substituted for a different word the source was compared with (R04.7); must-pass-through of the parser before every successful return of Parse (R04.8)",
 "C05": "; all-elements type predicates established at every call site of a helper (R05.4)",
 "C06": "; backward slice of every bool the package's own policy returns: never key presence, a length or the constant true (R06.10)",
 "C07": "; forward value flow in every interface{}→string stringifier: the string case returns the asserted value itself (R07.8)",
 "C09": "; no constant nil reaches the loop renderer's sequence parameter (R09.15); list and hash literal arms return containers allocated by that evaluation (R09.16); set binds through the binding primitive on its own context (R09.5)",
 "C10": "; structural node types hand their own context parameter to every nested render, also through render helpers (R10.8); the root node's block registration is not held back by presence alone (R10.9)",
 "C11": "; no store/delete on the variable map of a context reached through .parent (R11.9); a context built for an include that is not linked to the includer's is confined to the only=true region (R11.10)",
 "C12": "; default and null bindings are edge-dominated by the 'no argument at this position' outcome of the index/len(args) test (R12.2)",
 "C13": "; no ordered comparison has a Token.Type operand (R13.5); constants reaching a shift count from call sites are below the operand's width (R13.6)",
 "C14": "; must-pass-through of the parser before every successful return of Parse (R14.8)",
 "C15": "; stores in the engine's boolean switches are not control dependent on engine state (R15.8)",
 "C16": "; every CompiledTemplate returned by a Template method takes Source from the receiver's own source field (R16.10)",
 "C17": "; a propagating call in a loop is not reached again without a test or consumer of its error in between; errors handed to collector objects are followed through deposit/withdraw summaries",
 "C20": "; a statistics update stores back only an entry whose comma-ok read was a hit (R20.4)",
}
for k, v in TECH_ADD7.items():
    t, txt, note, ref = CLAIMED[k]
    CLAIMED[k] = (t + v, txt, note, ref)

# Rules added in round 8 (DESIGN.md §12)
TECH_ADD8 = {
 "C01": "; a value released by a deferred release is aliased by no result of the function, through result slots, slices and interface conversions (R01.5)",
 "C03": "; a running minimum/maximum in a map-ordered loop does not recognise its empty state by a constant an entry can equal (R03.1)",
 "C04": "; the string a top-level Render returns is the buffer's text (R04.9); stores into the tokenizer's source are parameters or saved values, never call results (R04.10)",
 "C06": "; negative guard helpers (`blocked(name)`: false only where not sandboxed or allowed) are summarised like positive ones (R06.1)",
 "C07": "; a loop that copies a filter chain appends every item (R07.5)",
 "C08": "; a token emitted instead of tokenising a piece of text that is elsewhere handed to TokenizeExpression is controlled by an identifier validator of the whole text (R08.12); the equality routine of == and its numeric helpers contain no ordered floating-point comparison (R08.13)",
 "C09": "; no render of a for loop's else branch is reachable from a binding of `loop` (R09.17)",
 "C10": "; the loop that looks for the extends tag has no exit other than exhaustion or success (R10.10)",
 "C12": "; stores into MacroNode.params/defaults/body are constructor parameters (R12.9); import helpers render the library on every successful path (R12.7)",
 "C14": "; the result of Parser.Parse never becomes a map entry (R14.9)",
 "C15": "; every successful return of a file-reading Load lies behind a read of the file (R15.9)",
 "C16": "; error returns on the deserialising side are not control dependent on calls inspecting decoded strings (R16.11)",
 "C17": "; import helpers render the library on every successful path (R17.6)",
 "C18": "; typed containers a helper hands back from its data parameter count as data (R18.2)",
 "C19": "; in the sibling implementations the data value is never asserted to an interface with methods (R19.5)",
}
for k, v in TECH_ADD8.items():
    t, txt, note, ref = CLAIMED[k]
    CLAIMED[k] = (t + v, txt, note, ref)

TECH_ADD9 = {
 "C01": "; sync/atomic writes into tree fields count as writes (R01.2); identity fields of a *Template parameter are written only while it is built (R01.11)",
 "C02": "; no struct holding a Mutex/RWMutex is passed or copied by value (R02.6)",
 "C04": "; a function that switches the tokenizer's source restores it on every path to every return (R04.11)",
 "C06": "; evaluation on behalf of a context stays in that context: no evaluator call on a fresh or foreign context under a sandboxed one (R06.11)",
 "C07": "; the in-text interpolator is handed template source only, never rendered or escaped output (R07.10)",
 "C08": "; every text handed to TokenizeExpression and every token value handed to AddToken is a piece of the source on every edge — parameter, slice, trimmed or split piece, never Join/Replace/ToLower/Sprintf/concatenation (R08.14); the operand of a Unary/BinaryNode flows into another node only in a function that reads that node's operator (R08.15)",
 "C09": "; the same piece-of-source rule for tag headers (R09.18)",
 "C10": "; a re-entrant function never brackets nested work with two different constants stored to one field of shared state (R10.11); no element-wise copy of a []Node in the parser is controlled by a test over the element (R10.12)",
 "C11": "; tables of parsed expressions (map[string]Node) in the parser only grow (R11.11)",
 "C12": "; the macro table of a context is written only by RenderContext, MacroNode, ImportNode and FromImportNode methods (R12.10); a macro is looked up by a FunctionNode's bare name only where its moduleExpr was tested nil (R12.11)",
 "C14": "; the tree stored in a Template comes from Parser.Parse on every edge (R14.10); lengths, positions and counters are never converted to integer types narrower than 32 bits unless masked first (R14.11)",
 "C15": "; the append of a Loader parameter to Engine.loaders is controlled only by a nil test or an identity comparison of the parameter (R15.10)",
 "C16": "; every constructor that stores a tree in a Template sets every field some sibling constructor derives from the tree (R16.12)",
 "C17": "; a deferred function that assigns the error result does not overwrite an error already there (R17.7)",
 "C18": "; variables read back from a RenderContext map are data; elements of maps held in fields are not assumed fresh (R18.2)",
 "C19": "; no interface value is compared for equality with a boxed numeric constant (R19.6)",
 "C20": "; the resolver of x.name reaches reflect.Value.MapIndex through static calls — attribute access on a map of any type is a key lookup (R20.8)",
}
for k, v in TECH_ADD9.items():
    t, txt, note, ref = CLAIMED[k]
    CLAIMED[k] = (t + v, txt, note, ref)

TECH_ADD10 = {
 "C01": "; for every pool of generic containers (map[string]interface{}, []interface{}): if a value taken from it is boxed into interface{} and stored, passed or returned, nothing is ever Put into that pool (R01.12)",
 "C02": "; taint from shared counters passes through local slots (results spilled by defer) (R02.4)",
 "C03": "; the same pool rule: output does not depend on when a pool recycles a container a template still holds (R03.6)",
 "C05": "; reflect.Value.Slice is legal on slices and strings only (values from ValueOf are never addressable arrays) (R05.2); a loop counter compared with a length is never advanced by len(y) without evidence that y is non-empty (R05.16); `switch { case cond: }` clauses refine token-index facts like if conditions (R05.1)",
 "C06": "; every *Environment handed to a nested context in a function that has a render context is that context's env field (R06.12); all call sites of one SecurityPolicy method form their argument the same way (R06.13)",
 "C07": "; the same sibling agreement of policy questions (R07.11)",
 "C08": "; a quoted-literal shortcut (token value x[1:len(x)-1] beside TokenizeExpression(x)) needs evidence that the quote does not occur inside (R08.12); a parser function that builds FilterNodes around its Node parameter returns that parameter or a FilterNode it built (R08.16); operator tables whose values are records are read (R08.1)",
 "C09": "; string(<[]byte data>) in the for renderer (R09.4)",
 "C10": "; every string PrintNode.Render writes is a conversion result, never a slice, trim or replacement of it (R10.13)",
 "C12": "; the code of ImportNode.Render contains SetVariable(alias, …) (R12.12)",
 "C14": "; no element-wise copy of a []Token keeps or drops a token by a test over it, transitively within the iteration (R14.12); Size()/Len()/Cap() methods count as sizes",
 "C15": "; no failing return of a file-reading Load is decided by a lookup in a map of the loader unless the file system is asked on every path (R15.11); Template.lastModified of a template taken from the cache is never written (R15.12); a non-nil Template.loader is stored only on the loading path, followed through unexported constructors (R15.13)",
 "C16": "; in the codec no size-threshold branch selects a different set of wire-level functions (R16.13)",
 "C19": "; string(<[]byte data>) in a sibling implementation changes the unit of the sequence for that sibling only (R19.1)",
 "C20": "; the key of every reflect MapIndex does not derive from a conversion whose error/ok result is discarded (R20.9)",
}
for k, v in TECH_ADD10.items():
    t, txt, note, ref = CLAIMED[k]
    CLAIMED[k] = (t + v, txt, note, ref)

TECH_ADD11 = {
 "C01": "; a pointer-receiver method of a foreign type called on the address of a tree field (n.buf.Reset()) is a write (R01.2)",
 "C03": "; a store dst[name] in a map-ordered loop where name is a local translated through another table (aliases) is order dependent (R03.1)",
 "C04": "; the source a file-reading Load returns is string(bytes read) on every edge, through helpers (R04.12); the argument of Parser.Parse is a parameter, field or loader result — never the result of strings/bytes/regexp functions, a slice or a concatenation (R04.13)",
 "C05": "; a non-constant index into []rune(s) needs a comparison involving the rune count in the function (R05.17)",
 "C08": "; where a keyword is found in tag text (p = index search in x) and x[p+k:] is tokenised, x[:p] is taken and handed on too (R08.17); every function comparing a BinaryNode's operator (or a parameter that receives it) with a constant is EvaluateExpression or statically reached from it within four calls (R08.18); helpers answering `decided` for short-circuit operators are summarised (R08.2)",
 "C10": "; every successful return of Parser.Parse is a *RootNode built there (R10.14)",
 "C11": "; the same consumption rule for the include tag (R11.12)",
 "C13": "; in a switch over Token.Type, separate arms for a delimiter kind and its _TRIM twin move tokenIndex the same number of times (R13.7)",
 "C14": "; Parse gets the source unchanged (R14.13)",
 "C15": "; `does not exist` answers of Exists are not decided by a memo alone (R15.11); no return inside a walk over a list of loaders is decided by an errors.Is / errors.As classification (R15.15)",
 "C17": "; only errors.Is(err, ErrTemplateNotFound / ErrNotExist) ends the obligation to return a failure — any other classification followed by a nil error is a swallowed failure (R17.1)",
 "C19": "; a loop that applies a filter chain is left early only by a return with a non-nil error (R19.7)",
}
for k, v in TECH_ADD11.items():
    t, txt, note, ref = CLAIMED[k]
    CLAIMED[k] = (t + v, txt, note, ref)

TECH_ADD12 = {
 "C01": "; no loader is picked out of a list by an index that comes from a map lookup or a remembered field (R01.13)",
 "C03": "; comparators that order reflect map keys do not compare reflect.Value.String() of keys whose kind is not known to be String (R03.3)",
 "C04": "; a successful return of a Write / WriteString method reports len of its argument, never the count of a copy (R04.14)",
 "C05": "; reflect.Value.FieldByIndex (not Err) on render paths (R05.18); every store into a map field of a render context is preceded, in the function, by an assignment or nil test of the map, or every function that takes a context out of the pool gives the field a non-nil map on every path (R05.19, must-dataflow with a non-nil mode); `!(A && B)` / `A || B` refine token-index facts by joining the alternatives (R05.1)",
 "C06": "; R06.9 follows helpers that render what they are handed",
 "C08": "; each Node-typed field of an operator node receives one and the same constructor parameter on every path (R08.19)",
 "C09": "; R09.1 follows helpers that evaluate one condition and answer with toBool",
 "C10": "; in functions that parse a source no failing return is control dependent on a value computed from the parsed tree (R10.15)",
 "C11": "; a lookup of a name in the globals is dominated by a lookup of it in the context's own variables, in the function or at every call site of the helper (R11.13); what IncludeNode.Render and its private helpers write to the page is not a slice or trimmed form of rendered bytes (R11.14); a context reached by walking parent links to their end is read only inside that walk (R11.15)",
 "C12": "; the store of a macro definition into the macro table is not controlled by a lookup of that table (R12.13)",
 "C13": "; kind predicates count for R13.1 only when the parser asks them; loops that apply a per-token pass, predicate-valued kind tests and byte-predicate trim loops are understood (R13.2)",
 "C14": "; a field that a function increments and decrements (a depth counter) is decremented on every path from the increment to a successful return (R14.14)",
 "C15": "; every read of the template table whose result is handed out is dominated by the cache flag, also outside Engine.Load (R15.4); loaders are not selected by remembered positions (R15.16)",
 "C18": "; values copied from the caller's map into a context are the values read, not call results (R18.5); pointer-receiver methods of foreign types called on data values are read-only ones (R18.6)",
 "C19": "; no strconv.ParseInt / ParseUint with constant base 0 on render paths (R19.8)",
}
for k, v in TECH_ADD12.items():
    t, txt, note, ref = CLAIMED[k]
    CLAIMED[k] = (t + v, txt, note, ref)

TECH_ADD13 = {
 "C03": "; a store into the map a loop ranges over, under another key than the loop's, is order dependent (R03.1)",
 "C04": "; a function that is handed an io.Writer but renders into a buffer of its own passes a call involving the writer on every path to a return that can succeed (R04.15)",
 "C07": "; R07.7 follows helpers that apply the node's filter and write the result",
 "C08": "; LiteralNodes built from the Value of a token found to be TOKEN_STRING go through the same decoding function at every site (R08.20)",
 "C12": "; no map or slice handed to a node constructor in the parser is a container kept in a field of the Parser (R12.14); R12.4 follows helpers that are handed the call node",
 "C13": "; searches for the tag openers {% and {# happen in methods of the tokenizer only (R13.8); an array indexed by Token.Type is longer than the largest TOKEN_ constant (R13.9)",
 "C17": "; from a propagating call no path reaches a `return …, nil` without crossing a test or use of the call's error (R17.1)",
 "C20": "; no plain m[key] on a typed data map (element type not an interface) is boxed and handed out: absence must be visible (R20.10)",
}
for k, v in TECH_ADD13.items():
    t, txt, note, ref = CLAIMED[k]
    CLAIMED[k] = (t + v, txt, note, ref)

TECH_ADD14 = {
 "C02": "; pointer-receiver methods of non-twig types called on package-level objects from the concurrent API belong to goroutine-safe packages (sync, atomic, regexp, log, os, time, reflect) or stand in a function that locks (R02.7)",
 "C04": "; functions making a TextNode from a string hand the node that very parameter (R04.16); R04.3 counts only callees that can yield nodes",
 "C05": "; a result of strings.Index & co. used as it stands as slice bound or index is known non-negative there: a test of the result, or Contains of the same haystack and needle, on every path (R05.20)",
 "C07": "; every successful return of the handler registered for `apply` yields an *ApplyNode (R07.9)",
 "C08": "; a function building a Unary/Binary/ConditionalNode from operand parameters never returns one of those operands or a part of one (R08.21); every call of the precedence function passes a value that can be one of the table's two-word operators (R08.22)",
 "C15": "; the sibling methods of one loader (Load, Exists, GetModifiedTime) apply the same sequence of path and string operations to the template name before touching the file system (R15.17); map lookups on typed maps in Load/Exists of loaders are the two-result form (R15.18)",
 "C16": "; outside Engine.Load no branch in render-reachable code is decided by Template.loader or Template.lastModified (R16.14)",
}
for k, v in TECH_ADD14.items():
    t, txt, note, ref = CLAIMED[k]
    CLAIMED[k] = (t + v, txt, note, ref)

NOT_YET = "static rule for this property not implemented yet at this commit (planned, see DESIGN.md §2)"
NA = {}

m = {
 "version": 1,
 "setup_cmd": "export GOFLAGS=-mod=mod GOPROXY=off; cd /verif/twigcheck && go build -o /verif/bin/twigcheck .",
 "hooks": {"guard": "verif", "enable": "-tags verif (no hook files exist: static analysis needs no instrumentation of /repo)",
           "baseline_off_cmd": "cd /repo && GOFLAGS=-mod=mod GOPROXY=off go test -json -vet=off -count=1 -timeout 25m ./...",
           "source_commits": [], "add_only": True},
 "engines": [{"name": "twigcheck", "path": "/verif/twigcheck", "serves_properties": sorted(CLAIMED),
              "kind_free_text": "repository-specific static analyser (go/packages + go/types + go/ssa + go/cfg + VTA∪CHA call graph); nothing under /repo is executed"}],
 "checks": [], "not_applicable": [],
 "notes": "Family of technique: static analysis only. Every check loads /repo's current working tree, enumerates obligations (rule, function, construct) and reports a specific construct as the violation. Known findings: /verif/known_findings.json. See DESIGN.md.",
}
for p in props:
    i = p['id']
    if i in CLAIMED:
        t, txt, note, ref = CLAIMED[i]
        m['checks'].append({"property_id": i, "quick_cmd": f"./check.sh {i} quick", "thorough_cmd": f"./check.sh {i} thorough",
                            "evidence_file": f"/verif/evidence/{i}.json", "replay_cmd_template": "cat {path}", "engine": "twigcheck",
                            "level_claimed": {"category": "other", "text": txt, "design_ref": ref}, "level_note": note, "technique": t})
    else:
        m['not_applicable'].append({"property_id": i, "reason": NA.get(i, NOT_YET)})
json.dump(m, open(os.path.join(here, 'MANIFEST.json'), 'w'), indent=1, ensure_ascii=False)
print("claimed:", sorted(CLAIMED), "n/a:", [x['property_id'] for x in m['not_applicable']])
