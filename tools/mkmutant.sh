#!/bin/sh
# usage: mkmutant.sh <prop> <name> <file> <sed-expression> — records a checker self-test mutant as a
# unified diff against /repo's current tree under /verif/mutants/<prop>/<name>.patch
prop=$1; name=$2; file=$3; expr=$4
d=$(mktemp -d /tmp/twigmut.XXXXXX)
mkdir -p $d/a $d/b && cp /repo/$file $d/a/$file && cp /repo/$file $d/b/$file
sed -i "$expr" $d/b/$file
if cmp -s $d/a/$file $d/b/$file; then echo "MUTATION DID NOT APPLY: $name"; rm -rf $d; exit 3; fi
mkdir -p /verif/mutants/$prop
( cd $d && diff -u a/$file b/$file ) > /verif/mutants/$prop/$name.patch
rm -rf $d
echo "wrote /verif/mutants/$prop/$name.patch"
