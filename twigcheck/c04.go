package main

// C04 — literal text is emitted exactly; comments and verbatim bodies are inert.
//
// Only the transport half of the property is visible in the shape of the code:
// R04.1 identity flow of text: the parser hands a TEXT token's value unmodified to the text-node
//       constructor; TextNode.Render and VerbatimNode.Render hand their content unmodified to
//       the writer and do nothing else; nobody else reads the content fields.
// R04.2 comments are inert: the comment arm of the parser builds no node and parses nothing;
//       CommentNode.Render writes nothing.
// R04.3 verbatim bodies are never evaluated: parseVerbatim calls no other parser function, and
//       VerbatimNode.Render does not touch the render context.
// R04.4 WriteString transports bytes: every path of the helper hands exactly its argument to the
//       writer.
// R04.5 verbatim content is source text: what parseVerbatim stores as content is composed of
//       TEXT token values only — not of string constants or re-printed expression tokens.

import (
	"fmt"
	"go/ast"
	"go/constant"
	"go/token"
	"go/types"
	"sort"
	"strings"

	"golang.org/x/tools/go/ssa"
)

func init() { register("C04", checkC04) }

// frozen: readers of TextNode.content / VerbatimNode.content besides Render/String/pool code
var contentReaderExceptions = map[string]string{
	"(*MacroNode).CallMacro": "macro bodies re-scan text nodes that contain `{{` (renderVariableString); neither tokenizer can emit a TEXT token that contains a tag delimiter for a well-formed template, confirmed by reading — keyed to this function only",
}

func checkC04(w *World, r *Report) {
	r.Explanation = "Decides the transport half of C04 for every byte string used as literal text: (R04.1) the parser passes a TEXT token's value to the text-node constructor unmodified, TextNode.Render and VerbatimNode.Render pass their content unmodified to the writer and make no other call, and no other function reads those content fields; (R04.2) the comment arm of the parser builds no node and calls no parser function, and CommentNode.Render writes nothing; (R04.3) parseVerbatim calls no other parser function, so nothing inside a verbatim body can become an evaluable node, and VerbatimNode.Render never touches its context; (R04.4) every path of the WriteString helper hands exactly its string argument to the writer; (R04.5) the content parseVerbatim stores is composed of TEXT token values only. NOT decided — and this is the larger half: that the byte offsets computed by the tokenizer partition the source (no byte dropped or duplicated next to a tag, the backslash-escape branch, the unsafe reads); those are arithmetic facts about strings.Index results and need value reasoning."
	r.Explanation += " Rules added in later rounds: (R04.6) no store into Token.Value is a concatenation: a token's value stays one piece of source, so an escaped delimiter never fuses with its neighbours into a text node holding a complete {{ … }}. (R04.7) no word is substituted for a different word; (R04.8) Parse succeeds only behind the parser. (R04.9) Render returns the buffer's text; (R04.10) the scanner's source is the text given."
	r.Explanation += " Round 9: (R04.11) a function that switches the tokenizer's source restores it before every return."
	r.Explanation += " Round 11: (R04.12) loaders return the bytes of the file; (R04.13) Parse gets the source unchanged."
	r.Explanation += " Round 12: (R04.14) Write methods report the whole argument."
	r.Explanation += " Round 13: (R04.15) output staged in a buffer is delivered to the writer."
	r.Explanation += " Round 14: (R04.16) TextNode makers store the text they are handed; R04.3 counts only node-yielding callees."
	r.RuleText = "obligation = one transport step / one reader of a content field / one write into verbatim content; non-trivial = all"
	r.Trusted = []string{"io.Writer implementations write the bytes they are given"}

	textKind := w.lookup("TOKEN_TEXT")
	commentKind := w.lookup("TOKEN_COMMENT_START")
	tokenT := w.named("Token")

	// ---- R04.1a / R04.2 (AST, parser arms)
	nText, nComment := 0, 0
	for _, fd := range w.sortedDecls() {
		if !w.parserSide(fd) {
			continue
		}
		// the verbatim handler looks at the same token kinds in another role (it re-assembles the
		// raw body; R04.3/R04.5 are its rules): recognised by what it builds
		buildsVerbatim := false
		ast.Inspect(fd.Body, func(n ast.Node) bool {
			if c, ok := n.(*ast.CallExpr); ok {
				if f := w.callee(c); f != nil {
					if sig, ok := f.Type().(*types.Signature); ok && sig.Results().Len() == 1 && isNamed(sig.Results().At(0).Type(), twigPath, "VerbatimNode") {
						buildsVerbatim = true
					}
				}
			}
			return true
		})
		if buildsVerbatim {
			continue
		}
		fname := w.declName(fd)
		ast.Inspect(fd.Body, func(n ast.Node) bool {
			cc, ok := n.(*ast.CaseClause)
			if !ok {
				return true
			}
			has := func(k types.Object) bool {
				for _, e := range cc.List {
					if w.Info.Uses[identOf(e)] == k {
						return true
					}
				}
				return false
			}
			if has(textKind) && len(cc.List) == 1 {
				// the text arm: a constructor of a text node receives <token>.Value itself
				found := false
				for _, st := range cc.Body {
					ast.Inspect(st, func(m ast.Node) bool {
						c, ok := m.(*ast.CallExpr)
						if !ok || len(c.Args) == 0 {
							return true
						}
						f := w.callee(c)
						if f == nil {
							return true
						}
						sig := f.Type().(*types.Signature)
						if sig.Results().Len() != 1 || !isNamed(sig.Results().At(0).Type(), twigPath, "TextNode") {
							return true
						}
						found = true
						nText++
						sel, isSel := ast.Unparen(c.Args[0]).(*ast.SelectorExpr)
						if isSel && sel.Sel.Name == "Value" && types.Identical(w.Info.TypeOf(sel.X), tokenT) {
							r.ok("R04.1", fname, "TEXT token value reaches the text node unmodified", w.pos(c), "constructor receives <token>.Value itself", true)
						} else {
							r.bad("R04.1", fname, "TEXT token value reaches the text node unmodified", w.pos(c), "the text node is built from `"+types.ExprString(c.Args[0])+"`, not from the token's value itself: literal text is altered before it is stored")
						}
						return true
					})
				}
				if !found {
					r.bad("R04.1", fname, "TEXT token value reaches the text node unmodified", w.pos(cc), "the TEXT arm of the parser builds no text node")
					nText++
				}
			}
			if has(commentKind) {
				nComment++
				// no node appended, no parser function called
				bad := ""
				scans := false
				var inertHelpers []*ast.FuncDecl
				for _, st := range cc.Body {
					ast.Inspect(st, func(m ast.Node) bool {
						c, ok := m.(*ast.CallExpr)
						if !ok {
							return true
						}
						if id, ok := c.Fun.(*ast.Ident); ok && id.Name == "append" {
							bad = "a node is appended in the comment arm"
						}
						if f := w.callee(c); f != nil && f.Pkg() != nil && f.Pkg().Path() == twigPath {
							if d := w.decls[f]; d != nil && w.parserSide(d) {
								// a helper that only moves the cursor is as inert as the inlined loop
								if why := w.inertParserHelper(d, map[*ast.FuncDecl]bool{}); why != "" {
									bad = "the comment arm calls the parser function " + f.Name() + " (" + why + ")"
								} else {
									inertHelpers = append(inertHelpers, d)
								}
							}
						}
						return true
					})
				}
				// the cursor must be moved by scanning for the comment end, not by a fixed stride
				// (the tokenizer emits no body token for an empty comment)
				scanIn := func(body ast.Node) {
					ast.Inspect(body, func(m ast.Node) bool {
						if fs, ok := m.(*ast.ForStmt); ok && fs.Cond != nil && mentionsConst(w, fs.Cond, "TOKEN_COMMENT_END") {
							scans = true
						}
						return true
					})
				}
				for _, st := range cc.Body {
					scanIn(st)
				}
				for _, d := range inertHelpers {
					scanIn(d.Body)
				}
				if bad == "" && !scans {
					bad = "the comment arm does not scan for TOKEN_COMMENT_END (fixed stride): an empty comment has no body token, so the token after it is swallowed"
				}
				if bad == "" {
					r.ok("R04.2", fname, "comment arm builds nothing and parses nothing", w.pos(cc), "no append, no parser call between the comment delimiters", true)
				} else {
					r.bad("R04.2", fname, "comment arm builds nothing and parses nothing", w.pos(cc), bad+": comment text can contribute to the output or be evaluated")
				}
			}
			return true
		})
	}
	r.floor("TEXT arms building text nodes", nText, 1)
	r.floor("comment arms", nComment, 1)

	// ---- R04.1b: Render of TextNode / VerbatimNode; R04.2: CommentNode.Render
	for _, tn := range []string{"TextNode", "VerbatimNode"} {
		fn := w.ssaFunc(w.method(tn, "Render"))
		wParam, ctxParam := fn.Params[1], fn.Params[2]
		nCalls, good := 0, true
		why := ""
		instrsOf(fn, func(in ssa.Instruction) {
			c, ok := in.(ssa.CallInstruction)
			if !ok {
				return
			}
			if _, isB := c.Common().Value.(*ssa.Builtin); isB {
				return
			}
			nCalls++
			// receives the writer and the unmodified content
			hasW, hasContent := false, false
			all := append([]ssa.Value{}, c.Common().Args...)
			if c.Common().IsInvoke() {
				all = append(all, c.Common().Value)
			}
			for _, a := range all {
				if a == ssa.Value(wParam) {
					hasW = true
				}
				if base, ok := fieldLoad(a, tn, "content"); ok && base == ssa.Value(fn.Params[0]) {
					hasContent = true
				}
			}
			if !hasW || !hasContent {
				good = false
				why = "a call in the renderer does not receive both the writer and the node's unmodified content (" + c.String() + ")"
			}
		})
		if nCalls != 1 && good {
			good = false
			why = fmt.Sprintf("the renderer makes %d calls instead of exactly one write", nCalls)
		}
		if good {
			r.ok("R04.1", ssaName(fn), "renders its content unmodified, exactly once", w.posOf(fn.Pos()), "single call handing (w, n.content) to the writer", true)
		} else {
			r.bad("R04.1", ssaName(fn), "renders its content unmodified, exactly once", w.posOf(fn.Pos()), why)
		}
		if tn == "VerbatimNode" {
			if ctxParam.Referrers() == nil || len(*ctxParam.Referrers()) == 0 || onlyDebugRefs(ctxParam) {
				r.ok("R04.3", ssaName(fn), "verbatim rendering does not touch the context", w.posOf(fn.Pos()), "the ctx parameter is unused", true)
			} else {
				r.bad("R04.3", ssaName(fn), "verbatim rendering does not touch the context", w.posOf(fn.Pos()), "VerbatimNode.Render uses its render context: the output of a verbatim body can depend on context data")
			}
		}
	}
	{
		fn := w.ssaFunc(w.method("CommentNode", "Render"))
		writes := false
		instrsOf(fn, func(in ssa.Instruction) {
			if c, ok := in.(ssa.CallInstruction); ok {
				if _, isB := c.Common().Value.(*ssa.Builtin); !isB {
					writes = true
				}
			}
		})
		if !writes {
			r.ok("R04.2", ssaName(fn), "comments render nothing", w.posOf(fn.Pos()), "no call at all", true)
		} else {
			r.bad("R04.2", ssaName(fn), "comments render nothing", w.posOf(fn.Pos()), "CommentNode.Render performs calls: a comment can contribute output or evaluate something")
		}
	}

	// ---- R04.1c: readers of the content fields
	allowed := func(fn *ssa.Function) string {
		name := ssaName(fn)
		switch {
		case strings.HasSuffix(name, ".Render") && (strings.Contains(name, "TextNode") || strings.Contains(name, "VerbatimNode")):
			return "the node's own renderer"
		case strings.HasSuffix(name, ".String"):
			return "debug printer"
		}
		return ""
	}
	nReaders := 0
	for _, fn := range w.pkgFuncs() {
		reads := map[string]bool{}
		instrsOf(fn, func(in ssa.Instruction) {
			fa, ok := in.(*ssa.FieldAddr)
			if !ok || fa.Referrers() == nil {
				return
			}
			tn, f := fieldOfAddr(fa)
			if f != "content" || (tn != "TextNode" && tn != "VerbatimNode") {
				return
			}
			for _, ref := range *fa.Referrers() {
				if st, ok := ref.(*ssa.Store); ok && st.Addr == ssa.Value(fa) {
					continue
				}
				reads[tn] = true
			}
		})
		var tns []string
		for tn := range reads {
			tns = append(tns, tn)
		}
		sort.Strings(tns)
		for _, tn := range tns {
			nReaders++
			construct := "reader of " + tn + ".content"
			if why := allowed(fn); why != "" {
				r.ok("R04.1", ssaName(fn), construct, w.posOf(fn.Pos()), why, false)
			} else if why, ok := w.exceptionForPart(fn, contentReaderExceptions); ok {
				r.except("R04.1", ssaName(fn), construct, w.posOf(fn.Pos()), why)
			} else {
				r.bad("R04.1", ssaName(fn), construct, w.posOf(fn.Pos()), "a function other than the node's renderer reads the stored literal text: it can re-interpret or transform text that must be emitted verbatim")
			}
		}
	}
	r.floor("readers of literal-text content fields", nReaders, 2)

	checkWriteString(w, r)
	checkVerbatim(w, r, tokenT, textKind)
	checkTokenValuesNeverGrow(w, r)
	checkNoTokenAliases(w, r)
	checkParseAlwaysParses(w, r, "R04.8")
	checkRenderReturnsBufferText(w, r)
	checkSourceReachesScannerUnchanged(w, r)
	checkScannerContextRestored(w, r)
	checkLoadersReturnFileBytes(w, r)
	checkParseGetsTheSource(w, r, "R04.13")
	checkWritersWriteEverything(w, r)
	checkStagedOutputDelivered(w, r)
	checkTextNodesKeepTheirText(w, r)
}

func onlyDebugRefs(v ssa.Value) bool {
	for _, ref := range *v.Referrers() {
		if _, ok := ref.(*ssa.DebugRef); !ok {
			return false
		}
	}
	return true
}

// R04.4
func checkWriteString(w *World, r *Report) {
	f := w.fn("WriteString")
	fn := w.ssaFunc(f)
	var sParam *ssa.Parameter
	for _, p := range fn.Params {
		if types.Identical(p.Type(), types.Typ[types.String]) {
			sParam = p
		}
	}
	if sParam == nil {
		cannotDecide("WriteString has no string parameter")
	}
	name := ssaName(fn)
	bad := ""
	isWrite := func(in ssa.Instruction) bool {
		c, ok := in.(ssa.CallInstruction)
		if !ok {
			return false
		}
		n := ""
		if c.Common().IsInvoke() {
			n = c.Common().Method.Name()
		} else if g := c.Common().StaticCallee(); g != nil {
			n = g.Name()
		}
		return n == "WriteString" || n == "Write"
	}
	instrsOf(fn, func(in ssa.Instruction) {
		c, ok := in.(ssa.CallInstruction)
		if !ok {
			return
		}
		for _, a := range callArgs(c) {
			if types.Identical(a.Type(), types.Typ[types.String]) && a != ssa.Value(sParam) {
				bad = "a string other than the argument itself is written (" + c.String() + ")"
			}
		}
	})
	// every successful return passed at least one write
	instrsOf(fn, func(in ssa.Instruction) {
		ret, ok := in.(*ssa.Return)
		if !ok {
			return
		}
		if found, _ := existsPathAvoiding(fn, ret, isWrite, nil); found {
			bad = "a path returns without writing anything"
		}
	})
	if bad == "" {
		r.ok("R04.4", name, "hands exactly its argument to the writer on every path", w.posOf(fn.Pos()), "every string written is the parameter itself; every return follows a write", true)
	} else {
		r.bad("R04.4", name, "hands exactly its argument to the writer on every path", w.posOf(fn.Pos()), bad)
	}
}

// R04.3 / R04.5
func checkVerbatim(w *World, r *Report, tokenT types.Type, textKind types.Object) {
	var fd *ast.FuncDecl
	for _, d := range w.sortedDecls() {
		// the function that constructs verbatim nodes from tokens
		if !w.parserSide(d) {
			continue
		}
		ast.Inspect(d.Body, func(n ast.Node) bool {
			if c, ok := n.(*ast.CallExpr); ok {
				if f := w.callee(c); f != nil {
					sig := f.Type().(*types.Signature)
					if sig.Results().Len() == 1 && isNamed(sig.Results().At(0).Type(), twigPath, "VerbatimNode") {
						fd = d
					}
				}
			}
			return true
		})
	}
	// the handler registered for the verbatim tag
	var handler *ast.FuncDecl
	if h := w.tagHandlers()["verbatim"]; h != nil {
		handler = w.decls[h]
	}
	if handler == nil {
		cannotDecide("no block handler is registered for the verbatim tag")
	}
	if fd != handler {
		r.bad("R04.3", w.declName(handler), "the verbatim handler builds a VerbatimNode", w.pos(handler), "the handler registered for `verbatim` does not construct a VerbatimNode: the body becomes an ordinary node (text nodes are re-scanned for {{ }} inside macro bodies), so a verbatim body can be evaluated and can leak context data")
		fd = handler
	} else {
		r.ok("R04.3", w.declName(handler), "the verbatim handler builds a VerbatimNode", w.pos(handler), "constructor returning *VerbatimNode", true)
	}
	fname := w.declName(fd)
	// R04.3: no other parser function is called
	var parserCalls []string
	ast.Inspect(fd.Body, func(n ast.Node) bool {
		if c, ok := n.(*ast.CallExpr); ok {
			if f := w.callee(c); f != nil && f.Pkg() != nil && f.Pkg().Path() == twigPath {
				if d := w.decls[f]; d != nil && w.parserSide(d) && yieldsNodes(w, f) {
					parserCalls = append(parserCalls, f.Name())
				}
			}
		}
		return true
	})
	if len(parserCalls) == 0 {
		r.ok("R04.3", fname, "verbatim bodies are not parsed", w.pos(fd), "no parser function is called while the body is collected", true)
	} else {
		r.bad("R04.3", fname, "verbatim bodies are not parsed", w.pos(fd), fmt.Sprintf("the verbatim handler calls %v: something inside a verbatim body can become an evaluable node", parserCalls))
	}
	// R04.5: writes into the content builder
	var badWrites []string
	nWrites := 0
	ast.Inspect(fd.Body, func(n ast.Node) bool {
		c, ok := n.(*ast.CallExpr)
		if !ok || len(c.Args) != 1 {
			return true
		}
		sel, ok := c.Fun.(*ast.SelectorExpr)
		if !ok || !strings.HasPrefix(sel.Sel.Name, "Write") || !isNamed(w.Info.TypeOf(sel.X), "strings", "Builder") {
			return true
		}
		nWrites++
		arg := ast.Unparen(c.Args[0])
		if tv := w.Info.Types[arg]; tv.Value != nil && tv.Value.Kind() == constant.String {
			badWrites = append(badWrites, fmt.Sprintf("constant %s (%s)", tv.Value.ExactString(), w.pos(c)))
			return true
		}
		// <tok>.Value under a test tok.Type == TOKEN_TEXT
		if vs, ok := arg.(*ast.SelectorExpr); ok && vs.Sel.Name == "Value" && types.Identical(w.Info.TypeOf(vs.X), tokenT) {
			underText := false
			for p := w.parents[c]; p != nil; p = w.parents[p] {
				if ifs, ok := p.(*ast.IfStmt); ok {
					if be, ok := ast.Unparen(ifs.Cond).(*ast.BinaryExpr); ok && w.Info.Uses[identOf(be.Y)] == textKind {
						// the write must be in the then-branch
						if c.Pos() >= ifs.Body.Pos() && c.End() <= ifs.Body.End() {
							underText = true
						}
					}
					break
				}
			}
			if underText {
				return true
			}
			badWrites = append(badWrites, fmt.Sprintf("value of a non-TEXT token (%s)", w.pos(c)))
			return true
		}
		badWrites = append(badWrites, fmt.Sprintf("expression %s (%s)", types.ExprString(arg), w.pos(c)))
		return true
	})
	construct := "verbatim content is assembled from TEXT token values only"
	if nWrites == 0 {
		r.ok("R04.5", fname, construct, w.pos(fd), "no builder writes: the content is taken from the source directly", true)
	} else if len(badWrites) == 0 {
		r.ok("R04.5", fname, construct, w.pos(fd), fmt.Sprintf("%d writes, all of TEXT token values", nWrites), true)
	} else {
		r.bad("R04.5", fname, construct, w.pos(fd), fmt.Sprintf("the body of a verbatim block is re-printed from expression tokens and string constants (%d of %d writes: %s): spacing, quotes and escapes inside {{ }} / {%% %%} / {# #} are lost or altered, so the output is not the source text", len(badWrites), nWrites, strings.Join(badWrites, "; ")))
	}
}

// inertParserHelper: "" if the parser-side function only moves the cursor: it returns no node,
// appends nothing, constructs no node and calls only parser functions that are inert themselves;
// otherwise what it does.
func (w *World) inertParserHelper(fd *ast.FuncDecl, seen map[*ast.FuncDecl]bool) string {
	if seen[fd] {
		return ""
	}
	seen[fd] = true
	nodeI, _ := w.named("Node").Underlying().(*types.Interface)
	returnsNode := func(t types.Type) bool {
		if t == nil || nodeI == nil {
			return false
		}
		if sl, ok := t.Underlying().(*types.Slice); ok {
			t = sl.Elem()
		}
		return types.Implements(t, nodeI) || types.Implements(types.NewPointer(t), nodeI)
	}
	obj, _ := w.Info.Defs[fd.Name].(*types.Func)
	if obj == nil || fd.Body == nil {
		return "no body"
	}
	res := obj.Type().(*types.Signature).Results()
	for i := 0; i < res.Len(); i++ {
		if returnsNode(res.At(i).Type()) {
			return "it returns a node"
		}
	}
	why := ""
	ast.Inspect(fd.Body, func(m ast.Node) bool {
		c, ok := m.(*ast.CallExpr)
		if !ok || why != "" {
			return true
		}
		if id, ok := c.Fun.(*ast.Ident); ok && id.Name == "append" {
			why = "it appends"
			return true
		}
		if tv, ok := w.Info.Types[c]; ok && returnsNode(tv.Type) {
			why = "it builds a node"
			return true
		}
		if f := w.callee(c); f != nil && f.Pkg() != nil && f.Pkg().Path() == twigPath {
			if d := w.decls[f]; d != nil && w.parserSide(d) {
				if sub := w.inertParserHelper(d, seen); sub != "" {
					why = "it calls " + f.Name() + ": " + sub
				}
			}
		}
		return true
	})
	return why
}

// exceptionForPart: the exception table entry for fn, or for the single function that fn is an
// unexported part of (every in-package caller chain of fn ends in that function, depth <= 3).
func (w *World) exceptionForPart(fn *ssa.Function, table map[string]string) (string, bool) {
	if why, ok := table[ssaName(fn)]; ok {
		return why, true
	}
	var root func(f *ssa.Function, depth int, seen map[*ssa.Function]bool) string
	root = func(f *ssa.Function, depth int, seen map[*ssa.Function]bool) string {
		if _, ok := table[ssaName(f)]; ok {
			return ssaName(f)
		}
		if depth > 3 || seen[f] || f.Object() == nil || f.Object().Exported() {
			return ""
		}
		seen[f] = true
		node := w.callgraph().Nodes[f]
		if node == nil || len(node.In) == 0 {
			return ""
		}
		res := ""
		for _, e := range node.In {
			if e.Caller.Func.Package() != f.Package() {
				return ""
			}
			r := root(e.Caller.Func, depth+1, seen)
			if r == "" || (res != "" && res != r) {
				return ""
			}
			res = r
		}
		return res
	}
	if r := root(fn, 0, map[*ssa.Function]bool{}); r != "" {
		return table[r] + " (in " + ssaName(fn) + ", a part of " + r + ")", true
	}
	return "", false
}

// checkTokenValuesNeverGrow — R04.6: a token's value is one contiguous piece of the source.
// Every store into Token.Value is classified: the value handed to the constructor/AddToken
// (a parameter, a slice of the source, a constant pattern) or a shortened form of the value
// already there (the whitespace-control trims).  A value that is a string concatenation merges
// pieces that the tokenizer emitted separately — the escaped delimiter `\{{` is a token of its
// own precisely so that no text node ever holds a complete `{{ … }}`, which the macro call
// would interpolate.
func checkTokenValuesNeverGrow(w *World, r *Report) {
	n := 0
	var concat func(v ssa.Value, seen map[ssa.Value]bool) bool
	concat = func(v ssa.Value, seen map[ssa.Value]bool) bool {
		v = unspill(v)
		if seen[v] {
			return false
		}
		seen[v] = true
		switch x := v.(type) {
		case *ssa.BinOp:
			if b, ok := x.Type().Underlying().(*types.Basic); ok && b.Info()&types.IsString != 0 && x.Op == token.ADD {
				return true
			}
		case *ssa.Phi:
			for _, e := range x.Edges {
				if concat(e, seen) {
					return true
				}
			}
		case *ssa.Call:
			if g := x.Call.StaticCallee(); g != nil {
				switch g.String() {
				case "strings.Join", "fmt.Sprintf", "fmt.Sprint", "(*strings.Builder).String", "(*bytes.Buffer).String", "strings.Repeat":
					return true
				}
			}
		}
		return false
	}
	for _, fn := range w.pkgFuncs() {
		instrsOf(fn, func(in ssa.Instruction) {
			st, ok := in.(*ssa.Store)
			if !ok {
				return
			}
			fa, ok := st.Addr.(*ssa.FieldAddr)
			if !ok {
				return
			}
			if t, f := fieldOfAddr(fa); t != "Token" || f != "Value" {
				return
			}
			n++
			construct := "stored token value is one piece of source"
			if concat(st.Val, map[ssa.Value]bool{}) {
				r.bad("R04.6", ssaName(fn), construct, w.posOf(in.Pos()), "a token's value is built by concatenation: pieces the tokenizer emits separately (text before an escaped delimiter, the delimiter, the text after it) become one token and one text node, which can then hold a complete `{{ … }}` that the macro call interpolates — escaped literal text is evaluated")
			} else {
				r.ok("R04.6", ssaName(fn), construct, w.posOf(in.Pos()), "parameter, source slice, constant or trimmed value", false)
			}
		})
	}
	r.floor("stores into Token.Value", n, 3)
}

// checkNoTokenAliases — R04.7: the tokenizer does not rewrite one word into another.  Where the
// value handed to AddToken is chosen among alternatives (a phi) and one alternative is a constant
// K that is selected because the source text equalled a constant K', K' must be K (interning a
// word as itself is the only substitution the tokenizer may make).  Mapping `raw` to `verbatim`
// makes `{% endraw %}` written INSIDE a verbatim body close the block: the rest of the body is
// evaluated.
func checkNoTokenAliases(w *World, r *Report) {
	addTok := w.method("ZeroAllocTokenizer", "AddToken")
	n := 0
	for _, fn := range w.pkgFuncs() {
		instrsOf(fn, func(in ssa.Instruction) {
			c, ok := in.(*ssa.Call)
			if !ok || calleeFunc(c) != addTok {
				return
			}
			args := callArgs(c)
			if len(args) < 2 {
				return
			}
			var visit func(v ssa.Value, seen map[ssa.Value]bool)
			visit = func(v ssa.Value, seen map[ssa.Value]bool) {
				v = unspill(v)
				if seen[v] {
					return
				}
				seen[v] = true
				ph, ok := v.(*ssa.Phi)
				if !ok {
					// interning helpers hand back their argument's text
					if call, ok := v.(*ssa.Call); ok && len(call.Call.Args) > 0 {
						if g := call.Call.StaticCallee(); g != nil && isTwigFn(g) {
							visit(call.Call.Args[len(call.Call.Args)-1], seen)
						}
					}
					return
				}
				for i, e := range ph.Edges {
					k, isConst := constString(e)
					if !isConst {
						visit(e, seen)
						continue
					}
					// why was this edge taken?  walk up single-predecessor blocks to the test
					b := ph.Block().Preds[i]
					child := ph.Block()
					for steps := 0; steps < 4; steps++ {
						if cond, trueIdx, ok := ifCond(b); ok {
							if bo, ok := cond.(*ssa.BinOp); ok && bo.Op == token.EQL && b.Succs[trueIdx] == child {
								k2, isC := constString(bo.Y)
								if !isC {
									k2, isC = constString(bo.X)
								}
								if isC {
									n++
									construct := fmt.Sprintf("word %q emitted where the source says %q", k, k2)
									if k2 != k {
										r.bad("R04.7", ssaName(fn), construct, w.posOf(in.Pos()), fmt.Sprintf("the tokenizer substitutes %q for %q: the parser cannot tell the two spellings apart any more, so wherever the second is inert text (inside a verbatim body, say) the first one's meaning is applied to it", k, k2))
									} else {
										r.ok("R04.7", ssaName(fn), construct, w.posOf(in.Pos()), "canonical spelling of the same word", true)
									}
								}
							}
							break
						}
						if len(b.Preds) != 1 {
							break
						}
						child, b = b, b.Preds[0]
					}
				}
			}
			visit(args[1], map[ssa.Value]bool{})
		})
	}
	r.Counts["constant alternatives of token values selected by a comparison"] = n
}

// checkSourceReachesScannerUnchanged — R04.10: what the tokenizer scans is what Parse was given.
// Every store into ZeroAllocTokenizer.source is, on every edge, a parameter of the storing
// function, the empty string, or a value read back from a source field / a saved local — never
// the result of a call (line-ending normalisation, BOM stripping, trimming): the scanner's text
// positions are the template's, and every byte between tags is literal text.
func checkSourceReachesScannerUnchanged(w *World, r *Report) {
	n := 0
	for _, fn := range w.pkgFuncs() {
		instrsOf(fn, func(in ssa.Instruction) {
			st, ok := in.(*ssa.Store)
			if !ok {
				return
			}
			fa, ok := st.Addr.(*ssa.FieldAddr)
			if !ok {
				return
			}
			if t, f := fieldOfAddr(fa); t != "ZeroAllocTokenizer" || f != "source" {
				return
			}
			n++
			bad := ""
			var walk func(v ssa.Value, seen map[ssa.Value]bool)
			walk = func(v ssa.Value, seen map[ssa.Value]bool) {
				if seen[v] || bad != "" {
					return
				}
				seen[v] = true
				switch x := v.(type) {
				case *ssa.Parameter, *ssa.Const, *ssa.FreeVar:
				case *ssa.Phi:
					for _, e := range x.Edges {
						walk(e, seen)
					}
				case *ssa.UnOp:
					if x.Op != token.MUL {
						bad = v.String()
						return
					}
					if al, ok := x.X.(*ssa.Alloc); ok && al.Referrers() != nil {
						for _, ref := range *al.Referrers() {
							if s2, ok := ref.(*ssa.Store); ok && s2.Addr == ssa.Value(al) {
								walk(s2.Val, seen)
							}
						}
						return
					}
					if fa2, ok := x.X.(*ssa.FieldAddr); ok {
						if _, f := fieldOfAddr(fa2); f == "source" || f == "Source" {
							return
						}
					}
					bad = v.String()
				case *ssa.Slice:
					// a tag's inside handed to the expression tokenizer is a slice of the source
					walk(x.X, seen)
				default:
					bad = v.Name() + " = " + v.String()
				}
			}
			walk(st.Val, map[ssa.Value]bool{})
			construct := "the scanner's source is the text it was given"
			if bad == "" {
				r.ok("R04.10", ssaName(fn), construct, w.posOf(in.Pos()), "parameter, saved value or source field on every edge", true)
			} else {
				r.bad("R04.10", ssaName(fn), construct, w.posOf(in.Pos()), "the text stored for scanning is computed ("+bad+") instead of being the text handed in: bytes of the template (line endings, a byte-order mark, trailing blanks) are changed before they can become literal text, so they do not appear in the output as written")
			}
		})
	}
	r.floor("stores into the tokenizer's source", n, 2)
}

// checkRenderReturnsBufferText — R04.9: the string a top-level Render returns is the rendered
// bytes.  In every method named Render that returns (string, error), each string result is the
// result of a String() call on the output buffer (or the empty string beside an error) — nothing
// is applied to it afterwards.
func checkRenderReturnsBufferText(w *World, r *Report) {
	n := 0
	for _, fn := range w.pkgFuncs() {
		if fn.Name() != "Render" || fn.Signature.Recv() == nil || fn.Synthetic != "" || fn.Signature.Results().Len() != 2 {
			continue
		}
		if b, ok := fn.Signature.Results().At(0).Type().Underlying().(*types.Basic); !ok || b.Kind() != types.String {
			continue
		}
		n++
		bad := ""
		var walk func(v ssa.Value, seen map[ssa.Value]bool)
		walk = func(v ssa.Value, seen map[ssa.Value]bool) {
			if seen[v] || bad != "" {
				return
			}
			seen[v] = true
			switch x := v.(type) {
			case *ssa.Const:
			case *ssa.Phi:
				for _, e := range x.Edges {
					walk(e, seen)
				}
			case *ssa.UnOp:
				if al, ok := x.X.(*ssa.Alloc); ok && x.Op == token.MUL && al.Referrers() != nil {
					for _, ref := range *al.Referrers() {
						if s2, ok := ref.(*ssa.Store); ok && s2.Addr == ssa.Value(al) {
							walk(s2.Val, seen)
						}
					}
					return
				}
				bad = v.String()
			case *ssa.Extract:
				walk(x.Tuple, seen)
			case *ssa.Call:
				g := x.Call.StaticCallee()
				switch {
				case g != nil && g.Name() == "String" && len(x.Call.Args) == 1:
					// buf.String()
				case g != nil && isTwigFn(g) && g.Name() == "Render":
					// delegation to another top-level Render (Engine.Render → Template.Render)
				case g != nil && isTwigFn(g) && g.Signature.Results().Len() == 2 && strings.Contains(g.Name(), "Render"):
				default:
					bad = "the result of " + x.Call.String()
				}
			default:
				bad = v.String()
			}
		}
		instrsOf(fn, func(in ssa.Instruction) {
			if ret, ok := in.(*ssa.Return); ok {
				walk(retResults(ret)[0], map[ssa.Value]bool{})
			}
		})
		construct := "the returned string is the output buffer's text"
		if bad == "" {
			r.ok("R04.9", ssaName(fn), construct, w.posOf(fn.Pos()), "String() of the buffer, a delegated Render, or the empty string", true)
		} else {
			r.bad("R04.9", ssaName(fn), construct, w.posOf(fn.Pos()), "the method returns "+bad+" rather than the text of the buffer the template was rendered into: bytes of literal text that the transformation does not like (invalid UTF-8, control characters) come out changed, while RenderTo writes them as they are")
		}
	}
	r.floor("top-level Render methods returning a string", n, 1)
}

// checkScannerContextRestored — R04.11: a scan of a tag's inside gives the tokenizer back as it
// found it.  A function that switches the tokenizer's source to a piece of text of its own
// (stores a parameter into ZeroAllocTokenizer.source after having saved the old value) stores the
// source again on every path to every return: an early return from the middle of the expression
// scan leaves the tokenizer looking at the tag's inside, and every byte of literal text after the
// tag is lost.
func checkScannerContextRestored(w *World, r *Report) {
	n := 0
	for _, fn := range w.pkgFuncs() {
		var switches []*ssa.Store
		isSrcStore := func(in ssa.Instruction) (*ssa.Store, bool) {
			st, ok := in.(*ssa.Store)
			if !ok {
				return nil, false
			}
			fa, ok := st.Addr.(*ssa.FieldAddr)
			if !ok {
				return nil, false
			}
			if t, f := fieldOfAddr(fa); t != "ZeroAllocTokenizer" || f != "source" {
				return nil, false
			}
			return st, true
		}
		instrsOf(fn, func(in ssa.Instruction) {
			if st, ok := isSrcStore(in); ok {
				if _, isP := unspill(st.Val).(*ssa.Parameter); isP {
					// only switching functions: they also read the old source (save it)
					switches = append(switches, st)
				}
			}
		})
		if len(switches) == 0 {
			continue
		}
		// does the function save the old source? (a load of .source — here or in a helper it
		// calls — before the switch)
		saves := false
		before := func(in ssa.Instruction) bool {
			for _, sw := range switches {
				if in.Block() == sw.Block() && instrIndex(in) < instrIndex(sw) || in.Block() != sw.Block() && in.Block().Dominates(sw.Block()) {
					return true
				}
			}
			return false
		}
		loadsSource := func(g *ssa.Function) bool {
			found := false
			instrsOf(g, func(x ssa.Instruction) {
				if u, ok := x.(*ssa.UnOp); ok {
					if _, ok := fieldLoad(u, "ZeroAllocTokenizer", "source"); ok {
						found = true
					}
				}
			})
			return found
		}
		instrsOf(fn, func(in ssa.Instruction) {
			if u, ok := in.(*ssa.UnOp); ok {
				if _, ok := fieldLoad(u, "ZeroAllocTokenizer", "source"); ok && before(in) {
					saves = true
				}
			}
			if c, ok := in.(*ssa.Call); ok && before(in) {
				if g := c.Call.StaticCallee(); g != nil && isTwigFn(g) && len(g.Blocks) > 0 && g.Signature.Results().Len() > 0 && loadsSource(g) {
					saves = true
				}
			}
		})
		if !saves {
			continue // a constructor / reset (GetTokenizer): nothing to give back
		}
		for _, sw := range switches {
			n++
			bad := ""
			instrsOf(fn, func(in ssa.Instruction) {
				if _, ok := in.(*ssa.Return); !ok || bad != "" {
					return
				}
				restored := func(x ssa.Instruction) bool {
					if st, ok := isSrcStore(x); ok {
						return st != sw
					}
					// a restoring helper: stores the source on every path to its returns
					if c, ok := x.(ssa.CallInstruction); ok {
						if _, isDefer := x.(*ssa.Defer); isDefer {
							return false
						}
						if g := c.Common().StaticCallee(); g != nil && isTwigFn(g) && len(g.Blocks) > 0 && g != fn {
							all, nret := true, 0
							instrsOf(g, func(y ssa.Instruction) {
								if _, isRet := y.(*ssa.Return); isRet {
									nret++
									if f, _ := existsPathAvoiding(g, y, func(z ssa.Instruction) bool { _, ok := isSrcStore(z); return ok }, nil); f {
										all = false
									}
								}
							})
							return all && nret > 0
						}
					}
					return false
				}
				found, path := existsPathFromAvoiding(fn, sw, in, restored, nil)
				if found {
					bad = w.posOf(in.Pos()) + " (path " + strings.Join(path, " → ") + ")"
				}
			})
			construct := "the tokenizer's source is restored before every return"
			if bad == "" {
				r.ok("R04.11", ssaName(fn), construct, w.posOf(sw.Pos()), "every path from the switch to a return stores the source again", true)
			} else {
				r.bad("R04.11", ssaName(fn), construct, w.posOf(sw.Pos()), "the function returns at "+bad+" with the tokenizer still looking at the piece of text it was handed: the scan of the template goes on inside that text, and the literal text that follows the tag is never emitted")
			}
		}
	}
	r.floor("switches of the tokenizer's source", n, 1)
}

// checkLoadersReturnFileBytes — R04.12: a loader hands on what the file contains.  In every Load
// method of a loader that reads files, the source returned is — on every edge, through helpers —
// the string conversion of the bytes read (os.ReadFile, io.ReadAll, a Read into a buffer): no
// trimming, no prefix stripping (byte order mark), no replacement (line endings).  Those bytes lie
// outside every delimiter; they are literal text and belong in the output exactly once — and a
// template registered from a string keeps them, so the same source would render differently
// depending on how it reached the engine.
func checkLoadersReturnFileBytes(w *World, r *Report) {
	iface, _ := w.lookup("Loader").Type().Underlying().(*types.Interface)
	n := 0
	for _, fn := range w.pkgFuncs() {
		if fn.Name() != "Load" || fn.Signature.Recv() == nil || fn.Synthetic != "" || iface == nil {
			continue
		}
		rt := fn.Signature.Recv().Type()
		if !types.Implements(rt, iface) && !types.Implements(types.NewPointer(deref(rt)), iface) {
			continue
		}
		// reads files (itself or through a helper one level down)
		readsFile := func(g *ssa.Function) bool {
			found := false
			instrsOf(g, func(in ssa.Instruction) {
				if c, ok := in.(ssa.CallInstruction); ok {
					if h := calleeFunc(c); h != nil && h.Pkg() != nil && h.Pkg().Path() == "os" && (h.Name() == "ReadFile" || h.Name() == "Open" || h.Name() == "OpenFile") {
						found = true
					}
				}
			})
			return found
		}
		direct := readsFile(fn)
		if !direct {
			instrsOf(fn, func(in ssa.Instruction) {
				if c, ok := in.(ssa.CallInstruction); ok {
					if h := c.Common().StaticCallee(); h != nil && isTwigFn(h) && len(h.Blocks) > 0 && readsFile(h) {
						direct = true
					}
				}
			})
		}
		if !direct {
			continue
		}
		bad := ""
		seen := map[ssa.Value]bool{}
		var walk func(v ssa.Value, d int)
		walk = func(v ssa.Value, d int) {
			v = unspill(v)
			if v == nil || seen[v] || d > 10 || bad != "" {
				return
			}
			seen[v] = true
			switch x := v.(type) {
			case *ssa.Const:
			case *ssa.Phi:
				for _, e := range x.Edges {
					walk(e, d+1)
				}
			case *ssa.Convert:
				// string(bytes): fine whatever the bytes are (they are what was read)
			case *ssa.Extract:
				if c, ok := x.Tuple.(*ssa.Call); ok {
					if h := c.Call.StaticCallee(); h != nil && isTwigFn(h) && len(h.Blocks) > 0 {
						instrsOf(h, func(in ssa.Instruction) {
							if ret, ok := in.(*ssa.Return); ok {
								res := retResults(ret)
								if x.Index < len(res) {
									walk(res[x.Index], d+1)
								}
							}
						})
						return
					}
				}
				bad = "the result of " + x.Tuple.String()
			case *ssa.Call:
				if h := x.Call.StaticCallee(); h != nil {
					if isTwigFn(h) && len(h.Blocks) > 0 && h.Signature.Results().Len() == 1 {
						instrsOf(h, func(in ssa.Instruction) {
							if ret, ok := in.(*ssa.Return); ok {
								walk(retResults(ret)[0], d+1)
							}
						})
						return
					}
					if h.String() == "(*strings.Builder).String" || h.String() == "(*bytes.Buffer).String" {
						return // the accumulated bytes of a read loop
					}
					bad = "the result of " + h.String()
					return
				}
				bad = "the result of a call"
			case *ssa.Slice:
				bad = "a slice of the text read"
			case *ssa.BinOp:
				bad = "a concatenation"
			case *ssa.Parameter, *ssa.UnOp, *ssa.Lookup, *ssa.TypeAssert:
				// a field / table entry (in-memory loaders): not this rule's subject
			}
		}
		instrsOf(fn, func(in ssa.Instruction) {
			ret, ok := in.(*ssa.Return)
			if !ok {
				return
			}
			res := retResults(ret)
			if len(res) == 0 || !isString(res[0].Type()) {
				return
			}
			walk(res[0], 0)
		})
		n++
		construct := "the source returned is the text of the file"
		if bad == "" {
			r.ok("R04.12", ssaName(fn), construct, w.posOf(fn.Pos()), "string(bytes read) on every edge", true)
		} else {
			r.bad("R04.12", ssaName(fn), construct, w.posOf(fn.Pos()), "the loader returns "+bad+" rather than the bytes it read: bytes of the file that lie outside every tag (a byte order mark, trailing blanks, line endings) never reach the output, while the same source registered from a string keeps them")
		}
	}
	r.floor("file-reading Load methods", n, 1)
}

// checkParseGetsTheSource — R04.13 / R14.13: what is parsed is what was loaded or registered.
// The argument of every Parser.Parse call is, on every edge, a parameter, a field (a template's
// or compiled template's source), or the result a loader / decoder returned — never the result
// of a string function applied to it (TrimPrefix of a byte order mark, TrimSpace, ReplaceAll of
// line endings) and never a slice or a concatenation.  Such bytes are literal text; stripping
// them "at offset 0" also makes the reading of a template depend on what precedes them.
func checkParseGetsTheSource(w *World, r *Report, rule string) {
	parse := w.method("Parser", "Parse")
	n := 0
	for _, fn := range w.pkgFuncs() {
		instrsOf(fn, func(in ssa.Instruction) {
			c, ok := in.(ssa.CallInstruction)
			if !ok || calleeFunc(c) != parse {
				return
			}
			args := callArgs(c)
			if len(args) != 1 {
				return
			}
			n++
			bad := ""
			seen := map[ssa.Value]bool{}
			var walk func(v ssa.Value, d int)
			walk = func(v ssa.Value, d int) {
				v = unspill(v)
				if v == nil || seen[v] || d > 10 || bad != "" {
					return
				}
				seen[v] = true
				switch x := v.(type) {
				case *ssa.Phi:
					for _, e := range x.Edges {
						walk(e, d+1)
					}
				case *ssa.Slice:
					bad = "a slice of the source"
				case *ssa.BinOp:
					bad = "a concatenation"
				case *ssa.Call:
					if g := x.Call.StaticCallee(); g != nil && g.Pkg != nil {
						switch g.Pkg.Pkg.Path() {
						case "strings", "bytes", "unicode/utf8", "regexp":
							bad = "the result of " + g.String()
						}
					}
				}
			}
			walk(args[0], 0)
			construct := "the text handed to Parse is the source as loaded / registered"
			if bad == "" {
				r.ok(rule, ssaName(fn), construct, w.posOf(in.Pos()), "parameter, field or a loader's result on every edge", true)
			} else {
				r.bad(rule, ssaName(fn), construct, w.posOf(in.Pos()), "the parser is given "+bad+": bytes of the template that lie outside every tag are changed or dropped before they can become literal text, and a rule that looks at \"the start of the source\" reads the same bytes differently once something is written in front of them")
			}
		})
	}
	r.floor("calls of Parser.Parse", n, 3)
}

// checkWritersWriteEverything — R04.14: an output buffer takes everything it is handed.  In every
// Write([]byte) / WriteString(string) method of a package type, a return with a nil error reports
// the length of the argument — len(p), or a count that can only be that (the result of append-ing
// the whole argument) — never the result of a copy into whatever room there was: io.Writer's
// contract is "n < len(p) ⇒ err != nil", callers (fmt.Fprintf, the node renderers) do not look
// at n, and literal text beyond the room silently disappears from the output.
func checkWritersWriteEverything(w *World, r *Report) {
	n := 0
	for _, fn := range w.pkgFuncs() {
		if fn.Signature.Recv() == nil || fn.Synthetic != "" || (fn.Name() != "Write" && fn.Name() != "WriteString") {
			continue
		}
		if fn.Signature.Params().Len() != 1 || fn.Signature.Results().Len() != 2 || len(fn.Params) != 2 {
			continue
		}
		arg := fn.Params[1]
		instrsOf(fn, func(in ssa.Instruction) {
			ret, ok := in.(*ssa.Return)
			if !ok {
				return
			}
			res := retResults(ret)
			if len(res) != 2 || !isNilConst(res[1]) {
				return
			}
			n++
			bad := ""
			seen := map[ssa.Value]bool{}
			var walk func(v ssa.Value, d int)
			walk = func(v ssa.Value, d int) {
				v = unspill(v)
				if v == nil || seen[v] || d > 6 || bad != "" {
					return
				}
				seen[v] = true
				switch x := v.(type) {
				case *ssa.Phi:
					for _, e := range x.Edges {
						walk(e, d+1)
					}
				case *ssa.Call:
					if b, ok := x.Call.Value.(*ssa.Builtin); ok {
						switch b.Name() {
						case "len":
							if unspill(x.Call.Args[0]) == ssa.Value(arg) {
								return
							}
						case "copy":
							bad = "the count a copy returned"
							return
						}
					}
					// forwarded to another writer: its count
					return
				case *ssa.Extract:
					return
				case *ssa.Const:
					if x.Value != nil && x.Value.Kind() == constant.Int && x.Int64() == 0 {
						return // nothing to write (empty argument paths)
					}
					bad = "the constant " + x.Value.ExactString()
				default:
					bad = v.String()
				}
			}
			walk(res[0], 0)
			construct := "a successful write reports len of its argument"
			if bad == "" {
				r.ok("R04.14", ssaName(fn), construct, w.posOf(ret.Pos()), "len(argument), zero for nothing, or the count of the writer it forwards to", true)
			} else {
				r.bad("R04.14", ssaName(fn), construct, w.posOf(ret.Pos()), "the method returns "+bad+" with a nil error: when less than the whole argument fits, the rest is dropped without anybody being told — literal text beyond that point never reaches the output")
			}
		})
	}
	r.floor("successful returns of Write / WriteString methods", n, 2)
}

// checkStagedOutputDelivered — R04.15: output collected in a buffer reaches the writer.  A function
// that is handed an io.Writer and renders into a buffer of its own instead (to deliver all or
// nothing) passes, on every path to a return that can succeed, a call that involves the writer
// (buf.WriteTo(w), w.Write(buf.Bytes()), io.Copy(w, buf)).  A branch that returns from the middle —
// the debug path — leaves the caller with an empty document and a nil error.
func checkStagedOutputDelivered(w *World, r *Report) {
	n := 0
	isWriter := func(t types.Type) bool { return isNamed(t, "io", "Writer") }
	for _, fn := range w.pkgFuncs() {
		var out *ssa.Parameter
		for _, p := range fn.Params {
			if isWriter(p.Type()) {
				out = p
			}
		}
		if out == nil || errResultIndex(fn.Signature) < 0 {
			continue
		}
		// renders into something that is not its writer?
		var staged ssa.Instruction
		instrsOf(fn, func(in ssa.Instruction) {
			c, ok := in.(ssa.CallInstruction)
			if !ok || staged != nil {
				return
			}
			name := ""
			if c.Common().IsInvoke() {
				name = c.Common().Method.Name()
			} else if g := c.Common().StaticCallee(); g != nil && isTwigFn(g) {
				name = g.Name()
			}
			if !strings.Contains(name, "Render") {
				return
			}
			for _, a := range c.Common().Args {
				if !isWriter(a.Type()) {
					continue
				}
				mi, ok := unspill(a).(*ssa.MakeInterface)
				if !ok {
					continue // the writer parameter itself (or another interface value)
				}
				if _, isParam := unspill(mi.X).(*ssa.Parameter); isParam {
					continue
				}
				staged = in
			}
		})
		if staged == nil {
			continue
		}
		n++
		delivers := func(x ssa.Instruction) bool {
			c, ok := x.(ssa.CallInstruction)
			if !ok {
				return false
			}
			if _, isDefer := x.(*ssa.Defer); isDefer {
				return false
			}
			if x == staged {
				return false
			}
			if c.Common().IsInvoke() && unspill(c.Common().Value) == ssa.Value(out) {
				return true
			}
			for _, a := range c.Common().Args {
				if unspill(a) == ssa.Value(out) {
					return true
				}
			}
			return false
		}
		ei := errResultIndex(fn.Signature)
		bad := ""
		instrsOf(fn, func(in ssa.Instruction) {
			ret, ok := in.(*ssa.Return)
			if !ok || bad != "" {
				return
			}
			res := retResults(ret)
			if ei < len(res) && errorSurelyNonNil(res[ei], ret.Block()) {
				return
			}
			if found, path := existsPathFromAvoiding(fn, staged, in, delivers, nil); found {
				bad = w.posOf(ret.Pos()) + " (path " + strings.Join(path, " → ") + ")"
			}
		})
		construct := "output staged in a buffer is handed to the writer before a successful return"
		if bad == "" {
			r.ok("R04.15", ssaName(fn), construct, w.posOf(staged.Pos()), "every successful return follows a call that involves the writer", true)
		} else {
			r.bad("R04.15", ssaName(fn), construct, w.posOf(staged.Pos()), "the function can return without an error at "+bad+" although what it rendered is still in its own buffer: the caller's writer receives nothing — every byte of the template is missing from the output")
		}
	}
	r.Counts["functions staging output in a buffer of their own"] = n
}

// yieldsNodes: can a call of f hand its caller a parsed node?  True when a result is a Node, a
// slice or map of Nodes, or a node struct; position predicates and token helpers (bool, int,
// string, Token, error results) cannot.
func yieldsNodes(w *World, f *types.Func) bool {
	sig, ok := f.Type().(*types.Signature)
	if !ok {
		return true
	}
	var nodeish func(t types.Type, d int) bool
	nodeish = func(t types.Type, d int) bool {
		if d > 3 {
			return true
		}
		if isNamed(t, twigPath, "Node") {
			return true
		}
		if n, ok := deref(t).(*types.Named); ok && n.Obj().Pkg() != nil && n.Obj().Pkg().Path() == twigPath && w.isNodeStruct(n.Obj().Name()) {
			return true
		}
		switch u := t.Underlying().(type) {
		case *types.Slice:
			return nodeish(u.Elem(), d+1)
		case *types.Map:
			return nodeish(u.Elem(), d+1)
		case *types.Interface:
			return u.NumMethods() == 0 // interface{} may carry anything
		}
		return false
	}
	for i := 0; i < sig.Results().Len(); i++ {
		if nodeish(sig.Results().At(i).Type(), 0) {
			return true
		}
	}
	return false
}

// checkTextNodesKeepTheirText — R04.16: literal text is stored as it was cut out of the source.  In
// every function that makes a TextNode from a string it is handed, the string that ends up in the
// node's content (stored directly, or handed to another such function) is that parameter itself
// on every path — no decoder, trimmer or replacer stands between the tokenizer's text and the
// node.  (Whitespace control acts on tokens, before nodes are made.)
func checkTextNodesKeepTheirText(w *World, r *Report) {
	makers := map[*ssa.Function]bool{}
	for _, fn := range w.pkgFuncs() {
		if fn.Signature.Results().Len() != 1 || !isNamed(fn.Signature.Results().At(0).Type(), twigPath, "TextNode") {
			continue
		}
		for _, p := range fn.Params {
			if b, ok := p.Type().Underlying().(*types.Basic); ok && b.Kind() == types.String {
				makers[fn] = true
			}
		}
	}
	asGiven := func(v ssa.Value) bool {
		ok := true
		seen := map[ssa.Value]bool{}
		var walk func(v ssa.Value, d int)
		walk = func(v ssa.Value, d int) {
			v = unspill(v)
			if v == nil || seen[v] || d > 6 {
				return
			}
			seen[v] = true
			switch x := v.(type) {
			case *ssa.Parameter, *ssa.Const:
			case *ssa.Phi:
				for _, e := range x.Edges {
					walk(e, d+1)
				}
			default:
				ok = false
			}
		}
		walk(v, 0)
		return ok
	}
	n := 0
	var fns []*ssa.Function
	for fn := range makers {
		fns = append(fns, fn)
	}
	sort.Slice(fns, func(i, j int) bool { return fns[i].Name() < fns[j].Name() })
	for _, fn := range fns {
		instrsOf(fn, func(in ssa.Instruction) {
			var val ssa.Value
			switch x := in.(type) {
			case *ssa.Store:
				if _, ok := fieldAddr(x.Addr, "TextNode", "content"); ok {
					val = x.Val
				}
			case *ssa.Call:
				if g := x.Call.StaticCallee(); g != nil && makers[g] {
					for _, a := range x.Call.Args {
						if b, ok := a.Type().Underlying().(*types.Basic); ok && b.Kind() == types.String {
							val = a
						}
					}
				}
			}
			if val == nil {
				return
			}
			n++
			construct := "text handed to a TextNode is the text received"
			if asGiven(val) {
				r.ok("R04.16", ssaName(fn), construct, w.posOf(in.Pos()), "the parameter itself on every path", false)
			} else {
				r.bad("R04.16", ssaName(fn), construct, w.posOf(in.Pos()), "the text put into the node is computed from the text received ("+describe(unspill(val))+"): literal text between tags is rewritten on its way into the tree, so some character sequences of the source do not come out as written")
			}
		})
	}
	r.floor("texts stored by TextNode makers", n, 2)
}
