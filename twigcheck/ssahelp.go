package main

// Small SSA helpers shared by the rules: boolean must-dataflow with edge refinement,
// condition peeling, value identity, field access recognition.

import (
	"fmt"
	"go/constant"
	"go/token"
	"go/types"
	"sort"
	"strings"

	"golang.org/x/tools/go/callgraph"
	"golang.org/x/tools/go/ssa"
)

// boolFlow is a forward *must* analysis with a single boolean fact.  The fact holds at the
// entry of a block iff it holds on every incoming edge; an edge carries the fact when it
// held at the end of the predecessor or the edge itself establishes it (edge refinement on
// the branch condition).  Greatest fixed point (optimistic initialisation), so loops do
// not lose facts established before them.
type boolFlow struct {
	fn    *ssa.Function
	entry bool
	// transfer: given the state before instr, return the state after it
	step func(in ssa.Instruction, st bool) bool
	// edge: does the edge from block b to b.Succs[i] establish the fact?
	edge func(b *ssa.BasicBlock, i int) bool
	// kill edge: does the edge destroy the fact? (optional)
	in map[*ssa.BasicBlock]bool
}

func (f *boolFlow) out(b *ssa.BasicBlock, st bool) bool {
	if f.step == nil {
		return st
	}
	for _, in := range b.Instrs {
		st = f.step(in, st)
	}
	return st
}

func (f *boolFlow) solve() {
	f.in = map[*ssa.BasicBlock]bool{}
	reach := reachableBlocks(f.fn)
	for _, b := range f.fn.Blocks {
		f.in[b] = true
	}
	if len(f.fn.Blocks) == 0 {
		return
	}
	f.in[f.fn.Blocks[0]] = f.entry
	for changed := true; changed; {
		changed = false
		for _, b := range f.fn.Blocks {
			if !reach[b] || b == f.fn.Blocks[0] {
				continue
			}
			st := true
			for _, p := range b.Preds {
				if !reach[p] {
					continue
				}
				o := f.out(p, f.in[p])
				// find the successor index (a block may be both successors of p)
				e := false
				all := true
				for i, s := range p.Succs {
					if s == b {
						if f.edge != nil && f.edge(p, i) {
							e = true
						} else {
							all = false
						}
					}
				}
				_ = e
				if !(o || all) {
					// `if a && b` evaluated as a value: the true edge was reached through the block
					// that computed the last conjunct; what held there holds here
					via := shortCircuitPredsFor(p, b)
					held := len(via) > 0
					for _, q := range via {
						if !reach[q] || !f.out(q, f.in[q]) {
							held = false
						}
					}
					if !held {
						st = false
					}
				}
			}
			if st != f.in[b] {
				f.in[b] = st
				changed = true
			}
		}
	}
}

// at returns the state immediately before instr.
func (f *boolFlow) at(instr ssa.Instruction) bool {
	b := instr.Block()
	st := f.in[b]
	if f.step == nil {
		return st
	}
	for _, in := range b.Instrs {
		if in == instr {
			return st
		}
		st = f.step(in, st)
	}
	return st
}

func reachableBlocks(fn *ssa.Function) map[*ssa.BasicBlock]bool {
	seen := map[*ssa.BasicBlock]bool{}
	if len(fn.Blocks) == 0 {
		return seen
	}
	var visit func(b *ssa.BasicBlock)
	visit = func(b *ssa.BasicBlock) {
		if seen[b] {
			return
		}
		seen[b] = true
		for _, s := range b.Succs {
			visit(s)
		}
	}
	visit(fn.Blocks[0])
	return seen
}

// ifCond returns the condition of the If that terminates b, with leading negations peeled:
// the branch taken when the returned value is true is b.Succs[trueIdx].
func ifCond(b *ssa.BasicBlock) (v ssa.Value, trueIdx int, ok bool) {
	if len(b.Instrs) == 0 {
		return nil, 0, false
	}
	i, isIf := b.Instrs[len(b.Instrs)-1].(*ssa.If)
	if !isIf {
		return nil, 0, false
	}
	v = i.Cond
	trueIdx = 0
	for {
		if u, ok := v.(*ssa.UnOp); ok && u.Op == token.NOT {
			v = u.X
			trueIdx = 1 - trueIdx
			continue
		}
		break
	}
	return v, trueIdx, true
}

// fieldLoad recognises `*(&x.f)`: a load of field f (by name) of a struct type named typ.
func fieldLoad(v ssa.Value, typ, field string) (base ssa.Value, ok bool) {
	u, isU := v.(*ssa.UnOp)
	if !isU || u.Op != token.MUL {
		return nil, false
	}
	return fieldAddr(u.X, typ, field)
}

func fieldAddr(v ssa.Value, typ, field string) (base ssa.Value, ok bool) {
	fa, isFA := v.(*ssa.FieldAddr)
	if !isFA {
		return nil, false
	}
	st, isSt := deref(fa.X.Type()).Underlying().(*types.Struct)
	if !isSt || fa.Field >= st.NumFields() || st.Field(fa.Field).Name() != field {
		return nil, false
	}
	if typ != "" && !isNamed(fa.X.Type(), twigPath, typ) {
		return nil, false
	}
	return fa.X, true
}

// fieldOfAddr returns the struct type name and field name addressed by a FieldAddr.
func fieldOfAddr(fa *ssa.FieldAddr) (typ string, field string) {
	t := deref(fa.X.Type())
	st, ok := t.Underlying().(*types.Struct)
	if !ok || fa.Field >= st.NumFields() {
		return "", ""
	}
	if n, ok := t.(*types.Named); ok {
		typ = n.Obj().Name()
	}
	return typ, st.Field(fa.Field).Name()
}

// sameValue: identical SSA values, or two loads of the same field of the same base
// (go/ssa performs no common-subexpression elimination, so `n.name` read twice gives two
// values; twig never reassigns such fields between a check and a use).
func sameValue(a, b ssa.Value) bool {
	if a == b {
		return true
	}
	// len(x) / cap(x) of the same value
	if ca, ok := a.(*ssa.Call); ok {
		if cb, ok := b.(*ssa.Call); ok {
			ba, ok1 := ca.Call.Value.(*ssa.Builtin)
			bb, ok2 := cb.Call.Value.(*ssa.Builtin)
			if ok1 && ok2 && ba.Name() == bb.Name() && (ba.Name() == "len" || ba.Name() == "cap") && len(ca.Call.Args) == 1 && len(cb.Call.Args) == 1 {
				return sameValue(ca.Call.Args[0], cb.Call.Args[0])
			}
		}
	}
	ua, ok1 := a.(*ssa.UnOp)
	ub, ok2 := b.(*ssa.UnOp)
	if ok1 && ok2 && ua.Op == token.MUL && ub.Op == token.MUL {
		// two loads of one address-taken local that is stored exactly once (a parameter
		// spilled because a closure captures it)
		if al, ok := ua.X.(*ssa.Alloc); ok && ub.X == al && singleStore(al) != nil {
			return true
		}
		fa, ok1 := ua.X.(*ssa.FieldAddr)
		fb, ok2 := ub.X.(*ssa.FieldAddr)
		if ok1 && ok2 && fa.Field == fb.Field && types.Identical(fa.X.Type(), fb.X.Type()) {
			return sameValue(fa.X, fb.X)
		}
	}
	return false
}

// unspill: if v is a load of a local that is stored exactly once, return the stored value.
func unspill(v ssa.Value) ssa.Value {
	if u, ok := v.(*ssa.UnOp); ok && u.Op == token.MUL {
		if al, ok := u.X.(*ssa.Alloc); ok {
			if st := singleStore(al); st != nil {
				return st.Val
			}
		}
		// a field of a local record (t.value where t is built and adjusted field by field): the
		// value of the one store that reaches this load on every path
		if fa, ok := u.X.(*ssa.FieldAddr); ok {
			if al, ok := fa.X.(*ssa.Alloc); ok {
				if val := reachingFieldStore(u, al, fa.Field); val != nil {
					return val
				}
			}
		}
	}
	return v
}

var reachingMemo = map[*ssa.UnOp]ssa.Value{}
var reachingDone = map[*ssa.UnOp]bool{}

// reachingFieldStore: load reads field `field` of the local struct al.  If the local does not
// escape (it is only accessed field-wise, loaded as a whole or stored as a whole) and on every
// path from the function entry to the load the last store into that field is one and the same
// Store instruction, its value is returned; otherwise nil.
func reachingFieldStore(load *ssa.UnOp, al *ssa.Alloc, field int) ssa.Value {
	if reachingDone[load] {
		return reachingMemo[load]
	}
	reachingDone[load] = true
	if al.Referrers() == nil {
		return nil
	}
	if _, isStruct := deref(al.Type()).Underlying().(*types.Struct); !isStruct {
		return nil
	}
	// stores into the cell; anything that lets the address escape makes the content unknown
	stores := map[ssa.Instruction]ssa.Value{}
	for _, ref := range *al.Referrers() {
		switch x := ref.(type) {
		case *ssa.UnOp, *ssa.DebugRef:
		case *ssa.Store:
			if x.Addr != ssa.Value(al) {
				return nil // the address is stored somewhere
			}
			stores[x] = nil // whole-struct assignment: content unknown from here on
		case *ssa.FieldAddr:
			if x.Referrers() == nil {
				continue
			}
			for _, r2 := range *x.Referrers() {
				switch y := r2.(type) {
				case *ssa.Store:
					if y.Addr != ssa.Value(x) {
						return nil
					}
					if x.Field == field {
						stores[y] = y.Val
					}
				case *ssa.UnOp, *ssa.DebugRef:
				default:
					if x.Field == field {
						return nil // &t.f handed on, nested access
					}
				}
			}
		default:
			return nil // &t passed to a call, captured by a closure …
		}
	}
	if len(stores) == 0 {
		return nil
	}
	// backward search for the last store on every path
	var found ssa.Instruction
	failed := false
	seen := map[*ssa.BasicBlock]bool{}
	var scan func(b *ssa.BasicBlock, from int)
	scan = func(b *ssa.BasicBlock, from int) {
		if failed {
			return
		}
		for i := from; i >= 0; i-- {
			in := b.Instrs[i]
			if _, isStore := stores[in]; isStore {
				if found != nil && found != in {
					failed = true
				}
				found = in
				return
			}
		}
		if len(b.Preds) == 0 {
			failed = true // the zero value reaches the load
			return
		}
		for _, p := range b.Preds {
			if seen[p] {
				continue
			}
			seen[p] = true
			scan(p, len(p.Instrs)-1)
		}
	}
	idx := -1
	for i, in := range load.Block().Instrs {
		if in == ssa.Instruction(load) {
			idx = i
		}
	}
	scan(load.Block(), idx-1)
	if failed || found == nil || stores[found] == nil {
		return nil
	}
	reachingMemo[load] = stores[found]
	return stores[found]
}

// singleStore returns the only Store into the alloc (nil if there are none or several, or
// if the address escapes other than into closures).
func singleStore(al *ssa.Alloc) *ssa.Store {
	var st *ssa.Store
	if al.Referrers() == nil {
		return nil
	}
	for _, r := range *al.Referrers() {
		switch x := r.(type) {
		case *ssa.Store:
			if x.Addr != al || st != nil {
				return nil
			}
			st = x
		case *ssa.UnOp, *ssa.DebugRef:
		case *ssa.MakeClosure:
			// captured by reference: the closure could assign it; check no store in closures
			if fn, ok := x.Fn.(*ssa.Function); ok {
				for i, b := range x.Bindings {
					if b == al && i < len(fn.FreeVars) {
						if fv := fn.FreeVars[i]; fv.Referrers() != nil {
							for _, fr := range *fv.Referrers() {
								if s, ok := fr.(*ssa.Store); ok && s.Addr == fv {
									return nil
								}
							}
						}
					}
				}
			}
		default:
			return nil
		}
	}
	return st
}

func isConstBool(v ssa.Value, want bool) bool {
	c, ok := v.(*ssa.Const)
	if !ok || c.Value == nil || c.Value.Kind() != constant.Bool {
		return false
	}
	return constant.BoolVal(c.Value) == want
}

func isNilConst(v ssa.Value) bool {
	c, ok := v.(*ssa.Const)
	return ok && c.Value == nil
}

func constString(v ssa.Value) (string, bool) {
	c, ok := v.(*ssa.Const)
	if !ok || c.Value == nil || c.Value.Kind() != constant.String {
		return "", false
	}
	return constant.StringVal(c.Value), true
}

// staticCallee returns the types.Func called by a call instruction (nil for dynamic calls;
// for interface invokes it returns the interface method).
func calleeFunc(c ssa.CallInstruction) *types.Func {
	cc := c.Common()
	if cc.IsInvoke() {
		return cc.Method
	}
	if f := cc.StaticCallee(); f != nil {
		if o, ok := f.Object().(*types.Func); ok {
			return o
		}
	}
	return nil
}

// callArgs returns the user-level arguments of a call (receiver excluded for static method
// calls, where go/ssa passes it as Args[0]).
func callArgs(c ssa.CallInstruction) []ssa.Value {
	cc := c.Common()
	if cc.IsInvoke() {
		return cc.Args
	}
	if f := cc.StaticCallee(); f != nil && f.Signature.Recv() != nil && len(cc.Args) > 0 {
		return cc.Args[1:]
	}
	return cc.Args
}

func callRecv(c ssa.CallInstruction) ssa.Value {
	cc := c.Common()
	if cc.IsInvoke() {
		return cc.Value
	}
	if f := cc.StaticCallee(); f != nil && f.Signature.Recv() != nil && len(cc.Args) > 0 {
		return cc.Args[0]
	}
	return nil
}

// instrsOf iterates over all instructions of a function in block order.
func instrsOf(fn *ssa.Function, f func(in ssa.Instruction)) {
	for _, b := range fn.Blocks {
		if b == fn.Recover {
			continue // synthetic block that returns the named results after a recovered panic
		}
		for _, in := range b.Instrs {
			f(in)
		}
	}
}

// globalName returns the name of the package-level variable a value loads from or addresses.
func globalOf(v ssa.Value) *ssa.Global {
	switch x := v.(type) {
	case *ssa.Global:
		return x
	case *ssa.UnOp:
		if x.Op == token.MUL {
			return globalOf(x.X)
		}
	case *ssa.FieldAddr:
		return globalOf(x.X)
	}
	return nil
}

// existsPathAvoiding reports whether a feasible path exists from the function entry to the
// instruction `target` that executes no instruction for which gen is true and crosses no edge
// for which edgeGen is true.  Feasibility is decided only for nil-tests and boolean tests of
// SSA values that are tested more than once: such a value is immutable, so two tests of it
// must be taken consistently (this is what makes `if err == nil { f() } … if err != nil {
// return }` recognisable as "f() always ran on the surviving path").  The returned slice
// describes the offending path (block comments) for the report.
func existsPathAvoiding(fn *ssa.Function, target ssa.Instruction, gen func(ssa.Instruction) bool, edgeGen func(b *ssa.BasicBlock, i int) bool) (bool, []string) {
	return existsPathFromAvoiding(fn, nil, target, gen, edgeGen)
}

// existsPathFromAvoiding is existsPathAvoiding for paths that pass through the instruction
// `from` first (nil: the function entry): only what happens after the last execution of `from`
// counts (gen instructions and gen edges met before it are forgotten, and the target only counts
// once `from` was executed), while the assumptions about repeatedly tested values are collected
// from the function entry on.
func existsPathFromAvoiding(fn *ssa.Function, from, target ssa.Instruction, gen func(ssa.Instruction) bool, edgeGen func(b *ssa.BasicBlock, i int) bool) (bool, []string) {
	return existsPathAssuming(fn, from, target, gen, edgeGen, nil)
}

// existsPathAssuming is existsPathFromAvoiding for paths on which, in addition, every value in
// assumeNil is nil / false / zero wherever it is tested (used to ask "can this return be reached
// without passing X when the error it returns is nil?").
func existsPathAssuming(fn *ssa.Function, from, target ssa.Instruction, gen func(ssa.Instruction) bool, edgeGen func(b *ssa.BasicBlock, i int) bool, assumeNil []ssa.Value) (bool, []string) {
	if len(fn.Blocks) == 0 {
		return false, nil
	}
	// condition normalisation: value tested (against nil, a constant, or as a bool), and which
	// successor index means "value equals that constant / is false".  Two loads of the same
	// field of the same object count as the same value (sameValue).
	type test struct {
		v       int // id of the (value, constant) pair tested
		zeroIdx int
	}
	tests := map[*ssa.BasicBlock]test{}
	count := map[int]int{}
	type repKey struct {
		v ssa.Value
		c string
	}
	var reps []repKey
	// one id per (value, constant) pair: `c == '"'` and `c == '#'` are different tests of c
	canon := func(v ssa.Value, c string) int {
		for i, r := range reps {
			if r.c == c && sameValue(r.v, v) {
				return i
			}
		}
		reps = append(reps, repKey{v, c})
		return len(reps) - 1
	}
	for _, b := range fn.Blocks {
		v, trueIdx, ok := ifCond(b)
		if !ok {
			continue
		}
		if bo, ok := v.(*ssa.BinOp); ok && (bo.Op == token.EQL || bo.Op == token.NEQ) {
			x, y := bo.X, bo.Y
			if _, isC := x.(*ssa.Const); isC {
				x, y = y, x
			}
			if c, isC := y.(*ssa.Const); isC {
				ck := "nil"
				if c.Value != nil {
					ck = c.Value.ExactString()
				}
				zi := trueIdx
				if bo.Op == token.NEQ {
					zi = 1 - trueIdx
				}
				rv := canon(x, ck)
				tests[b] = test{rv, zi}
				count[rv]++
				continue
			}
		}
		if types.Identical(v.Type().Underlying(), types.Typ[types.Bool]) {
			rv := canon(v, "bool")
			tests[b] = test{rv, 1 - trueIdx}
			count[rv]++
		}
	}
	type key struct {
		b      *ssa.BasicBlock
		sig    string
		passed bool
	}
	failed := map[key]bool{}
	var path []string
	sigOf := func(as map[int]bool) string {
		var ks []string
		for v, z := range as {
			ks = append(ks, fmt.Sprintf("%d=%v", v, z))
		}
		sort.Strings(ks)
		return strings.Join(ks, ",")
	}
	// constPhiSucc: b ends in `if phi` (possibly negated) with the phi defined in b and the edge
	// from prev carrying a constant: go/ssa builds && / || used as values (the cases of a tagless
	// switch) this way; which successor is taken is then decided by where control came from.
	constPhiSucc := func(b, prev *ssa.BasicBlock) int {
		if prev == nil || len(b.Instrs) == 0 {
			return -1
		}
		ifi, ok := b.Instrs[len(b.Instrs)-1].(*ssa.If)
		if !ok {
			return -1
		}
		v, neg := ifi.Cond, false
		for {
			if u, ok := v.(*ssa.UnOp); ok && u.Op == token.NOT {
				v, neg = u.X, !neg
				continue
			}
			break
		}
		ph, ok := v.(*ssa.Phi)
		if !ok || ph.Block() != b {
			return -1
		}
		for k, p := range b.Preds {
			if p != prev || k >= len(ph.Edges) {
				continue
			}
			if c, ok := ph.Edges[k].(*ssa.Const); ok && c.Value != nil && c.Value.Kind() == constant.Bool {
				if constant.BoolVal(c.Value) != neg {
					return 0
				}
				return 1
			}
		}
		return -1
	}
	type pkey struct {
		k    key
		prev *ssa.BasicBlock
	}
	failedP := map[pkey]bool{}
	var dfs func(b, prev *ssa.BasicBlock, as map[int]bool, passed bool) bool
	dfs = func(b, prev *ssa.BasicBlock, as map[int]bool, passed bool) bool {
		k := key{b, sigOf(as), passed}
		forced := constPhiSucc(b, prev)
		if forced >= 0 {
			if failedP[pkey{k, prev}] {
				return false
			}
			failedP[pkey{k, prev}] = true
		} else {
			if failed[k] {
				return false
			}
			failed[k] = true // plain graph search over (block, assumptions) states
		}
		for _, in := range b.Instrs {
			if in == target && passed {
				path = append(path, b.String())
				return true
			}
			if in == from {
				passed = true
				continue
			}
			if passed && gen != nil && gen(in) {
				return false
			}
		}
		t, hasTest := tests[b]
		for i, s := range b.Succs {
			if forced >= 0 && i != forced {
				continue // the phi's value on the edge control came in by decides
			}
			if passed && edgeGen != nil && edgeGen(b, i) {
				continue
			}
			as2 := as
			if hasTest && count[t.v] > 1 {
				zero := i == t.zeroIdx
				if prev, ok := as[t.v]; ok {
					if prev != zero {
						continue // infeasible: contradicts an earlier test of the same value
					}
				} else {
					as2 = map[int]bool{}
					for k, v := range as {
						as2[k] = v
					}
					as2[t.v] = zero
				}
			}
			if dfs(s, b, as2, passed) {
				path = append(path, b.String())
				return true
			}
		}
		return false
	}
	initial := map[int]bool{}
	for _, v := range assumeNil {
		for _, ck := range []string{"nil", "bool", "0"} {
			rv := canon(v, ck)
			initial[rv] = true
			count[rv] += 2
		}
	}
	found := dfs(fn.Blocks[0], nil, initial, from == nil)
	// reverse path
	for i, j := 0, len(path)-1; i < j; i, j = i+1, j-1 {
		path[i], path[j] = path[j], path[i]
	}
	return found, path
}

// retResults returns the values a Return instruction returns, undoing go/ssa's rewriting of
// returns in functions with defers (`*res = X; rundefers; t = *res; return t`  ==>  X).
func retResults(ret *ssa.Return) []ssa.Value {
	out := make([]ssa.Value, len(ret.Results))
	for i, r := range ret.Results {
		out[i] = r
		u, ok := r.(*ssa.UnOp)
		if !ok || u.Op != token.MUL {
			continue
		}
		al, ok := u.X.(*ssa.Alloc)
		if !ok {
			continue
		}
		// last store into the result local in this block before the load
		var last ssa.Value
		for _, in := range ret.Block().Instrs {
			if in == ssa.Instruction(u) {
				break
			}
			if st, ok := in.(*ssa.Store); ok && st.Addr == al {
				last = st.Val
			}
		}
		if last != nil {
			out[i] = last
		}
	}
	return out
}

// ---------------------------------------------------------------- short-circuit conditions as values
//
// go/ssa (x/tools v0.29) evaluates the case expressions of a tagless switch — and any && / ||
// used as a value — into a phi tagged "&&" / "||" instead of control flow.  Taking the true edge
// of `if phi(&&)` means every conjunct was true; taking the false edge of `if phi(||)` means
// every disjunct was false.  edgeFacts lists the atomic facts of an edge; anyEdgeFact offers
// them one by one to a rule's edge predicate in the (value, trueIdx) form the predicates were
// written for: i == trueIdx iff the value is true on the edge.

type condFact struct {
	v     ssa.Value
	truth bool
}

func expandCond(v ssa.Value, truth bool, out *[]condFact, depth int) {
	for {
		if u, ok := v.(*ssa.UnOp); ok && u.Op == token.NOT {
			v, truth = u.X, !truth
			continue
		}
		// a flag kept in a local (or in a field of a local record) and tested later
		if u, ok := v.(*ssa.UnOp); ok && u.Op == token.MUL {
			if r := unspill(v); r != v {
				v = r
				continue
			}
		}
		break
	}
	if ph, ok := v.(*ssa.Phi); ok && depth < 6 && ((ph.Comment == "&&" && truth) || (ph.Comment == "||" && !truth)) {
		for _, e := range ph.Edges {
			if c, ok := e.(*ssa.Const); ok && c.Value != nil && c.Value.Kind() == constant.Bool {
				continue
			}
			expandCond(e, truth, out, depth+1)
		}
		return
	}
	*out = append(*out, condFact{v, truth})
}

func edgeFacts(b *ssa.BasicBlock, i int) []condFact {
	if len(b.Instrs) == 0 || i > 1 {
		return nil
	}
	ifi, ok := b.Instrs[len(b.Instrs)-1].(*ssa.If)
	if !ok {
		return nil
	}
	var out []condFact
	expandCond(ifi.Cond, i == 0, &out, 0)
	return out
}

func anyEdgeFact(b *ssa.BasicBlock, i int, f func(v ssa.Value, trueIdx int) bool) bool {
	for _, cf := range edgeFacts(b, i) {
		ti := i
		if !cf.truth {
			ti = 1 - i
		}
		if f(cf.v, ti) {
			return true
		}
	}
	return false
}

// shortCircuitPreds: if b ends in `if phi(&&)` (resp. ||) and edge i is its true (resp. false)
// edge, control reached b through the predecessors that carry the phi's non-constant operands;
// what held at the end of all of those holds on the edge.
func shortCircuitPreds(b *ssa.BasicBlock, i int) []*ssa.BasicBlock {
	if len(b.Instrs) == 0 || i > 1 {
		return nil
	}
	ifi, ok := b.Instrs[len(b.Instrs)-1].(*ssa.If)
	if !ok {
		return nil
	}
	v, truth := ifi.Cond, i == 0
	for {
		if u, ok := v.(*ssa.UnOp); ok && u.Op == token.NOT {
			v, truth = u.X, !truth
			continue
		}
		break
	}
	ph, ok := v.(*ssa.Phi)
	if !ok || ph.Block() != b || !((ph.Comment == "&&" && truth) || (ph.Comment == "||" && !truth)) {
		return nil
	}
	var out []*ssa.BasicBlock
	for k, e := range ph.Edges {
		if c, ok := e.(*ssa.Const); ok && c.Value != nil && c.Value.Kind() == constant.Bool {
			continue
		}
		out = append(out, b.Preds[k])
	}
	return out
}

// shortCircuitPredsFor: shortCircuitPreds for the edge(s) from p to succ (nil unless every such
// edge qualifies).
func shortCircuitPredsFor(p, succ *ssa.BasicBlock) []*ssa.BasicBlock {
	var out []*ssa.BasicBlock
	for i, s := range p.Succs {
		if s != succ {
			continue
		}
		via := shortCircuitPreds(p, i)
		if len(via) == 0 {
			return nil
		}
		out = append(out, via...)
	}
	return out
}

// ---- seeing through "packed" values: fields of local struct literals and parameters of helpers

// localFieldValue: v is a load of field F of a local struct whose content is known: built field
// by field (a composite literal or a `var t T; t.F = x` local whose address does not escape) with
// F stored exactly once in a block that dominates the load, or assigned as a whole exactly once
// from a value whose field is known (the result of a helper that returns such a literal, a
// parameter of a helper with one call site): returns the value of the field.  The result may
// belong to another function.
func localFieldValue(v ssa.Value) (ssa.Value, bool) {
	u, ok := v.(*ssa.UnOp)
	if !ok || u.Op != token.MUL {
		return nil, false
	}
	fa, ok := u.X.(*ssa.FieldAddr)
	if !ok {
		return nil, false
	}
	al, ok := fa.X.(*ssa.Alloc)
	if !ok {
		return nil, false
	}
	return fieldOfLocal(al, fa.Field, u, 0)
}

func fieldOfLocal(al *ssa.Alloc, field int, at ssa.Instruction, depth int) (ssa.Value, bool) {
	if st := localFieldStore(al, field); st != nil {
		if !(st.Block() == at.Block() || st.Block().Dominates(at.Block())) {
			return nil, false
		}
		if st.Block() == at.Block() {
			// the store must come first
			for _, in := range at.Block().Instrs {
				if in == ssa.Instruction(st) {
					break
				}
				if in == at {
					return nil, false
				}
			}
		}
		return st.Val, true
	}
	if whole := wholeStructStore(al); whole != nil && (whole.Block() == at.Block() || whole.Block().Dominates(at.Block())) {
		return fieldOfStructValue(whole.Val, field, depth+1)
	}
	return nil, false
}

// wholeStructStore: the local struct is assigned exactly once, as a whole, and otherwise only
// read (as a whole or field-wise).
func wholeStructStore(al *ssa.Alloc) *ssa.Store {
	if al.Referrers() == nil {
		return nil
	}
	if _, isStruct := deref(al.Type()).Underlying().(*types.Struct); !isStruct {
		return nil
	}
	var st *ssa.Store
	for _, ref := range *al.Referrers() {
		switch x := ref.(type) {
		case *ssa.UnOp, *ssa.DebugRef:
		case *ssa.Store:
			if x.Addr != ssa.Value(al) || st != nil {
				return nil
			}
			st = x
		case *ssa.FieldAddr:
			if x.Referrers() == nil {
				continue
			}
			for _, r2 := range *x.Referrers() {
				switch r2.(type) {
				case *ssa.UnOp, *ssa.DebugRef:
				default:
					return nil
				}
			}
		default:
			return nil
		}
	}
	return st
}

// fieldOfStructValue: the value of field `field` of the struct value sv — a load of a local
// with known content, the result of a package helper all of whose returns agree on the field (a
// single return of a literal, typically), or a struct parameter of a helper with one call site.
func fieldOfStructValue(sv ssa.Value, field int, depth int) (ssa.Value, bool) {
	if depth > 4 {
		return nil, false
	}
	switch x := sv.(type) {
	case *ssa.UnOp:
		if x.Op != token.MUL {
			return nil, false
		}
		if al, ok := x.X.(*ssa.Alloc); ok {
			return fieldOfLocal(al, field, x, depth)
		}
	case *ssa.Call:
		g := x.Call.StaticCallee()
		if g == nil || !isTwigFn(g) || len(g.Blocks) == 0 || g.Signature.Results().Len() != 1 {
			return nil, false
		}
		var out ssa.Value
		ok := true
		instrsOf(g, func(in ssa.Instruction) {
			ret, isRet := in.(*ssa.Return)
			if !isRet || !ok {
				return
			}
			fv, found := fieldOfStructValue(retResults(ret)[0], field, depth+1)
			if !found || (out != nil && !sameValue(out, fv)) {
				ok = false
				return
			}
			out = fv
		})
		if ok && out != nil {
			// a field the constructor fills with one of its parameters: the caller's argument
			if p, isParam := unspill(out).(*ssa.Parameter); isParam && p.Parent() == g {
				for i, gp := range g.Params {
					if gp == p && i < len(x.Call.Args) {
						return x.Call.Args[i], true
					}
				}
			}
			return out, true
		}
	case *ssa.Parameter:
		if cvs, ok := callerValues(x, -1); ok && len(cvs) == 1 {
			return fieldOfStructValue(cvs[0].val, field, depth+1)
		}
	case *ssa.Alloc:
		// &T{…}: the pointer to a literal
		if st := allocFieldStore(x, field); st != nil {
			return st.Val, true
		}
	}
	return nil, false
}

// localFieldStore: the only store into field `field` of the local struct al, provided the local
// is only ever accessed field-wise or loaded as a whole (no whole-struct store, no escaping
// address).
func localFieldStore(al *ssa.Alloc, field int) *ssa.Store {
	if al.Referrers() == nil {
		return nil
	}
	if _, isStruct := deref(al.Type()).Underlying().(*types.Struct); !isStruct {
		return nil
	}
	var st *ssa.Store
	for _, ref := range *al.Referrers() {
		switch x := ref.(type) {
		case *ssa.UnOp, *ssa.DebugRef:
		case *ssa.FieldAddr:
			if x.Referrers() == nil {
				continue
			}
			for _, r2 := range *x.Referrers() {
				switch y := r2.(type) {
				case *ssa.Store:
					if y.Addr != ssa.Value(x) {
						return nil // the field's address is stored somewhere
					}
					if x.Field == field {
						if st != nil {
							return nil
						}
						st = y
					}
				case *ssa.UnOp, *ssa.DebugRef:
				case *ssa.FieldAddr, *ssa.IndexAddr:
					// nested access: fine for other fields, opaque for ours
					if x.Field == field {
						return nil
					}
				default:
					if x.Field == field {
						return nil
					}
				}
			}
		default:
			return nil
		}
	}
	return st
}

// paramOrigin: v is a parameter of its function, or field `field` of a struct-typed parameter
// (read directly or through the slot go/ssa spills a value receiver into); field is -1 for the
// parameter itself.
func paramOrigin(v ssa.Value) (p *ssa.Parameter, field int, ok bool) {
	switch x := v.(type) {
	case *ssa.Parameter:
		return x, -1, true
	case *ssa.Field:
		if pp, isP := unspill(x.X).(*ssa.Parameter); isP {
			return pp, x.Field, true
		}
	case *ssa.UnOp:
		if x.Op != token.MUL {
			return nil, 0, false
		}
		if fa, isFA := x.X.(*ssa.FieldAddr); isFA {
			// a pointer receiver / pointer parameter: p.F
			if pp, isP := fa.X.(*ssa.Parameter); isP {
				if _, isPtr := pp.Type().Underlying().(*types.Pointer); isPtr {
					return pp, fa.Field, true
				}
			}
			if al, isAl := fa.X.(*ssa.Alloc); isAl && al.Referrers() != nil {
				// the spill slot of a struct parameter: one whole store of the parameter, no field stores
				var pp *ssa.Parameter
				for _, ref := range *al.Referrers() {
					switch y := ref.(type) {
					case *ssa.Store:
						q, isP := y.Val.(*ssa.Parameter)
						if !isP || y.Addr != ssa.Value(al) || pp != nil {
							return nil, 0, false
						}
						pp = q
					case *ssa.FieldAddr:
						if y.Referrers() != nil {
							for _, r2 := range *y.Referrers() {
								if s, isSt := r2.(*ssa.Store); isSt && s.Addr == ssa.Value(y) {
									return nil, 0, false
								}
							}
						}
					}
				}
				if pp != nil {
					return pp, fa.Field, true
				}
			}
		}
	}
	return nil, 0, false
}

type callerVal struct {
	caller *ssa.Function
	site   ssa.CallInstruction
	val    ssa.Value
	at     ssa.Instruction // where facts about val are evaluated when there is no call site (a construction)
}

// callerValues: what the in-package static call sites of the unexported function that owns
// parameter p pass for it (field >= 0: what they stored into that field of the struct they pass).
// ok is false if some caller cannot be resolved (dynamic use of the function, exported API,
// struct not built locally).
func callerValues(p *ssa.Parameter, field int) (out []callerVal, ok bool) {
	fn := p.Parent()
	if curWorld == nil || fn == nil {
		return nil, false
	}
	obj := fn.Object()
	if obj == nil {
		if o := fn.Origin(); o != nil {
			obj = o.Object() // an instantiation of a generic helper
		}
	}
	if obj == nil || obj.Exported() {
		return nil, false
	}
	idx := -1
	for i, fp := range fn.Params {
		if fp == p {
			idx = i
		}
	}
	in := realInEdges(fn)
	if idx < 0 || len(in) == 0 {
		return nil, false
	}
	for _, e := range in {
		if e.Site == nil || !curWorld.inPkg(e.Caller.Func) {
			return nil, false
		}
		cc := e.Site.Common()
		if cc.IsInvoke() || cc.StaticCallee() != fn || idx >= len(cc.Args) {
			return nil, false
		}
		if _, isGo := e.Site.(*ssa.Go); isGo {
			return nil, false
		}
		arg := cc.Args[idx]
		if field >= 0 {
			fv, found := fieldOfStructValue(arg, field, 0)
			if !found {
				return nil, false
			}
			arg = fv
		}
		out = append(out, callerVal{caller: e.Caller.Func, site: e.Site, val: arg})
	}
	return out, true
}

// origin follows a value back through single-store locals, fields of local struct literals and —
// for unexported helpers with exactly one call site — parameters (and fields of struct
// parameters) to the value the caller computed.  The result may belong to another function; it
// is meant for identity comparisons, not for dominance arguments.
func origin(v ssa.Value) ssa.Value {
	ch := originChain(v)
	return ch[len(ch)-1]
}

// originChain: the successive values origin() passes through, starting with v itself.
func originChain(v ssa.Value) []ssa.Value {
	chain := []ssa.Value{v}
	for i := 0; i < 8; i++ {
		n := unspill(v)
		if fv, ok := localFieldValue(n); ok {
			n = fv
		} else if p, field, ok := paramOrigin(n); ok {
			if cvs, ok := callerValues(p, field); ok && len(cvs) >= 1 {
				// one call site, or several that all pass the same value
				same := true
				for _, cv := range cvs[1:] {
					if cv.val != cvs[0].val {
						same = false
					}
				}
				if same {
					n = cvs[0].val
				}
			}
		}
		if n == v {
			return chain
		}
		v = n
		chain = append(chain, v)
	}
	return chain
}

// ---- conditions and boolean helpers that imply an atomic fact

// callMatcher decides whether a call (callee, all operands incl. receiver) is the one looked for.
type callMatcher func(f *types.Func, args []ssa.Value) bool

// factMatcher decides whether "the atomic condition v has the value truth" is the fact looked for;
// resolve maps an operand of v (a value of the function v lives in) to the terms of the
// function the question was asked in (identity there; inside a helper, parameters are replaced
// by the caller's arguments and fields of struct parameters by what the caller stored there).
type factMatcher func(v ssa.Value, truth bool, resolve func(ssa.Value) ssa.Value) bool

// trueImpliesCall: v is true only if a call accepted by match returned true: the call itself, or
// a call of a bool helper of the package every true result of which implies such a call on the
// helper's corresponding parameters (`func (o opts) tolerates(err error) bool { return o.x &&
// errors.Is(err, ErrNotFound) }`).
func trueImpliesCall(v ssa.Value, match callMatcher, depth int) bool {
	return condImplies(v, true, func(x ssa.Value, truth bool, resolve func(ssa.Value) ssa.Value) bool {
		c, ok := x.(*ssa.Call)
		if !ok || !truth {
			return false
		}
		f := calleeFunc(c)
		if f == nil {
			return false
		}
		args := make([]ssa.Value, len(c.Call.Args))
		for i, a := range c.Call.Args {
			args[i] = resolve(a)
		}
		return match(f, args)
	})
}

// condImplies: the condition v having the value truth implies a fact accepted by match: v itself
// (after stripping negations), a conjunct of v (v an && value that is true, an || value that is
// false), or — v a call of a bool helper of the package — a fact that holds at every return of
// the helper that can return that value.
func condImplies(v ssa.Value, truth bool, match factMatcher) bool {
	return condImpliesR(v, truth, match, func(x ssa.Value) ssa.Value { return x }, 0)
}

func condImpliesR(v ssa.Value, truth bool, match factMatcher, resolve func(ssa.Value) ssa.Value, depth int) bool {
	var facts []condFact
	expandCond(v, truth, &facts, 0)
	for _, cf := range facts {
		if match(cf.v, cf.truth, resolve) {
			return true
		}
		c, ok := cf.v.(*ssa.Call)
		if !ok {
			continue
		}
		g := c.Call.StaticCallee()
		if g == nil || depth > 2 || !isTwigFn(g) || len(g.Blocks) == 0 {
			continue
		}
		if g.Signature.Results().Len() != 1 || !types.Identical(g.Signature.Results().At(0).Type().Underlying(), types.Typ[types.Bool]) {
			continue
		}
		if helperImplies(c, g, cf.truth, match, resolve, depth) {
			return true
		}
	}
	return false
}

// helperImplies: every return of g that can return `truth` implies the fact.
func helperImplies(c *ssa.Call, g *ssa.Function, truth bool, match factMatcher, resolve func(ssa.Value) ssa.Value, depth int) bool {
	sub := func(x ssa.Value) ssa.Value {
		if p, field, ok := paramOrigin(unspill(x)); ok && p.Parent() == g {
			for k, gp := range g.Params {
				if gp != p || k >= len(c.Call.Args) {
					continue
				}
				arg := c.Call.Args[k]
				if field < 0 {
					return resolve(arg)
				}
				if fv, found := fieldOfStructValue(arg, field, 0); found {
					return resolve(fv)
				}
			}
		}
		return x
	}
	fl := &boolFlow{fn: g, entry: false}
	fl.edge = func(b *ssa.BasicBlock, i int) bool {
		for _, cf := range edgeFacts(b, i) {
			if condImpliesR(cf.v, cf.truth, match, sub, depth+1) {
				return true
			}
		}
		return false
	}
	fl.solve()
	var implied func(res ssa.Value, at ssa.Instruction, d int) bool
	implied = func(res ssa.Value, at ssa.Instruction, d int) bool {
		if isConstBool(res, !truth) {
			return true
		}
		if fl.at(at) {
			return true
		}
		if condImpliesR(res, truth, match, sub, depth+1) {
			return true
		}
		if ph, isPhi := res.(*ssa.Phi); isPhi && d < 4 {
			for k, e := range ph.Edges {
				pred := ph.Block().Preds[k]
				if isConstBool(e, !truth) {
					continue
				}
				st := fl.out(pred, fl.in[pred])
				if !st {
					// the edge from pred into the phi's block may itself establish the fact
					for si, sb := range pred.Succs {
						if sb == ph.Block() && fl.edge(pred, si) {
							st = true
						}
					}
				}
				if st {
					continue
				}
				if !implied(e, pred.Instrs[len(pred.Instrs)-1], d+1) {
					return false
				}
			}
			return true
		}
		return false
	}
	all, n := true, 0
	instrsOf(g, func(in ssa.Instruction) {
		ret, isRet := in.(*ssa.Return)
		if !isRet {
			return
		}
		n++
		if !implied(retResults(ret)[0], in, 0) {
			all = false
		}
	})
	return all && n > 0
}

// realInEdges: the call-graph edges into fn, without those from go/ssa's synthetic wrappers
// (pointer-receiver wrappers of value methods, thunks, bound-method closures) that are
// themselves never called.
func realInEdges(fn *ssa.Function) []*callgraph.Edge {
	node := curWorld.callgraph().Nodes[fn]
	if node == nil {
		return nil
	}
	var out []*callgraph.Edge
	for _, e := range node.In {
		if c := e.Caller.Func; c != nil && c.Synthetic != "" && c.Pkg == nil || c != nil && c.Synthetic != "" && strings.Contains(c.Synthetic, "wrapper") {
			if cn := curWorld.callgraph().Nodes[c]; cn == nil || len(cn.In) == 0 {
				continue
			}
		}
		out = append(out, e)
	}
	return out
}

// constructionValues: the struct invariant "field F of T is whatever its constructions put
// there".  For an unexported field of a struct type of the package: every store into the field
// anywhere in the package must be the field-wise initialisation of a local (a composite
// literal), every local of type T that is not a parameter's spill slot must initialise the
// field, and no value of type T is created any other way (zero values in containers are not
// tracked: T must not be the element/field type of another package type).  Returns the stored
// values with the store as the "site" to evaluate dominating facts at.
func constructionValues(recvT types.Type, field int) (out []callerVal, ok bool) {
	n, isNamedT := deref(recvT).(*types.Named)
	if !isNamedT || curWorld == nil {
		return nil, false
	}
	st, isStruct := n.Underlying().(*types.Struct)
	if !isStruct || field >= st.NumFields() || st.Field(field).Exported() {
		return nil, false
	}
	key := fmt.Sprintf("%s#%d", n.Obj().Name(), field)
	if m, done := constructionMemo[key]; done {
		return m.vals, m.ok
	}
	defer func() {
		constructionMemo[key] = struct {
			vals []callerVal
			ok   bool
		}{out, ok}
	}()
	ok = true
	for _, fn := range curWorld.pkgFuncs() {
		instrsOf(fn, func(in ssa.Instruction) {
			if !ok {
				return
			}
			switch x := in.(type) {
			case *ssa.Alloc:
				if !types.Identical(deref(x.Type()), n) {
					return
				}
				if spilledStructParam(x) {
					return
				}
				if w := wholeStructStore(x); w != nil {
					// assigned from another T value (a call result, a copy): that value was constructed elsewhere
					return
				}
				s := allocFieldStore(x, field)
				if s == nil {
					ok = false
					return
				}
				out = append(out, callerVal{caller: fn, val: s.Val})
				out[len(out)-1].at = s
			case *ssa.Store:
				fa, isFA := x.Addr.(*ssa.FieldAddr)
				if !isFA || fa.Field != field || !types.Identical(deref(fa.X.Type()), n) {
					return
				}
				if _, isLocal := fa.X.(*ssa.Alloc); !isLocal {
					ok = false // the field is assigned through a pointer after construction
				}
			}
		})
	}
	if len(out) == 0 {
		ok = false
	}
	return out, ok
}

var constructionMemo = map[string]struct {
	vals []callerVal
	ok   bool
}{}

// spilledStructParam: the local is the slot go/ssa copies a struct parameter (value receiver)
// into: its only whole store is of a parameter.
func spilledStructParam(al *ssa.Alloc) bool {
	if al.Referrers() == nil {
		return false
	}
	for _, ref := range *al.Referrers() {
		if s, ok := ref.(*ssa.Store); ok && s.Addr == ssa.Value(al) {
			if _, isP := s.Val.(*ssa.Parameter); isP {
				return true
			}
		}
	}
	return false
}

// allocFieldStore: the only store into field `field` made through the allocation itself (the
// composite literal's initialisation); the allocation may escape — stores through other pointers
// are looked for separately by the caller.
func allocFieldStore(al *ssa.Alloc, field int) *ssa.Store {
	if al.Referrers() == nil {
		return nil
	}
	var st *ssa.Store
	for _, ref := range *al.Referrers() {
		fa, ok := ref.(*ssa.FieldAddr)
		if !ok || fa.Field != field || fa.Referrers() == nil {
			continue
		}
		for _, r2 := range *fa.Referrers() {
			if y, ok := r2.(*ssa.Store); ok && y.Addr == ssa.Value(fa) {
				if st != nil {
					return nil
				}
				st = y
			}
		}
	}
	return st
}
