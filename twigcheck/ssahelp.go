package main

// Small SSA helpers shared by the rules: boolean must-dataflow with edge refinement,
// condition peeling, value identity, field access recognition.

import (
	"fmt"
	"go/constant"
	"go/token"
	"go/types"
	"sort"
	"strings"

	"golang.org/x/tools/go/ssa"
)

// boolFlow is a forward *must* analysis with a single boolean fact.  The fact holds at the
// entry of a block iff it holds on every incoming edge; an edge carries the fact when it
// held at the end of the predecessor or the edge itself establishes it (edge refinement on
// the branch condition).  Greatest fixed point (optimistic initialisation), so loops do
// not lose facts established before them.
type boolFlow struct {
	fn    *ssa.Function
	entry bool
	// transfer: given the state before instr, return the state after it
	step func(in ssa.Instruction, st bool) bool
	// edge: does the edge from block b to b.Succs[i] establish the fact?
	edge func(b *ssa.BasicBlock, i int) bool
	// kill edge: does the edge destroy the fact? (optional)
	in map[*ssa.BasicBlock]bool
}

func (f *boolFlow) out(b *ssa.BasicBlock, st bool) bool {
	if f.step == nil {
		return st
	}
	for _, in := range b.Instrs {
		st = f.step(in, st)
	}
	return st
}

func (f *boolFlow) solve() {
	f.in = map[*ssa.BasicBlock]bool{}
	reach := reachableBlocks(f.fn)
	for _, b := range f.fn.Blocks {
		f.in[b] = true
	}
	if len(f.fn.Blocks) == 0 {
		return
	}
	f.in[f.fn.Blocks[0]] = f.entry
	for changed := true; changed; {
		changed = false
		for _, b := range f.fn.Blocks {
			if !reach[b] || b == f.fn.Blocks[0] {
				continue
			}
			st := true
			for _, p := range b.Preds {
				if !reach[p] {
					continue
				}
				o := f.out(p, f.in[p])
				// find the successor index (a block may be both successors of p)
				e := false
				all := true
				for i, s := range p.Succs {
					if s == b {
						if f.edge != nil && f.edge(p, i) {
							e = true
						} else {
							all = false
						}
					}
				}
				_ = e
				if !(o || all) {
					// `if a && b` evaluated as a value: the true edge was reached through the block
					// that computed the last conjunct; what held there holds here
					via := shortCircuitPredsFor(p, b)
					held := len(via) > 0
					for _, q := range via {
						if !reach[q] || !f.out(q, f.in[q]) {
							held = false
						}
					}
					if !held {
						st = false
					}
				}
			}
			if st != f.in[b] {
				f.in[b] = st
				changed = true
			}
		}
	}
}

// at returns the state immediately before instr.
func (f *boolFlow) at(instr ssa.Instruction) bool {
	b := instr.Block()
	st := f.in[b]
	if f.step == nil {
		return st
	}
	for _, in := range b.Instrs {
		if in == instr {
			return st
		}
		st = f.step(in, st)
	}
	return st
}

func reachableBlocks(fn *ssa.Function) map[*ssa.BasicBlock]bool {
	seen := map[*ssa.BasicBlock]bool{}
	if len(fn.Blocks) == 0 {
		return seen
	}
	var visit func(b *ssa.BasicBlock)
	visit = func(b *ssa.BasicBlock) {
		if seen[b] {
			return
		}
		seen[b] = true
		for _, s := range b.Succs {
			visit(s)
		}
	}
	visit(fn.Blocks[0])
	return seen
}

// ifCond returns the condition of the If that terminates b, with leading negations peeled:
// the branch taken when the returned value is true is b.Succs[trueIdx].
func ifCond(b *ssa.BasicBlock) (v ssa.Value, trueIdx int, ok bool) {
	if len(b.Instrs) == 0 {
		return nil, 0, false
	}
	i, isIf := b.Instrs[len(b.Instrs)-1].(*ssa.If)
	if !isIf {
		return nil, 0, false
	}
	v = i.Cond
	trueIdx = 0
	for {
		if u, ok := v.(*ssa.UnOp); ok && u.Op == token.NOT {
			v = u.X
			trueIdx = 1 - trueIdx
			continue
		}
		break
	}
	return v, trueIdx, true
}

// fieldLoad recognises `*(&x.f)`: a load of field f (by name) of a struct type named typ.
func fieldLoad(v ssa.Value, typ, field string) (base ssa.Value, ok bool) {
	u, isU := v.(*ssa.UnOp)
	if !isU || u.Op != token.MUL {
		return nil, false
	}
	return fieldAddr(u.X, typ, field)
}

func fieldAddr(v ssa.Value, typ, field string) (base ssa.Value, ok bool) {
	fa, isFA := v.(*ssa.FieldAddr)
	if !isFA {
		return nil, false
	}
	st, isSt := deref(fa.X.Type()).Underlying().(*types.Struct)
	if !isSt || fa.Field >= st.NumFields() || st.Field(fa.Field).Name() != field {
		return nil, false
	}
	if typ != "" && !isNamed(fa.X.Type(), twigPath, typ) {
		return nil, false
	}
	return fa.X, true
}

// fieldOfAddr returns the struct type name and field name addressed by a FieldAddr.
func fieldOfAddr(fa *ssa.FieldAddr) (typ string, field string) {
	t := deref(fa.X.Type())
	st, ok := t.Underlying().(*types.Struct)
	if !ok || fa.Field >= st.NumFields() {
		return "", ""
	}
	if n, ok := t.(*types.Named); ok {
		typ = n.Obj().Name()
	}
	return typ, st.Field(fa.Field).Name()
}

// sameValue: identical SSA values, or two loads of the same field of the same base
// (go/ssa performs no common-subexpression elimination, so `n.name` read twice gives two
// values; twig never reassigns such fields between a check and a use).
func sameValue(a, b ssa.Value) bool {
	if a == b {
		return true
	}
	// len(x) / cap(x) of the same value
	if ca, ok := a.(*ssa.Call); ok {
		if cb, ok := b.(*ssa.Call); ok {
			ba, ok1 := ca.Call.Value.(*ssa.Builtin)
			bb, ok2 := cb.Call.Value.(*ssa.Builtin)
			if ok1 && ok2 && ba.Name() == bb.Name() && (ba.Name() == "len" || ba.Name() == "cap") && len(ca.Call.Args) == 1 && len(cb.Call.Args) == 1 {
				return sameValue(ca.Call.Args[0], cb.Call.Args[0])
			}
		}
	}
	ua, ok1 := a.(*ssa.UnOp)
	ub, ok2 := b.(*ssa.UnOp)
	if ok1 && ok2 && ua.Op == token.MUL && ub.Op == token.MUL {
		// two loads of one address-taken local that is stored exactly once (a parameter
		// spilled because a closure captures it)
		if al, ok := ua.X.(*ssa.Alloc); ok && ub.X == al && singleStore(al) != nil {
			return true
		}
		fa, ok1 := ua.X.(*ssa.FieldAddr)
		fb, ok2 := ub.X.(*ssa.FieldAddr)
		if ok1 && ok2 && fa.Field == fb.Field && types.Identical(fa.X.Type(), fb.X.Type()) {
			return sameValue(fa.X, fb.X)
		}
	}
	return false
}

// unspill: if v is a load of a local that is stored exactly once, return the stored value.
func unspill(v ssa.Value) ssa.Value {
	if u, ok := v.(*ssa.UnOp); ok && u.Op == token.MUL {
		if al, ok := u.X.(*ssa.Alloc); ok {
			if st := singleStore(al); st != nil {
				return st.Val
			}
		}
	}
	return v
}

// singleStore returns the only Store into the alloc (nil if there are none or several, or
// if the address escapes other than into closures).
func singleStore(al *ssa.Alloc) *ssa.Store {
	var st *ssa.Store
	if al.Referrers() == nil {
		return nil
	}
	for _, r := range *al.Referrers() {
		switch x := r.(type) {
		case *ssa.Store:
			if x.Addr != al || st != nil {
				return nil
			}
			st = x
		case *ssa.UnOp, *ssa.DebugRef:
		case *ssa.MakeClosure:
			// captured by reference: the closure could assign it; check no store in closures
			if fn, ok := x.Fn.(*ssa.Function); ok {
				for i, b := range x.Bindings {
					if b == al && i < len(fn.FreeVars) {
						if fv := fn.FreeVars[i]; fv.Referrers() != nil {
							for _, fr := range *fv.Referrers() {
								if s, ok := fr.(*ssa.Store); ok && s.Addr == fv {
									return nil
								}
							}
						}
					}
				}
			}
		default:
			return nil
		}
	}
	return st
}

func isConstBool(v ssa.Value, want bool) bool {
	c, ok := v.(*ssa.Const)
	if !ok || c.Value == nil || c.Value.Kind() != constant.Bool {
		return false
	}
	return constant.BoolVal(c.Value) == want
}

func isNilConst(v ssa.Value) bool {
	c, ok := v.(*ssa.Const)
	return ok && c.Value == nil
}

func constString(v ssa.Value) (string, bool) {
	c, ok := v.(*ssa.Const)
	if !ok || c.Value == nil || c.Value.Kind() != constant.String {
		return "", false
	}
	return constant.StringVal(c.Value), true
}

// staticCallee returns the types.Func called by a call instruction (nil for dynamic calls;
// for interface invokes it returns the interface method).
func calleeFunc(c ssa.CallInstruction) *types.Func {
	cc := c.Common()
	if cc.IsInvoke() {
		return cc.Method
	}
	if f := cc.StaticCallee(); f != nil {
		if o, ok := f.Object().(*types.Func); ok {
			return o
		}
	}
	return nil
}

// callArgs returns the user-level arguments of a call (receiver excluded for static method
// calls, where go/ssa passes it as Args[0]).
func callArgs(c ssa.CallInstruction) []ssa.Value {
	cc := c.Common()
	if cc.IsInvoke() {
		return cc.Args
	}
	if f := cc.StaticCallee(); f != nil && f.Signature.Recv() != nil && len(cc.Args) > 0 {
		return cc.Args[1:]
	}
	return cc.Args
}

func callRecv(c ssa.CallInstruction) ssa.Value {
	cc := c.Common()
	if cc.IsInvoke() {
		return cc.Value
	}
	if f := cc.StaticCallee(); f != nil && f.Signature.Recv() != nil && len(cc.Args) > 0 {
		return cc.Args[0]
	}
	return nil
}

// instrsOf iterates over all instructions of a function in block order.
func instrsOf(fn *ssa.Function, f func(in ssa.Instruction)) {
	for _, b := range fn.Blocks {
		if b == fn.Recover {
			continue // synthetic block that returns the named results after a recovered panic
		}
		for _, in := range b.Instrs {
			f(in)
		}
	}
}

// globalName returns the name of the package-level variable a value loads from or addresses.
func globalOf(v ssa.Value) *ssa.Global {
	switch x := v.(type) {
	case *ssa.Global:
		return x
	case *ssa.UnOp:
		if x.Op == token.MUL {
			return globalOf(x.X)
		}
	case *ssa.FieldAddr:
		return globalOf(x.X)
	}
	return nil
}

// existsPathAvoiding reports whether a feasible path exists from the function entry to the
// instruction `target` that executes no instruction for which gen is true and crosses no edge
// for which edgeGen is true.  Feasibility is decided only for nil-tests and boolean tests of
// SSA values that are tested more than once: such a value is immutable, so two tests of it
// must be taken consistently (this is what makes `if err == nil { f() } … if err != nil {
// return }` recognisable as "f() always ran on the surviving path").  The returned slice
// describes the offending path (block comments) for the report.
func existsPathAvoiding(fn *ssa.Function, target ssa.Instruction, gen func(ssa.Instruction) bool, edgeGen func(b *ssa.BasicBlock, i int) bool) (bool, []string) {
	if len(fn.Blocks) == 0 {
		return false, nil
	}
	// condition normalisation: value tested (against nil, a constant, or as a bool), and which
	// successor index means "value equals that constant / is false".  Two loads of the same
	// field of the same object count as the same value (sameValue).
	type test struct {
		v       ssa.Value
		zeroIdx int
	}
	tests := map[*ssa.BasicBlock]test{}
	count := map[ssa.Value]int{}
	type repKey struct {
		v ssa.Value
		c string
	}
	var reps []repKey
	canon := func(v ssa.Value, c string) ssa.Value {
		for _, r := range reps {
			if r.c == c && sameValue(r.v, v) {
				return r.v
			}
		}
		reps = append(reps, repKey{v, c})
		return v
	}
	for _, b := range fn.Blocks {
		v, trueIdx, ok := ifCond(b)
		if !ok {
			continue
		}
		if bo, ok := v.(*ssa.BinOp); ok && (bo.Op == token.EQL || bo.Op == token.NEQ) {
			x, y := bo.X, bo.Y
			if _, isC := x.(*ssa.Const); isC {
				x, y = y, x
			}
			if c, isC := y.(*ssa.Const); isC {
				ck := "nil"
				if c.Value != nil {
					ck = c.Value.ExactString()
				}
				zi := trueIdx
				if bo.Op == token.NEQ {
					zi = 1 - trueIdx
				}
				rv := canon(x, ck)
				tests[b] = test{rv, zi}
				count[rv]++
				continue
			}
		}
		if types.Identical(v.Type().Underlying(), types.Typ[types.Bool]) {
			rv := canon(v, "bool")
			tests[b] = test{rv, 1 - trueIdx}
			count[rv]++
		}
	}
	type key struct {
		b   *ssa.BasicBlock
		sig string
	}
	failed := map[key]bool{}
	var path []string
	sigOf := func(as map[ssa.Value]bool) string {
		var ks []string
		for v, z := range as {
			ks = append(ks, fmt.Sprintf("%s=%v", v.Name(), z))
		}
		sort.Strings(ks)
		return strings.Join(ks, ",")
	}
	var dfs func(b *ssa.BasicBlock, as map[ssa.Value]bool, onPath map[*ssa.BasicBlock]bool) bool
	dfs = func(b *ssa.BasicBlock, as map[ssa.Value]bool, onPath map[*ssa.BasicBlock]bool) bool {
		k := key{b, sigOf(as)}
		if failed[k] {
			return false
		}
		failed[k] = true // plain graph search over (block, assumptions) states
		for _, in := range b.Instrs {
			if in == target {
				path = append(path, b.String())
				return true
			}
			if gen != nil && gen(in) {
				failed[k] = true
				return false
			}
		}
		t, hasTest := tests[b]
		for i, s := range b.Succs {
			if edgeGen != nil && edgeGen(b, i) {
				continue
			}
			as2 := as
			if hasTest && count[t.v] > 1 {
				zero := i == t.zeroIdx
				if prev, ok := as[t.v]; ok {
					if prev != zero {
						continue // infeasible: contradicts an earlier test of the same value
					}
				} else {
					as2 = map[ssa.Value]bool{}
					for k, v := range as {
						as2[k] = v
					}
					as2[t.v] = zero
				}
			}
			if dfs(s, as2, onPath) {
				path = append(path, b.String())
				return true
			}
		}
		failed[k] = true
		return false
	}
	found := dfs(fn.Blocks[0], map[ssa.Value]bool{}, map[*ssa.BasicBlock]bool{})
	// reverse path
	for i, j := 0, len(path)-1; i < j; i, j = i+1, j-1 {
		path[i], path[j] = path[j], path[i]
	}
	return found, path
}

// retResults returns the values a Return instruction returns, undoing go/ssa's rewriting of
// returns in functions with defers (`*res = X; rundefers; t = *res; return t`  ==>  X).
func retResults(ret *ssa.Return) []ssa.Value {
	out := make([]ssa.Value, len(ret.Results))
	for i, r := range ret.Results {
		out[i] = r
		u, ok := r.(*ssa.UnOp)
		if !ok || u.Op != token.MUL {
			continue
		}
		al, ok := u.X.(*ssa.Alloc)
		if !ok {
			continue
		}
		// last store into the result local in this block before the load
		var last ssa.Value
		for _, in := range ret.Block().Instrs {
			if in == ssa.Instruction(u) {
				break
			}
			if st, ok := in.(*ssa.Store); ok && st.Addr == al {
				last = st.Val
			}
		}
		if last != nil {
			out[i] = last
		}
	}
	return out
}

// ---------------------------------------------------------------- short-circuit conditions as values
//
// go/ssa (x/tools v0.29) evaluates the case expressions of a tagless switch — and any && / ||
// used as a value — into a phi tagged "&&" / "||" instead of control flow.  Taking the true edge
// of `if phi(&&)` means every conjunct was true; taking the false edge of `if phi(||)` means
// every disjunct was false.  edgeFacts lists the atomic facts of an edge; anyEdgeFact offers
// them one by one to a rule's edge predicate in the (value, trueIdx) form the predicates were
// written for: i == trueIdx iff the value is true on the edge.

type condFact struct {
	v     ssa.Value
	truth bool
}

func expandCond(v ssa.Value, truth bool, out *[]condFact, depth int) {
	for {
		if u, ok := v.(*ssa.UnOp); ok && u.Op == token.NOT {
			v, truth = u.X, !truth
			continue
		}
		break
	}
	if ph, ok := v.(*ssa.Phi); ok && depth < 6 && ((ph.Comment == "&&" && truth) || (ph.Comment == "||" && !truth)) {
		for _, e := range ph.Edges {
			if c, ok := e.(*ssa.Const); ok && c.Value != nil && c.Value.Kind() == constant.Bool {
				continue
			}
			expandCond(e, truth, out, depth+1)
		}
		return
	}
	*out = append(*out, condFact{v, truth})
}

func edgeFacts(b *ssa.BasicBlock, i int) []condFact {
	if len(b.Instrs) == 0 || i > 1 {
		return nil
	}
	ifi, ok := b.Instrs[len(b.Instrs)-1].(*ssa.If)
	if !ok {
		return nil
	}
	var out []condFact
	expandCond(ifi.Cond, i == 0, &out, 0)
	return out
}

func anyEdgeFact(b *ssa.BasicBlock, i int, f func(v ssa.Value, trueIdx int) bool) bool {
	for _, cf := range edgeFacts(b, i) {
		ti := i
		if !cf.truth {
			ti = 1 - i
		}
		if f(cf.v, ti) {
			return true
		}
	}
	return false
}

// shortCircuitPreds: if b ends in `if phi(&&)` (resp. ||) and edge i is its true (resp. false)
// edge, control reached b through the predecessors that carry the phi's non-constant operands;
// what held at the end of all of those holds on the edge.
func shortCircuitPreds(b *ssa.BasicBlock, i int) []*ssa.BasicBlock {
	if len(b.Instrs) == 0 || i > 1 {
		return nil
	}
	ifi, ok := b.Instrs[len(b.Instrs)-1].(*ssa.If)
	if !ok {
		return nil
	}
	v, truth := ifi.Cond, i == 0
	for {
		if u, ok := v.(*ssa.UnOp); ok && u.Op == token.NOT {
			v, truth = u.X, !truth
			continue
		}
		break
	}
	ph, ok := v.(*ssa.Phi)
	if !ok || ph.Block() != b || !((ph.Comment == "&&" && truth) || (ph.Comment == "||" && !truth)) {
		return nil
	}
	var out []*ssa.BasicBlock
	for k, e := range ph.Edges {
		if c, ok := e.(*ssa.Const); ok && c.Value != nil && c.Value.Kind() == constant.Bool {
			continue
		}
		out = append(out, b.Preds[k])
	}
	return out
}

// shortCircuitPredsFor: shortCircuitPreds for the edge(s) from p to succ (nil unless every such
// edge qualifies).
func shortCircuitPredsFor(p, succ *ssa.BasicBlock) []*ssa.BasicBlock {
	var out []*ssa.BasicBlock
	for i, s := range p.Succs {
		if s != succ {
			continue
		}
		via := shortCircuitPreds(p, i)
		if len(via) == 0 {
			return nil
		}
		out = append(out, via...)
	}
	return out
}
