package main

// C18 — rendering never modifies the caller's data.
//
// R18.1 the caller's top-level map is copied, never adopted (= R11.4 restricted to the context
//       field: every store to RenderContext.context assigns a fresh map or nil).
// R18.2 no write through caller-derived values: in every function reachable from render roots,
//       every mutating operation (element store, map update/delete, append, copy destination,
//       sort.*/slices.Sort*, reflect Set*/Swapper/Copy) acts on a container that is provably
//       fresh (allocated by the function or by a summarised allocating helper), or that is rooted
//       in engine-internal state — never on a value that derives from template data
//       (interface{}-typed parameters, results of evaluation, elements of such values).

import (
	"fmt"
	"go/token"
	"go/types"
	"strings"

	"golang.org/x/tools/go/ssa"
)

func init() { register("C18", checkC18) }

type freshness struct {
	w       *World
	retMemo map[*ssa.Function]int // 0 unknown, 1 fresh, 2 not, 3 in progress
	depth   int                   // nesting of returnsFresh evaluations
	assumed bool                  // an in-progress function was assumed fresh (co-induction)
}

func isDataType(t types.Type) bool {
	switch u := t.Underlying().(type) {
	case *types.Interface:
		return u.NumMethods() == 0
	case *types.Slice:
		return isDataType(u.Elem()) || true
	case *types.Map:
		return true
	case *types.Pointer:
		return true
	case *types.Array:
		return true
	}
	return isNamed(t, "reflect", "Value")
}

// fresh: is v provably a container allocated during this render (not the caller's)?
func (f *freshness) fresh(v ssa.Value, seen map[ssa.Value]bool) bool {
	if seen[v] {
		return true // cycles through phis: optimistic inside the cycle
	}
	seen[v] = true
	switch x := v.(type) {
	case *ssa.MakeSlice, *ssa.MakeMap, *ssa.Alloc:
		return true
	case *ssa.Const:
		return true
	case *ssa.Parameter:
		// fresh if every call of the function is a static call that passes a fresh argument
		fn := x.Parent()
		idx := -1
		for i, p := range fn.Params {
			if p == x {
				idx = i
			}
		}
		node := f.w.callgraph().Nodes[fn]
		if idx < 0 || node == nil || len(node.In) == 0 {
			return false
		}
		for _, e := range node.In {
			if e.Site == nil || e.Site.Common().StaticCallee() != fn || idx >= len(e.Site.Common().Args) {
				return false
			}
			if !f.fresh(e.Site.Common().Args[idx], seen) {
				return false
			}
		}
		return true
	case *ssa.MakeInterface:
		return f.fresh(x.X, seen)
	case *ssa.TypeAssert:
		return f.fresh(x.X, seen)
	case *ssa.ChangeType:
		return f.fresh(x.X, seen)
	case *ssa.Convert:
		// []rune(s), []byte(s), string(...) allocate
		if _, ok := x.X.Type().Underlying().(*types.Basic); ok {
			return true
		}
		return f.fresh(x.X, seen)
	case *ssa.Slice:
		return f.fresh(x.X, seen)
	case *ssa.Phi:
		for _, e := range x.Edges {
			if !f.fresh(e, seen) {
				return false
			}
		}
		return true
	case *ssa.Extract:
		return f.fresh(x.Tuple, seen)
	case *ssa.UnOp:
		if x.Op != token.MUL {
			return false
		}
		// load of a local: fresh if everything stored into it is fresh
		if al, ok := x.X.(*ssa.Alloc); ok {
			if al.Referrers() == nil {
				return true
			}
			for _, ref := range *al.Referrers() {
				if st, ok := ref.(*ssa.Store); ok && st.Addr == al {
					if !f.fresh(st.Val, seen) {
						return false
					}
				}
			}
			return true
		}
		// field of a per-render object (RenderContext scope maps, buffers): class L
		if root, _, ok := addrPath(x.X); ok {
			if isNamed(root.Type(), twigPath, "RenderContext") || isNamed(root.Type(), twigPath, "Buffer") || isNamed(root.Type(), twigPath, "StringBuffer") || isNamed(root.Type(), twigPath, "ZeroAllocTokenizer") || isNamed(root.Type(), twigPath, "Parser") {
				return true
			}
		}
		return false
	case *ssa.Lookup:
		// element of a fresh local map into which only fresh values were stored
		// (a map held in a field of a per-render object is filled elsewhere: what its elements
		// are cannot be told from the stores of this function)
		if u, ok := x.X.(*ssa.UnOp); ok && u.Op == token.MUL {
			if _, local := u.X.(*ssa.Alloc); !local {
				return false
			}
		}
		if f.fresh(x.X, seen) {
			return f.onlyFreshStored(x.X, seen)
		}
		return false
	case *ssa.Call:
		cc := x.Call
		if b, ok := cc.Value.(*ssa.Builtin); ok {
			switch b.Name() {
			case "append":
				// append(nil/fresh, …) is fresh; append(foreign, …) is not
				return f.fresh(cc.Args[0], seen)
			case "make", "new":
				return true
			}
			return false
		}
		callee := cc.StaticCallee()
		if callee == nil {
			return false
		}
		full := callee.String()
		switch full {
		case "reflect.MakeSlice", "reflect.MakeMap", "reflect.MakeMapWithSize", "reflect.New", "reflect.Zero":
			return true
		case "reflect.Append", "reflect.AppendSlice", "reflect.Indirect":
			return f.fresh(cc.Args[0], seen)
		case "(reflect.Value).Elem", "(reflect.Value).Slice", "(reflect.Value).Convert":
			return f.fresh(cc.Args[0], seen)
		case "(*sync.Pool).Get", "(reflect.Value).MapKeys":
			return true
		case "strings.Split", "strings.Fields", "strings.SplitN", "sort.StringSlice", "strings.FieldsFunc", "regexp.(*Regexp).Split":
			return true
		}
		if f.w.inPkg(callee) {
			return f.returnsFresh(callee)
		}
		return false
	}
	return false
}

// onlyFreshStored: every value stored into the (local) map/slice is fresh.
func (f *freshness) onlyFreshStored(m ssa.Value, seen map[ssa.Value]bool) bool {
	if m.Referrers() == nil {
		return true
	}
	for _, ref := range *m.Referrers() {
		if mu, ok := ref.(*ssa.MapUpdate); ok && mu.Map == m {
			if isDataType(mu.Value.Type()) && !f.fresh(mu.Value, seen) {
				return false
			}
		}
	}
	return true
}

func (f *freshness) returnsFresh(fn *ssa.Function) bool {
	switch f.retMemo[fn] {
	case 1:
		return true
	case 2:
		return false
	case 3:
		// a cycle (a helper that returns its own parameter appended to, called with its own
		// earlier result): freshness is a greatest fixed point — assume it inside the cycle; the
		// evaluation that started the cycle still needs every other source to be fresh
		f.assumed = true
		return true
	}
	f.retMemo[fn] = 3
	f.depth++
	ok, n := true, 0
	instrsOf(fn, func(in ssa.Instruction) {
		ret, isRet := in.(*ssa.Return)
		if !isRet {
			return
		}
		for _, rv := range retResults(ret) {
			if !isDataType(rv.Type()) {
				continue
			}
			n++
			if !f.fresh(rv, map[ssa.Value]bool{}) {
				ok = false
			}
		}
	})
	f.depth--
	switch {
	case !(ok && n > 0):
		f.retMemo[fn] = 2
	case f.assumed && f.depth > 0:
		delete(f.retMemo, fn) // true only under an assumption of an enclosing evaluation: not memoised
	default:
		f.retMemo[fn] = 1
	}
	if f.depth == 0 {
		f.assumed = false
	}
	return ok && n > 0
}

// fromData: does v derive from template data (an interface{}-typed or container-typed parameter,
// the result of an evaluating call, or an element of such a value)?  Returns a description.
func (f *freshness) fromData(v ssa.Value, seen map[ssa.Value]bool, depth int) string {
	if seen[v] || depth > 12 {
		return ""
	}
	seen[v] = true
	switch x := v.(type) {
	case *ssa.Parameter:
		if isDataType(x.Type()) && !isNamed(x.Type(), twigPath, "RenderContext") && !strings.HasPrefix(types.TypeString(deref(x.Type()), nil), twigPath) {
			return "parameter " + x.Name()
		}
		return ""
	case *ssa.TypeAssert:
		return f.fromData(x.X, seen, depth+1)
	case *ssa.MakeInterface:
		return f.fromData(x.X, seen, depth+1)
	case *ssa.ChangeType:
		return f.fromData(x.X, seen, depth+1)
	case *ssa.Slice:
		return f.fromData(x.X, seen, depth+1)
	case *ssa.Extract:
		return f.fromData(x.Tuple, seen, depth+1)
	case *ssa.Phi:
		for _, e := range x.Edges {
			if s := f.fromData(e, seen, depth+1); s != "" {
				return s
			}
		}
		return ""
	case *ssa.Lookup:
		if s := f.fromData(x.X, seen, depth+1); s != "" {
			return "an element of " + s
		}
		// a variable read back from the render context: the caller's value, or a value a template
		// may have bound to a second name
		if u, ok := x.X.(*ssa.UnOp); ok && u.Op == token.MUL {
			if fa, ok := u.X.(*ssa.FieldAddr); ok {
				if tn, fld := fieldOfAddr(fa); tn == "RenderContext" {
					if m, ok := u.Type().Underlying().(*types.Map); ok {
						if it, ok := m.Elem().Underlying().(*types.Interface); ok && it.NumMethods() == 0 {
							return "a variable read from RenderContext." + fld
						}
					}
				}
			}
		}
		return ""
	case *ssa.Index:
		return f.fromData(x.X, seen, depth+1)
	case *ssa.IndexAddr:
		if s := f.fromData(x.X, seen, depth+1); s != "" {
			return "an element of " + s
		}
		return ""
	case *ssa.Next:
		return f.fromData(x.Iter, seen, depth+1)
	case *ssa.Range:
		return f.fromData(x.X, seen, depth+1)
	case *ssa.UnOp:
		if x.Op != token.MUL {
			return ""
		}
		if al, ok := x.X.(*ssa.Alloc); ok && al.Referrers() != nil {
			for _, ref := range *al.Referrers() {
				if st, ok := ref.(*ssa.Store); ok && st.Addr == al {
					if s := f.fromData(st.Val, seen, depth+1); s != "" {
						return s
					}
				}
			}
			return ""
		}
		if ia, ok := x.X.(*ssa.IndexAddr); ok {
			return f.fromData(ia, seen, depth+1)
		}
		return ""
	case *ssa.Call:
		cc := x.Call
		callee := cc.StaticCallee()
		if callee != nil {
			full := callee.String()
			if strings.HasPrefix(full, "(reflect.Value).") || full == "reflect.ValueOf" || full == "reflect.Indirect" {
				if len(cc.Args) > 0 {
					if s := f.fromData(cc.Args[0], seen, depth+1); s != "" {
						return s
					}
				}
				return ""
			}
			if f.w.inPkg(callee) && !f.returnsFresh(callee) {
				// results of package functions that return interface{} / containers: template data
				res := callee.Signature.Results()
				for i := 0; i < res.Len(); i++ {
					if it, ok := res.At(i).Type().Underlying().(*types.Interface); ok && it.NumMethods() == 0 {
						return "the result of " + ssaName(callee)
					}
				}
				// a typed container handed back as it came in (`if b, ok := v.([]byte); ok {
				// return b }`): some return of the callee is one of its data parameters
				if len(callee.Blocks) > 0 && depth < 8 {
					why := ""
					instrsOf(callee, func(in ssa.Instruction) {
						ret, ok := in.(*ssa.Return)
						if !ok || why != "" {
							return
						}
						for _, rv := range ret.Results {
							switch rv.Type().Underlying().(type) {
							case *types.Slice, *types.Map, *types.Pointer:
								if s := f.fromData(rv, map[ssa.Value]bool{}, depth+4); s != "" {
									why = "the result of " + ssaName(callee) + " (which hands back " + s + ")"
								}
							}
						}
					})
					if why != "" {
						return why
					}
				}
			}
			return ""
		}
		// dynamic call of a filter/function: its result is data
		if isNamed(cc.Value.Type(), twigPath, "FilterFunc") || isNamed(cc.Value.Type(), twigPath, "FunctionFunc") {
			return "the result of a filter/function call"
		}
	}
	return ""
}

func checkC18(w *World, r *Report) {
	r.Explanation = "Decides, for every template and every shape of context data, that twig's own code never writes through a value that derives from the caller's data: (R18.1) the context field of a render context is only ever assigned a fresh map; (R18.2) in every function reachable from render roots, the container of every mutating operation — element store, map update/delete, append, copy destination, sort.* / slices.Sort*, reflect Set/SetMapIndex/SetLen/Swapper/Copy — is provably fresh (allocated in this render, possibly by a summarised allocating helper) or rooted in engine-internal state, never a value derived from interface{}-typed parameters, evaluation results or their elements. Not decided: mutation performed by user callbacks or by methods of user types invoked through attribute access."
	r.Explanation += " Rules added in later rounds: (R18.3) no address of reflected caller data; (R18.4) data values are not asserted to consuming interfaces."
	r.Explanation += " Round 9: variables read back from a RenderContext map are data; elements of maps held in fields are not assumed fresh."
	r.Explanation += " Round 12: (R18.5) context values are copied as given; (R18.6) no receiver-writing methods on data values."
	r.RuleText = "obligation = one mutating operation on a container in a render-reachable function; non-trivial = those whose container is not syntactically an allocation of the same function"
	r.Trusted = []string{"freshness summaries are intra-procedural plus return-freshness of package helpers", "sort.*, slices.Sort*, reflect.Value.Set* are the in-place mutators of the standard library"}

	f := &freshness{w: w, retMemo: map[*ssa.Function]int{}}
	reach := w.renderOnlyReachable()
	nSinks := 0
	for _, fn := range w.pkgFuncs() {
		if !reach[fn] {
			continue
		}
		instrsOf(fn, func(in ssa.Instruction) {
			var container ssa.Value
			what := ""
			switch x := in.(type) {
			case *ssa.Store:
				if ia, ok := x.Addr.(*ssa.IndexAddr); ok {
					if _, isSlice := ia.X.Type().Underlying().(*types.Slice); isSlice {
						container, what = ia.X, "element store"
					} else if p, isPtr := ia.X.Type().Underlying().(*types.Pointer); isPtr {
						if _, isArr := p.Elem().Underlying().(*types.Array); isArr {
							container, what = ia.X, "array element store"
						}
					}
				}
			case *ssa.MapUpdate:
				container, what = x.Map, "map update"
			case ssa.CallInstruction:
				cc := x.Common()
				if b, ok := cc.Value.(*ssa.Builtin); ok {
					switch b.Name() {
					case "delete":
						container, what = cc.Args[0], "map delete"
					case "copy":
						container, what = cc.Args[0], "copy destination"
					case "append":
						if v, ok := in.(ssa.Value); ok && v.Referrers() != nil && len(*v.Referrers()) > 0 {
							if !isNilConst(cc.Args[0]) {
								container, what = cc.Args[0], "append (may write spare capacity)"
							}
						}
					}
				} else if callee := cc.StaticCallee(); callee != nil {
					full := callee.String()
					switch {
					case strings.HasPrefix(full, "sort.") && (callee.Name() == "Strings" || callee.Name() == "Ints" || callee.Name() == "Float64s" || callee.Name() == "Slice" || callee.Name() == "SliceStable" || callee.Name() == "Sort" || callee.Name() == "Stable"):
						container, what = cc.Args[0], full+" (in place)"
					case strings.HasPrefix(full, "slices.Sort") || full == "slices.Reverse":
						container, what = cc.Args[0], full+" (in place)"
					case full == "(reflect.Value).Set" || full == "(reflect.Value).SetMapIndex" || full == "(reflect.Value).SetLen" || full == "(reflect.Value).SetInt" || full == "(reflect.Value).SetString" || full == "(reflect.Value).SetFloat" || full == "(reflect.Value).SetBool":
						container, what = cc.Args[0], full
					case full == "reflect.Swapper" || full == "reflect.Copy":
						container, what = cc.Args[0], full
					case full == "reflect.Append" || full == "reflect.AppendSlice":
						container, what = cc.Args[0], full+" (may write spare capacity)"
					}
				}
			}
			if container == nil {
				return
			}
			nSinks++
			construct := what + " on " + describe(container)
			pos := w.posOf(in.Pos())
			if f.fresh(container, map[ssa.Value]bool{}) {
				_, direct := container.(*ssa.MakeSlice)
				_, direct2 := container.(*ssa.MakeMap)
				r.ok("R18.2", ssaName(fn), construct, pos, "container is fresh (allocated during this render)", !(direct || direct2))
				return
			}
			if src := f.fromData(container, map[ssa.Value]bool{}, 0); src != "" {
				r.bad("R18.2", ssaName(fn), construct, pos, "the operation writes through "+src+", which may be the caller's data (or a value another filter produced from it without copying): the context passed to Render can be modified")
				return
			}
			r.ok("R18.2", ssaName(fn), construct, pos, "container is engine-internal state (not derived from template data)", true)
		})
	}
	r.floor("mutating operations in render-reachable functions", nSinks, 50)
	checkNoAliasesIntoData(w, r, reach)
	checkContextValuesCopiedAsGiven(w, r)
	checkNoWritingMethodsOnData(w, r, f, reach)

	// R18.1
	n := 0
	for _, fn := range w.pkgFuncs() {
		instrsOf(fn, func(in ssa.Instruction) {
			st, ok := in.(*ssa.Store)
			if !ok {
				return
			}
			fa, ok := st.Addr.(*ssa.FieldAddr)
			if !ok {
				return
			}
			tn, fld := fieldOfAddr(fa)
			if tn != "RenderContext" || fld != "context" {
				return
			}
			n++
			why, fresh := freshMapFor(st.Val, 0, fa)
			if fresh {
				r.ok("R18.1", ssaName(fn), "store RenderContext.context", w.posOf(in.Pos()), why, false)
			} else {
				r.bad("R18.1", ssaName(fn), "store RenderContext.context", w.posOf(in.Pos()), "the render context adopts "+why+" instead of copying it: set and loop variables are written into the caller's map")
			}
		})
	}
	r.floor("stores to RenderContext.context", n, 3)
}

var _ = fmt.Sprintf

// checkNoAliasesIntoData — R18.3 / R18.4: the render reads the caller's data, it does not get a
// handle on it.  (R18.3) render-reachable code never takes the address of a reflected value
// (reflect.Value.Addr / UnsafeAddr): a pointer into the caller's slice or struct handed to a
// template lets pointer-receiver methods called from the template write into the caller's
// data.  (R18.4) a data value (static type interface{}) is never asserted to an interface from
// outside the package other than the read-only ones (fmt.Stringer, error, fmt.Formatter,
// fmt.GoStringer, json.Marshaler, encoding.TextMarshaler): io.WriterTo, io.Reader and the like
// consume or advance the value they belong to (a *bytes.Buffer printed through WriteTo is empty
// afterwards).
func checkNoAliasesIntoData(w *World, r *Report, reach map[*ssa.Function]bool) {
	readOnly := map[string]bool{
		"fmt.Stringer": true, "error": true, "fmt.Formatter": true, "fmt.GoStringer": true,
		"encoding/json.Marshaler": true, "encoding.TextMarshaler": true, "sort.Interface": false,
	}
	nA, nI, bad := 0, 0, 0
	for _, fn := range w.pkgFuncs() {
		if !reach[fn] {
			continue
		}
		instrsOf(fn, func(in ssa.Instruction) {
			switch x := in.(type) {
			case *ssa.Call:
				g := x.Call.StaticCallee()
				if g == nil {
					return
				}
				switch g.String() {
				case "(reflect.Value).Addr", "(reflect.Value).UnsafeAddr", "(reflect.Value).UnsafePointer":
					nA++
					// the address of something this render allocated itself is its own business
					f := &freshness{w: w, retMemo: map[*ssa.Function]int{}}
					if f.fresh(x.Call.Args[0], map[ssa.Value]bool{}) {
						r.ok("R18.3", ssaName(fn), g.Name()+" of a reflected value", w.posOf(in.Pos()), "the value was allocated by this render", true)
						return
					}
					bad++
					r.bad("R18.3", ssaName(fn), g.Name()+" of a reflected value", w.posOf(in.Pos()), "the address of (a part of) a value reached from the context is taken: what the template gets is a pointer into the caller's data, so pointer-receiver methods called from the template — or any later write through it — modify the data passed to Render")
				}
			case *ssa.TypeAssert:
				it, ok := x.AssertedType.Underlying().(*types.Interface)
				if !ok || it.NumMethods() == 0 {
					return
				}
				xt, ok := x.X.Type().Underlying().(*types.Interface)
				if !ok || xt.NumMethods() != 0 {
					return // not a data value (an io.Writer, a Node …)
				}
				name := types.TypeString(x.AssertedType, nil)
				if n, ok := x.AssertedType.(*types.Named); ok && n.Obj().Pkg() != nil && n.Obj().Pkg().Path() == twigPath {
					return // the package's own interfaces
				}
				if _, isNamedT := x.AssertedType.(*types.Named); !isNamedT {
					// an anonymous interface: judged by its methods
					okAll := true
					for i := 0; i < it.NumMethods(); i++ {
						switch it.Method(i).Name() {
						case "String", "Error", "Len", "IsZero", "Unwrap", "Is", "As":
						default:
							okAll = false
						}
					}
					if okAll {
						return
					}
				}
				nI++
				if readOnly[name] {
					r.ok("R18.4", ssaName(fn), "data value asserted to "+name, w.posOf(in.Pos()), "read-only interface", false)
					return
				}
				bad++
				r.bad("R18.4", ssaName(fn), "data value asserted to "+name, w.posOf(in.Pos()), "a value from the context is asked for the interface "+name+", whose methods consume or modify their receiver: using it on the caller's value (a *bytes.Buffer, a reader) changes that value — the same context no longer renders the same afterwards")
			}
		})
	}
	r.Counts["address-taking reflect calls on render paths"] = nA
	r.Counts["assertions of data values to foreign interfaces"] = nI
	if bad == 0 {
		r.ok("R18.3", "(package)", "no alias into the caller's data is created", "-", fmt.Sprintf("%d address-taking reflect calls, %d assertions of data values to foreign interfaces on render paths; all harmless", nA, nI), false)
	}
}

// checkContextValuesCopiedAsGiven — R18.5: the render works on the caller's values, not on
// conversions of them.  Where a function fills a render context's variable map from a map it was
// handed (range over a map[string]interface{} parameter, store under the same key), the value
// stored is the value read — not the result of a call on it.  "Normalising" typed slices to
// []interface{} at that point changes what a value is for every filter after it: a []byte, a
// net.IP or a named slice with a String method stops being text and prints as a list of numbers.
func checkContextValuesCopiedAsGiven(w *World, r *Report) {
	n := 0
	for _, fn := range w.pkgFuncs() {
		instrsOf(fn, func(in ssa.Instruction) {
			mu, ok := in.(*ssa.MapUpdate)
			if !ok {
				return
			}
			if _, ok := fieldLoad(mu.Map, "RenderContext", "context"); !ok {
				return
			}
			// key: the key of a range over a map parameter
			kx, ok := unspill(mu.Key).(*ssa.Extract)
			if !ok {
				return
			}
			nx, ok := kx.Tuple.(*ssa.Next)
			if !ok {
				return
			}
			rg, ok := nx.Iter.(*ssa.Range)
			if !ok {
				return
			}
			isParamMap := false
			for _, o := range originChain(rg.X) {
				if p, ok := o.(*ssa.Parameter); ok {
					if m, ok := p.Type().Underlying().(*types.Map); ok {
						if it, ok := m.Elem().Underlying().(*types.Interface); ok && it.NumMethods() == 0 {
							isParamMap = true
						}
					}
				}
			}
			if !isParamMap {
				return
			}
			n++
			construct := "value copied from the caller's map as it is"
			v := unspill(mu.Value)
			if vx, ok := v.(*ssa.Extract); ok && vx.Tuple == ssa.Value(nx) {
				r.ok("R18.5", ssaName(fn), construct, w.posOf(in.Pos()), "the value read by the range is the value stored", true)
				return
			}
			r.bad("R18.5", ssaName(fn), construct, w.posOf(in.Pos()), "the value stored in the context is computed from the caller's value ("+v.String()+") instead of being that value: every filter and test then sees another kind of value than the caller passed — a typed slice with its own text form reaches escape as a list")
		})
	}
	// maps.Copy(ctx.context, m) copies every value as it is
	for _, fn := range w.pkgFuncs() {
		instrsOf(fn, func(in ssa.Instruction) {
			c, ok := in.(*ssa.Call)
			if !ok {
				return
			}
			dst, _, ok := mapsCopyCall(c)
			if !ok {
				return
			}
			if _, ok := fieldLoad(unspill(dst), "RenderContext", "context"); ok {
				n++
				r.ok("R18.5", ssaName(fn), "values copied from the caller's map as they are", w.posOf(in.Pos()), "maps.Copy", false)
			}
		})
	}
	r.floor("copies of a caller's map into a render context", n, 1)
}

// checkNoWritingMethodsOnData — R18.6: a value from the context is never the receiver of a method
// that writes its receiver.  Where a data value (an interface{} parameter, an evaluation result,
// an element of one) is asserted to a pointer type of another package and a method of that type is
// called on it, the method is one of the known read-only ones (String, Cmp, Sign, Int64, Text,
// Len …).  The arithmetic methods of math/big (z.Neg(x), z.Add(x, y) …) store into z: `b.Neg(b)` on
// the caller's *big.Int negates the caller's number.
func checkNoWritingMethodsOnData(w *World, r *Report, f *freshness, reach map[*ssa.Function]bool) {
	readOnly := map[string]bool{
		"String": true, "Error": true, "Cmp": true, "CmpAbs": true, "Sign": true, "Int64": true, "Uint64": true,
		"IsInt64": true, "IsUint64": true, "Text": true, "Bytes": true, "BitLen": true, "Format": true, "Len": true,
		"Cap": true, "Float64": true, "Float32": true, "IsInt": true, "Num": true, "Denom": true, "Equal": true,
		"Before": true, "After": true, "Unix": true, "UnixNano": true, "IsZero": true, "MarshalJSON": true,
		"MarshalText": true, "GoString": true, "Append": true, "FloatString": true, "ProbablyPrime": true, "Bit": true,
		"TrailingZeroBits": true, "Bits": true, "FillBytes": true, "Load": true,
	}
	n := 0
	for _, fn := range w.pkgFuncs() {
		if !reach[fn] {
			continue
		}
		instrsOf(fn, func(in ssa.Instruction) {
			c, ok := in.(*ssa.Call)
			if !ok || c.Call.IsInvoke() || len(c.Call.Args) == 0 {
				return
			}
			g := calleeFunc(c)
			if g == nil || g.Pkg() == nil || g.Pkg().Path() == twigPath || g.Pkg().Path() == "reflect" || g.Pkg().Path() == "sync" {
				return
			}
			sig, ok := g.Type().(*types.Signature)
			if !ok || sig.Recv() == nil {
				return
			}
			if _, isPtr := sig.Recv().Type().(*types.Pointer); !isPtr {
				return
			}
			src := f.fromData(c.Call.Args[0], map[ssa.Value]bool{}, 0)
			if src == "" {
				return
			}
			n++
			construct := "method " + g.FullName() + " on a data value"
			if readOnly[g.Name()] {
				r.ok("R18.6", ssaName(fn), construct, w.posOf(in.Pos()), "a read-only method", false)
			} else {
				r.bad("R18.6", ssaName(fn), construct, w.posOf(in.Pos()), "the receiver is "+src+" and the method is not known to leave its receiver alone (methods of math/big and the like store their result in the receiver): the render changes a value the caller passed in")
			}
		})
	}
	r.Counts["pointer-receiver methods of foreign types called on data values"] = n
}
