package main

// R03.3 — comparators that put map keys into a canonical order are strict on distinct keys.
//
// A loop over a map is accepted by R03.1 when the keys are sorted first.  That only removes the
// dependence on Go's map iteration order if the comparator never calls two *distinct* keys equal:
// a stable sort leaves such keys in input order, which is the map order again.  Two shape
// conditions are necessary and checked on every comparator that orders reflect.Value keys
// (MapKeys): (a) no constant result is returned on a path that has not compared the two keys
// themselves (comparing only their kinds does not count); (b) the keys are not converted lossily
// (64-bit integers to float) before they are compared, here or in the helpers called.

import (
	"go/token"
	"go/types"
	"strings"

	"golang.org/x/tools/go/ssa"
)

func checkKeyComparators(w *World, r *Report) {
	n := 0
	for _, fn := range w.pkgFuncs() {
		instrsOf(fn, func(in ssa.Instruction) {
			c, ok := in.(*ssa.Call)
			if !ok {
				return
			}
			site, ok := w.sortSiteOf(c)
			if !ok || site.elem == nil || !isReflectValue(site.elem) {
				return
			}
			cmp := site.cmp
			n++
			// (a) constant results only after a comparison of the keys themselves
			isKeyComparison := func(x ssa.Instruction) bool {
				bo, ok := x.(*ssa.BinOp)
				if !ok {
					return false
				}
				switch bo.Op {
				case token.LSS, token.GTR, token.LEQ, token.GEQ, token.EQL, token.NEQ:
				default:
					return false
				}
				if _, isC := bo.X.(*ssa.Const); isC {
					return false
				}
				if _, isC := bo.Y.(*ssa.Const); isC {
					return false
				}
				// kinds are a projection of the key, not the key
				if _, ok := kindCallOn(bo.X); ok {
					return false
				}
				if _, ok := kindCallOn(bo.Y); ok {
					return false
				}
				return true
			}
			construct := "comparator of map keys never calls distinct keys equal"
			bad := ""
			instrsOf(cmp, func(x ssa.Instruction) {
				ret, ok := x.(*ssa.Return)
				if !ok || bad != "" || len(ret.Results) != 1 {
					return
				}
				if cst, isC := ret.Results[0].(*ssa.Const); !isC || cst.Value == nil {
					return
				}
				if b, path := existsPathAvoiding(cmp, x, isKeyComparison, nil); b {
					bad = w.posOf(ret.Pos()) + " (path " + strings.Join(path, " → ") + ")"
				}
			})
			// (b) lossy conversions, in the comparator and the package helpers it calls
			lossy := ""
			lossyText := ""
			seen := map[*ssa.Function]bool{}
			var scan func(g *ssa.Function, depth int)
			scan = func(g *ssa.Function, depth int) {
				if seen[g] || depth > 2 {
					return
				}
				seen[g] = true
				instrsOf(g, func(x ssa.Instruction) {
					switch y := x.(type) {
					case *ssa.Convert:
						src, ok1 := y.X.Type().Underlying().(*types.Basic)
						dst, ok2 := y.Type().Underlying().(*types.Basic)
						if ok1 && ok2 && src.Info()&types.IsInteger != 0 && dst.Info()&types.IsFloat != 0 && (src.Kind() == types.Int64 || src.Kind() == types.Uint64 || src.Kind() == types.Int || src.Kind() == types.Uint || src.Kind() == types.Uintptr) {
							lossy = w.posOf(y.Pos())
						}
					case *ssa.Call:
						if h := y.Call.StaticCallee(); h != nil && isTwigFn(h) {
							scan(h, depth+1)
						}
						// Value.String() of a key that is not known to be of kind String is the
						// same text ("<int Value>") for every key of its type
						if h := y.Call.StaticCallee(); h != nil && h.String() == "(reflect.Value).String" && len(y.Call.Args) == 1 {
							if reflectGuarded(g, reflectSite{in: y, recv: y.Call.Args[0], method: "String", legal: kindSet("String")}) == "" {
								lossyText = w.posOf(y.Pos())
							}
						}
					}
				})
			}
			scan(cmp, 0)
			switch {
			case bad != "":
				r.bad("R03.3", ssaName(fn), construct, w.posOf(c.Pos()), "the comparator returns a constant at "+bad+" without having compared the two keys (only their kinds, or nothing): distinct keys tie, a stable sort keeps them in MapKeys order, and the loop / first / keys result follows Go's random map order")
			case lossyText != "":
				r.bad("R03.3", ssaName(fn), construct, w.posOf(c.Pos()), "keys are compared by reflect.Value.String() ("+lossyText+") without their kind being known to be String: for every other kind that text is the same for all keys (\"<int Value>\"), distinct keys tie and stay in random map order")
			case lossy != "":
				r.bad("R03.3", ssaName(fn), construct, w.posOf(c.Pos()), "keys are converted from a 64-bit integer to float before they are compared ("+lossy+"): distinct integer keys above 2^53 compare equal and stay in random map order")
			default:
				r.ok("R03.3", ssaName(fn), construct, w.posOf(c.Pos()), "every result is a comparison of the keys, or follows one; no lossy conversion of the keys", true)
			}
		})
	}
	r.floor("comparators ordering reflect map keys", n, 1)
}
