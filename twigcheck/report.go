package main

// Obligations, verdicts, known findings, evidence.

import (
	"encoding/json"
	"fmt"
	"os"
	"path/filepath"
	"sort"
	"strings"
	"time"
)

type Verdict string

const (
	Discharged Verdict = "discharged"
	Violation  Verdict = "violation"
	Excepted   Verdict = "excepted"
)

type Oblig struct {
	Rule       string  `json:"rule"`
	Func       string  `json:"function"`
	Construct  string  `json:"construct"`
	Pos        string  `json:"pos"`
	Verdict    Verdict `json:"verdict"`
	By         string  `json:"by,omitempty"`     // sub-rule that discharged it / reason of the exception
	Detail     string  `json:"detail,omitempty"` // for violations: what is wrong, path, …
	NonTrivial bool    `json:"-"`
	Known      bool    `json:"known,omitempty"`
}

func (o *Oblig) key() string { return o.Rule + " | " + o.Func + " | " + o.Construct }

type KnownFinding struct {
	Property  string `json:"property"`
	Rule      string `json:"rule"`
	Function  string `json:"function"`
	Construct string `json:"construct"`
	What      string `json:"what"`
	Status    string `json:"status"` // "open" or "fixed"
	Commit    string `json:"commit,omitempty"`
}

type Report struct {
	Undecided   []string `json:"-"`
	Prop        string
	Tier        string
	Seed        int64
	Explanation string
	RuleText    string
	Trusted     []string
	Assumptions []string
	Obligs      []*Oblig
	Notes       []string
	Counts      map[string]int // free-form analysed-what counters (functions, call sites, …)
	seen        map[string]int
	start       time.Time
}

func newReport(prop, tier string, seed int64) *Report {
	return &Report{Prop: prop, Tier: tier, Seed: seed, Counts: map[string]int{}, seen: map[string]int{}, start: time.Now()}
}

// add registers an obligation; identical keys in one function are numbered (#2, #3, …) in
// source order so that keys stay unique and line-independent.
func (r *Report) add(o *Oblig) *Oblig {
	base := o.key()
	r.seen[base]++
	if n := r.seen[base]; n > 1 {
		o.Construct = fmt.Sprintf("%s #%d", o.Construct, n)
	}
	r.Obligs = append(r.Obligs, o)
	return o
}

func (r *Report) ok(rule, fn, construct, pos, by string, nontrivial bool) {
	r.add(&Oblig{Rule: rule, Func: fn, Construct: construct, Pos: pos, Verdict: Discharged, By: by, NonTrivial: nontrivial})
}

func (r *Report) bad(rule, fn, construct, pos, detail string) {
	r.add(&Oblig{Rule: rule, Func: fn, Construct: construct, Pos: pos, Verdict: Violation, Detail: detail, NonTrivial: true})
}

func (r *Report) except(rule, fn, construct, pos, reason string) {
	r.add(&Oblig{Rule: rule, Func: fn, Construct: construct, Pos: pos, Verdict: Excepted, By: reason, NonTrivial: true})
}

func (r *Report) note(format string, args ...interface{}) {
	r.Notes = append(r.Notes, fmt.Sprintf(format, args...))
}

// floor asserts that a rule found its subject: fewer than min resolved anchors/sites means the
// rule would pass vacuously, which is "cannot decide", not a pass.
// floor: a rule that no longer finds its subject cannot pass.  The failure is recorded and the
// remaining rules of the property still run: what they report is printed as well, and the
// property ends undecided (exit 2) unless a violation was found (exit 1).
func (r *Report) floor(what string, got, min int) {
	r.Counts[what] = got
	if got < min {
		r.Undecided = append(r.Undecided, fmt.Sprintf("vacuity floor: %s = %d, expected at least %d", what, got, min))
	}
}

func loadKnown(path string) []KnownFinding {
	b, err := os.ReadFile(path)
	if err != nil {
		if os.IsNotExist(err) {
			return nil
		}
		cannotDecide("reading %s: %v", path, err)
	}
	var doc struct {
		Findings []KnownFinding `json:"findings"`
	}
	if err := json.Unmarshal(b, &doc); err != nil {
		cannotDecide("parsing %s: %v", path, err)
	}
	return doc.Findings
}

// finish prints the verdict lines, writes the evidence file and returns the exit status.
func (r *Report) finish(verifDir string, evidencePath string, verbose bool) int {
	known := loadKnown(filepath.Join(verifDir, "known_findings.json"))
	openKnown := map[string]KnownFinding{}
	for _, k := range known {
		if k.Property == r.Prop && k.Status == "open" {
			openKnown[k.Rule+" | "+k.Function+" | "+k.Construct] = k
		}
	}
	sort.SliceStable(r.Obligs, func(i, j int) bool { return r.Obligs[i].key() < r.Obligs[j].key() })

	violDir := strings.TrimSuffix(evidencePath, ".json") + ".violations"
	os.RemoveAll(violDir)

	var nDis, nViol, nKnown, nExc, nNT int
	distinct := map[string]bool{}
	var lines []string
	matchedKnown := map[string]bool{}
	for _, o := range r.Obligs {
		if o.NonTrivial && !distinct[o.key()] {
			distinct[o.key()] = true
			nNT++
		}
		switch o.Verdict {
		case Discharged:
			nDis++
		case Excepted:
			nExc++
		case Violation:
			if k, ok := openKnown[o.key()]; ok {
				o.Known = true
				nKnown++
				matchedKnown[o.key()] = true
				lines = append(lines, fmt.Sprintf("KNOWN-FINDING: property=%s rule=%s %s: %s [%s] (%s)", r.Prop, o.Rule, o.Func, k.What, o.Construct, o.Pos))
				continue
			}
			nViol++
			os.MkdirAll(violDir, 0o755)
			p := filepath.Join(violDir, fmt.Sprintf("%d.txt", nViol))
			body := fmt.Sprintf("property: %s\nrule: %s\nfunction: %s\nconstruct: %s\nposition: %s\nwhat: %s\nreproduce: cd /verif && ./check.sh %s quick -only %q -v\n",
				r.Prop, o.Rule, o.Func, o.Construct, o.Pos, o.Detail, r.Prop, o.key())
			os.WriteFile(p, []byte(body), 0o644)
			fmt.Fprintf(os.Stderr, "%s: %s %s %s: %s\n", o.Pos, o.Rule, o.Func, o.Construct, o.Detail)
			lines = append(lines, fmt.Sprintf("VIOLATION property=%s replay=%s", r.Prop, p))
		}
	}
	for key, k := range openKnown {
		if !matchedKnown[key] {
			r.note("known finding no longer reported (stale entry): %s — %s", key, k.What)
		}
	}

	// samples: violations and exceptions first, then non-trivial discharged, then the rest
	var samples []interface{}
	pick := func(f func(o *Oblig) bool, max int) {
		n := 0
		for _, o := range r.Obligs {
			if len(samples) >= 24 || n >= max {
				return
			}
			if f(o) {
				samples = append(samples, o)
				n++
			}
		}
	}
	pick(func(o *Oblig) bool { return o.Verdict == Violation }, 8)
	pick(func(o *Oblig) bool { return o.Verdict == Excepted }, 4)
	pick(func(o *Oblig) bool { return o.Verdict == Discharged && o.NonTrivial }, 10)
	pick(func(o *Oblig) bool { return o.Verdict == Discharged && !o.NonTrivial }, 4)

	if r.Assumptions == nil {
		r.Assumptions = []string{}
	}
	if r.Trusted == nil {
		r.Trusted = []string{}
	}
	if r.Notes == nil {
		r.Notes = []string{}
	}
	if samples == nil {
		samples = []interface{}{}
	}
	perRule := map[string]int{}
	for _, o := range r.Obligs {
		perRule[o.Rule]++
	}
	cov := map[string]interface{}{
		"explanation":         r.Explanation,
		"rule":                r.RuleText,
		"obligations":         len(r.Obligs),
		"discharged":          nDis,
		"excepted":            nExc,
		"known_findings":      nKnown,
		"new_violations":      nViol,
		"evaluations":         len(r.Obligs),
		"distinct_nontrivial": nNT,
		"samples":             samples,
		"per_rule":            perRule,
		"analysed":            r.Counts,
		"trusted_base":        r.Trusted,
		"checker_cmd":         fmt.Sprintf("/verif/check.sh %s %s", r.Prop, r.Tier),
		"notes":               r.Notes,
		"exhaustive":          true,
	}
	ev := map[string]interface{}{
		"property_id": r.Prop,
		"tier":        r.Tier,
		"seed":        r.Seed,
		"level":       "other",
		"coverage":    cov,
		"assumptions": r.Assumptions,
		"wall_s":      time.Since(r.start).Seconds(),
		"violations":  nViol,
	}
	b, _ := json.MarshalIndent(ev, "", " ")
	os.MkdirAll(filepath.Dir(evidencePath), 0o755)
	if err := os.WriteFile(evidencePath, append(b, '\n'), 0o644); err != nil {
		cannotDecide("writing evidence: %v", err)
	}

	if verbose {
		for _, o := range r.Obligs {
			fmt.Printf("  %-10s %-9s %-45s %-50s %s %s%s\n", o.Verdict, o.Rule, o.Func, o.Construct, o.Pos, o.By, o.Detail)
		}
		for _, n := range r.Notes {
			fmt.Println("  note:", n)
		}
	}
	var keys []string
	for k := range r.Counts {
		keys = append(keys, k)
	}
	sort.Strings(keys)
	var cs []string
	for _, k := range keys {
		cs = append(cs, fmt.Sprintf("%s=%d", k, r.Counts[k]))
	}
	fmt.Printf("%s %s: obligations=%d discharged=%d excepted=%d known=%d violations=%d nontrivial=%d [%s]\n",
		r.Prop, r.Tier, len(r.Obligs), nDis, nExc, nKnown, nViol, nNT, strings.Join(cs, " "))
	for _, l := range lines {
		fmt.Println(l)
	}
	if nViol > 0 {
		return 1
	}
	return 0
}

func (r *Report) hasViolations() bool {
	for _, o := range r.Obligs {
		if o.Verdict == Violation {
			return true
		}
	}
	return false
}
