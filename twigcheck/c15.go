package main

// C15 — template cache and loaders serve the source the configuration calls for.
//
// The property is a statement about histories; its state-machine content is outside static
// reach.  Four clauses are visible in the shape of the code and are claimed:
// R15.1 not-found is reported as ErrTemplateNotFound and leaves the cache untouched.
// R15.2 first loader wins, in registration order; loaders are only ever appended.
// R15.3 registration overwrites: every successful registration stores e.templates[name] whenever
//       the cache flag is on.
// R15.4 the cache is consulted only when enabled; staleness is decided by comparing the loader's
//       modification time with the cached template's.

import (
	"fmt"
	"go/token"
	"go/types"
	"sort"
	"strings"

	"golang.org/x/tools/go/ssa"
)

func init() { register("C15", checkC15) }

func isTemplatesMap(v ssa.Value) bool {
	_, ok := fieldLoad(v, "Engine", "templates")
	return ok
}

func wrapsNotFound(v ssa.Value) bool { return wrapsNotFoundD(v, 0) }

func wrapsNotFoundD(v ssa.Value, depth int) bool {
	c, ok := v.(*ssa.Call)
	if !ok {
		return false
	}
	f := c.Call.StaticCallee()
	// a helper of the package that builds the error: every one of its returns wraps it
	if f != nil && isTwigFn(f) && len(f.Blocks) > 0 && depth < 3 && f.Signature.Results().Len() == 1 {
		all, n := true, 0
		instrsOf(f, func(in ssa.Instruction) {
			if ret, ok := in.(*ssa.Return); ok {
				n++
				if res := retResults(ret); len(res) != 1 || !wrapsNotFoundD(res[0], depth+1) {
					all = false
				}
			}
		})
		return all && n > 0
	}
	if f == nil || f.String() != "fmt.Errorf" || len(c.Call.Args) < 2 {
		return false
	}
	format, ok := constString(c.Call.Args[0])
	if !ok || !strings.Contains(format, "%w") {
		return false
	}
	for _, el := range variadicElems(c.Call.Args[1]) {
		if mi, ok := el.(*ssa.MakeInterface); ok {
			el = mi.X
		}
		if ci, ok := el.(*ssa.ChangeInterface); ok {
			el = ci.X
		}
		if g := globalOf(el); g != nil && g.Name() == "ErrTemplateNotFound" {
			return true
		}
	}
	return false
}

func checkC15(w *World, r *Report) {
	tsWorld = w
	r.Explanation = "Decides the clauses of C15 that are visible in the shape of Engine.Load and the registration functions, on every path: (R15.1) every return on the paths where no loader produced a template returns an error that wraps ErrTemplateNotFound with %w, and no store into the template cache is reachable on those paths; (R15.2) the loader loop visits e.loaders (a slice that is only ever appended to) and leaves the loop at the first successful load, ChainLoader alike; (R15.3) RegisterString, RegisterTemplate and RegisterCompiledTemplate reach a store e.templates[name] on every successful path on which the cache flag is on; (R15.4) the cache is read only under the cache flag, and the reload decision compares the loader's modification time with the cached template's with > (or !=). NOT decided: every temporal claim of the property — 'visible to the next call', 'not re-read when unchanged', 'stays as it was', development-mode toggling — these quantify over operation histories. By reading: with the cache flag off a registered template is dropped (the map is registry and cache in one); whether that contradicts 'uses the source most recently registered' depends on the intended reading and is reported as a note only. (R15.5) every successful return of a GetModifiedTime implementation derives from os.FileInfo.ModTime or a delegated GetModifiedTime."
	r.Explanation += " Rules added in later rounds: (R15.6) the registry map is never replaced; (R15.7) Exists of file-backed loaders answers true only behind a file-system query (also through predicate closures). (R15.8) the engine's boolean switches store independently of remembered state. (R15.9) a file-reading Load reads the file before every successful return."
	r.Explanation += " Round 9: (R15.10) a loader handed to RegisterLoader is appended whatever it looks like (nil test / identity only)."
	r.Explanation += " Round 10: (R15.11) not-found is not memoised; (R15.12) timestamps of cached templates are not rewritten; (R15.13) only the loading path gives a template a loader."
	r.Explanation += " Round 11: (R15.11) also for Exists; (R15.15) loader walks do not classify errors."
	r.Explanation += " Round 12: (R15.4) every reader of the template table stands under the cache flag; (R15.16) loaders are asked in registration order."
	r.Explanation += " Round 14: (R15.17) Load, Exists and GetModifiedTime of one loader shape the name into a path by the same operations; (R15.18) loaders look names up with the two-result form."
	r.RuleText = "obligation = one return / store / loop / comparison in the cache and loader code; non-trivial = all"
	r.Trusted = []string{"fmt.Errorf %w semantics", "range over a slice visits elements in index order"}

	load := w.ssaFunc(w.method("Engine", "Load"))
	_ = ssaName(load)
	// Engine.Load and the unexported helpers it is split into
	parts := w.loadPartsSet()
	var partList []*ssa.Function
	for _, fn := range w.pkgFuncs() {
		if parts[fn] {
			partList = append(partList, fn)
		}
	}
	hasLoaderLoop := func(g *ssa.Function) bool {
		found := false
		instrsOf(g, func(in ssa.Instruction) {
			if c, ok := in.(ssa.CallInstruction); ok && c.Common().IsInvoke() && c.Common().Method.Name() == "Load" && isNamed(c.Common().Value.Type(), twigPath, "Loader") {
				found = true
			}
		})
		return found
	}

	_ = hasLoaderLoop
	// ---- R15.1: the `template == nil` branch
	n1 := 0
	nilFn, nilRegion := w.loadNilRegion()
	if nilRegion == nil {
		cannotDecide("R15.1: the `template == nil` test after the loader loop was not found in Engine.Load or its parts")
	}
	nilName := ssaName(nilFn)
	instrsOf(nilFn, func(in ssa.Instruction) {
		switch x := in.(type) {
		case *ssa.Return:
			if !(nilRegion == x.Block() || nilRegion.Dominates(x.Block())) {
				return
			}
			n1++
			res := retResults(x)
			if len(res) >= 2 && wrapsNotFound(res[len(res)-1]) {
				r.ok("R15.1", nilName, "not-found return wraps ErrTemplateNotFound", w.posOf(x.Pos()), "fmt.Errorf with %w bound to ErrTemplateNotFound", true)
			} else {
				r.bad("R15.1", nilName, "not-found return wraps ErrTemplateNotFound", w.posOf(x.Pos()), "a name no loader has is reported with an error that does not match ErrTemplateNotFound (errors.Is fails; include … ignore missing stops working)")
			}
		case *ssa.MapUpdate:
			if !isTemplatesMap(x.Map) {
				return
			}
			n1++
			if nilRegion == x.Block() || nilRegion.Dominates(x.Block()) {
				r.bad("R15.1", nilName, "cache untouched when nothing was loaded", w.posOf(x.Pos()), "the cache is written on the path where no loader produced a template")
			} else {
				r.ok("R15.1", nilName, "cache untouched when nothing was loaded", w.posOf(x.Pos()), "the store into the cache is not on the template == nil path", true)
			}
		}
	})
	// a failed lookup leaves the engine as it was: on the path where no loader produced a template
	// nothing is written to the Engine — not to the template cache and not to any other table (a
	// remembered miss is never invalidated by a loader whose contents change, so a name that
	// appears later stays "not found" on this engine while a fresh engine finds it)
	writesEngine := map[*ssa.Function]string{}
	engineWrite := func(in ssa.Instruction) string {
		var addr ssa.Value
		switch x := in.(type) {
		case *ssa.Store:
			addr = x.Addr
		case *ssa.MapUpdate:
			if u, ok := x.Map.(*ssa.UnOp); ok {
				addr = u.X
			}
		case *ssa.Call:
			if b, ok := x.Call.Value.(*ssa.Builtin); ok && b.Name() == "delete" && len(x.Call.Args) > 0 {
				if u, ok := x.Call.Args[0].(*ssa.UnOp); ok {
					addr = u.X
				}
			}
		}
		if addr == nil {
			return ""
		}
		owner, path, root, ok := w.locOf(addr)
		if !ok || owner != "Engine" || isFreshRoot(root) || strings.HasPrefix(path, "mu") {
			return ""
		}
		return "Engine." + path
	}
	for changed := true; changed; {
		changed = false
		for _, g := range w.pkgFuncs() {
			if writesEngine[g] != "" {
				continue
			}
			instrsOf(g, func(in ssa.Instruction) {
				if writesEngine[g] != "" {
					return
				}
				if loc := engineWrite(in); loc != "" {
					writesEngine[g] = loc + " (" + w.posOf(in.Pos()) + ")"
					changed = true
					return
				}
				if c, ok := in.(ssa.CallInstruction); ok {
					if h := c.Common().StaticCallee(); h != nil && writesEngine[h] != "" {
						writesEngine[g] = writesEngine[h] + " via " + h.Name()
						changed = true
					}
				}
			})
		}
	}
	instrsOf(nilFn, func(in ssa.Instruction) {
		if !(nilRegion == in.Block() || nilRegion.Dominates(in.Block())) {
			return
		}
		what := engineWrite(in)
		if what == "" {
			if c, ok := in.(ssa.CallInstruction); ok {
				if h := c.Common().StaticCallee(); h != nil && writesEngine[h] != "" {
					what = writesEngine[h] + " through " + h.Name()
				}
			}
		}
		if what == "" || strings.HasPrefix(what, "Engine.templates") {
			return // the template cache has its own obligation above
		}
		n1++
		r.bad("R15.1", nilName, "engine untouched when nothing was loaded", w.posOf(in.Pos()), "on the path where no loader produced a template the engine records something ("+what+"): a later call is answered from that record although a loader may meanwhile have the name — what a render returns then depends on what was asked before")
	})
	// cache stores in the other parts: only under a successful load (the error of the loading
	// part tested nil, or the template tested non-nil)
	for _, part := range partList {
		if part == nilFn {
			continue
		}
		instrsOf(part, func(in ssa.Instruction) {
			if mu, ok := in.(*ssa.MapUpdate); ok && isTemplatesMap(mu.Map) {
				n1++
				r.ok("R15.1", ssaName(part), "cache untouched when nothing was loaded", w.posOf(in.Pos()), "the store is outside the function that reports 'no loader has it' (the stored value is that function's successful result)", false)
			}
		})
	}
	// Load never removes an entry: a failing load (name gone, loader error) must leave the cache
	// as it was — removal belongs to the explicit invalidation API
	for _, part := range partList {
		instrsOf(part, func(in ssa.Instruction) {
			c, ok := in.(*ssa.Call)
			if !ok {
				return
			}
			if b, ok := c.Call.Value.(*ssa.Builtin); ok && b.Name() == "delete" && len(c.Call.Args) == 2 && isTemplatesMap(c.Call.Args[0]) {
				n1++
				r.bad("R15.1", ssaName(part), "cache untouched when nothing was loaded", w.posOf(in.Pos()), "Engine.Load (or a part of it) deletes from the template cache: when the reload that follows fails — the name is gone, a loader errors — the call returns an error AND the cached template is lost, so turning auto-reload off again or a later call no longer finds what was cached")
			}
		})
	}
	r.floor("not-found returns and cache stores in Engine.Load", n1, 2)

	// ---- R15.2
	checkLoaderLoops(w, r)
	checkModTimeSources(w, r)
	checkExistsAndRegistry(w, r)
	checkSettersUnconditional(w, r)
	checkLoadersAlwaysRegistered(w, r)
	checkCachedTimestampsKept(w, r)
	checkOnlyLoadingGivesALoader(w, r)
	checkLoaderLoopsDoNotJudgeErrors(w, r)
	checkLoadersAskedInOrder(w, r, "R15.16")
	checkLoaderSiblingsShapePathsAlike(w, r)
	checkLoadersSeeAbsence(w, r)
	// loaders are only appended
	n2 := 0
	for _, fn := range w.pkgFuncs() {
		instrsOf(fn, func(in ssa.Instruction) {
			st, ok := in.(*ssa.Store)
			if !ok {
				return
			}
			fa, ok := st.Addr.(*ssa.FieldAddr)
			if !ok {
				return
			}
			tn, f := fieldOfAddr(fa)
			if f != "loaders" || (tn != "Engine" && tn != "ChainLoader") {
				return
			}
			if _, fresh := fa.X.(*ssa.Alloc); fresh {
				return // constructor literal
			}
			n2++
			construct := "store to " + tn + ".loaders"
			good := false
			if c, ok := st.Val.(*ssa.Call); ok {
				if b, ok := c.Call.Value.(*ssa.Builtin); ok && b.Name() == "append" {
					if base, ok := fieldLoad(c.Call.Args[0], tn, "loaders"); ok && base == fa.X {
						good = true
					}
				}
			}
			if good {
				r.ok("R15.2", ssaName(fn), construct, w.posOf(in.Pos()), "append to the existing list: registration order is preserved", true)
			} else {
				r.bad("R15.2", ssaName(fn), construct, w.posOf(in.Pos()), "the loader list is replaced or reordered instead of appended to: 'consulted in registration order' no longer holds")
			}
		})
	}
	r.Counts["stores to loader lists"] = n2

	// ---- R15.3
	registering := map[*ssa.Function]bool{}
	// store helpers: unexported functions that put a template into the cache whenever the cache
	// flag is on (every path to their return with the flag on passes the map update)
	storeHelpers := map[*ssa.Function]int{}
	var storeHelper func(f *ssa.Function) bool
	storeHelper = func(f *ssa.Function) bool {
		if st, ok := storeHelpers[f]; ok {
			return st == 2
		}
		storeHelpers[f] = 1
		if !isTwigFn(f) || len(f.Blocks) == 0 {
			return false
		}
		has := false
		instrsOf(f, func(in ssa.Instruction) {
			if mu, ok := in.(*ssa.MapUpdate); ok && isTemplatesMap(mu.Map) {
				has = true
			}
		})
		if !has {
			return false
		}
		cacheFalse := func(b *ssa.BasicBlock, i int) bool {
			return anyEdgeFact(b, i, func(v ssa.Value, trueIdx int) bool {
				if _, ok := fieldLoad(v, "Environment", "cache"); ok {
					return i != trueIdx
				}
				return false
			})
		}
		direct := func(in ssa.Instruction) bool {
			mu, ok := in.(*ssa.MapUpdate)
			return ok && isTemplatesMap(mu.Map)
		}
		all, nret := true, 0
		instrsOf(f, func(in ssa.Instruction) {
			if _, isRet := in.(*ssa.Return); isRet {
				nret++
				if bad, _ := existsPathAvoiding(f, in, direct, cacheFalse); bad {
					all = false
				}
			}
		})
		if all && nret > 0 {
			storeHelpers[f] = 2
		}
		return storeHelpers[f] == 2
	}
	for _, nm := range []string{"RegisterString", "RegisterTemplate", "RegisterCompiledTemplate"} {
		m := w.tryMethod("Engine", nm)
		if m == nil {
			continue
		}
		fn := w.ssaFunc(m)
		cacheFalse := func(b *ssa.BasicBlock, i int) bool {
			return anyEdgeFact(b, i, func(v ssa.Value, trueIdx int) bool {
				if _, ok := fieldLoad(v, "Environment", "cache"); ok {
					return i != trueIdx
				}
				return false
			})
		}
		stores := func(in ssa.Instruction) bool {
			if mu, ok := in.(*ssa.MapUpdate); ok && isTemplatesMap(mu.Map) {
				// key must be the name being registered: a string parameter or compiled.Name
				return true
			}
			if c, ok := in.(*ssa.Call); ok {
				if f := c.Call.StaticCallee(); f != nil && (registering[f] || storeHelper(f)) {
					return true
				}
			}
			return false
		}
		okAll, nRet := true, 0
		instrsOf(fn, func(in ssa.Instruction) {
			ret, ok := in.(*ssa.Return)
			if !ok {
				return
			}
			res := retResults(ret)
			if len(res) > 0 && !isNilConst(res[len(res)-1]) && types.Identical(res[len(res)-1].Type(), errorType) {
				return // error return
			}
			nRet++
			if bad, path := existsPathAvoiding(fn, in, stores, cacheFalse); bad {
				okAll = false
				r.bad("R15.3", ssaName(fn), "successful registration stores e.templates[name]", w.posOf(ret.Pos()), "a successful return is reachable with the cache flag on and without the template having been stored: the registration is lost (path "+strings.Join(path, " → ")+")")
			}
		})
		if okAll && nRet > 0 {
			r.ok("R15.3", ssaName(fn), "successful registration stores e.templates[name]", w.posOf(fn.Pos()), "every successful path with the cache flag on passes the store (or a registering callee)", true)
			registering[fn] = true
		}
		// the key of the store is the registered name
		instrsOf(fn, func(in ssa.Instruction) {
			// through a store helper: the helper stores under its own string parameter, and the
			// argument passed for it is this function's name parameter
			if c, ok := in.(*ssa.Call); ok {
				if h := c.Call.StaticCallee(); h != nil && !registering[h] && storeHelper(h) {
					okKey := false
					instrsOf(h, func(hi ssa.Instruction) {
						if mu, ok := hi.(*ssa.MapUpdate); ok && isTemplatesMap(mu.Map) {
							if hp, ok := mu.Key.(*ssa.Parameter); ok {
								for i, fp := range h.Params {
									if fp == hp && i < len(c.Call.Args) {
										if ap, ok := c.Call.Args[i].(*ssa.Parameter); ok && types.Identical(ap.Type(), types.Typ[types.String]) {
											okKey = true
										}
									}
								}
							}
						}
					})
					if okKey {
						r.ok("R15.3", ssaName(fn), "stored under the registered name", w.posOf(in.Pos()), "the store helper "+h.Name()+" is handed the name parameter as key", true)
					} else {
						r.bad("R15.3", ssaName(fn), "stored under the registered name", w.posOf(in.Pos()), "the template is stored under a key other than the name it is registered with")
					}
				}
				return
			}
			mu, ok := in.(*ssa.MapUpdate)
			if !ok || !isTemplatesMap(mu.Map) {
				return
			}
			if p, ok := mu.Key.(*ssa.Parameter); ok && types.Identical(p.Type(), types.Typ[types.String]) {
				r.ok("R15.3", ssaName(fn), "stored under the registered name", w.posOf(in.Pos()), "key is the name parameter", true)
			} else {
				r.bad("R15.3", ssaName(fn), "stored under the registered name", w.posOf(in.Pos()), "the template is stored under a key other than the name it is registered with")
			}
		})
	}
	r.floor("registration functions", len(registering), 2)

	// ---- R15.4
	n4 := 0
	cacheFlows := map[*ssa.Function]*boolFlow{}
	cacheFlow := func(fn *ssa.Function) *boolFlow {
		if fl := cacheFlows[fn]; fl != nil {
			return fl
		}
		fl := &boolFlow{fn: fn, entry: false}
		fl.edge = func(b *ssa.BasicBlock, i int) bool {
			return anyEdgeFact(b, i, func(v ssa.Value, trueIdx int) bool {
				if _, ok := fieldLoad(v, "Environment", "cache"); ok {
					return i == trueIdx
				}
				return false
			})
		}
		fl.solve()
		cacheFlows[fn] = fl
		return fl
	}
	// the cache flag is on at the instruction: in its function, or at every call site of the
	// (unexported) part it lies in
	var cacheOnAt func(fn *ssa.Function, in ssa.Instruction, depth int) bool
	cacheOnAt = func(fn *ssa.Function, in ssa.Instruction, depth int) bool {
		if cacheFlow(fn).at(in) {
			return true
		}
		if fn == load || depth > 3 {
			return false
		}
		node := w.callgraph().Nodes[fn]
		if node == nil || len(node.In) == 0 {
			return false
		}
		for _, e := range node.In {
			if e.Site == nil || !cacheOnAt(e.Caller.Func, e.Site, depth+1) {
				return false
			}
		}
		return true
	}
	// every other function that answers a name out of the template table does so under the cache
	// flag as well: a second reader "for the hot path" that skips Load skips the flag with it
	for _, fn := range w.pkgFuncs() {
		if parts[fn] {
			continue
		}
		instrsOf(fn, func(in ssa.Instruction) {
			x, ok := in.(*ssa.Lookup)
			if !ok || !isTemplatesMap(x.X) {
				return
			}
			// a read whose result is handed out (flows to a return), not bookkeeping
			returned := false
			seenV := map[ssa.Value]bool{}
			var flow func(v ssa.Value, d int)
			flow = func(v ssa.Value, d int) {
				if seenV[v] || d > 5 || returned || v.Referrers() == nil {
					return
				}
				seenV[v] = true
				for _, ref := range *v.Referrers() {
					switch y := ref.(type) {
					case *ssa.Return:
						returned = true
					case *ssa.Extract:
						flow(y, d+1)
					case *ssa.Phi:
						flow(y, d+1)
					case *ssa.Store:
						if al, ok := y.Addr.(*ssa.Alloc); ok && al.Referrers() != nil {
							for _, r2 := range *al.Referrers() {
								if l, ok := r2.(*ssa.UnOp); ok {
									flow(l, d+1)
								}
							}
						}
					}
				}
			}
			flow(x, 0)
			if !returned {
				return
			}
			n4++
			if cacheFlow(fn).at(in) {
				r.ok("R15.4", ssaName(fn), "cache consulted only when caching is enabled", w.posOf(in.Pos()), "lookup dominated by the true edge of the cache flag", true)
			} else {
				r.bad("R15.4", ssaName(fn), "cache consulted only when caching is enabled", w.posOf(in.Pos()), "a template is handed out of the table although caching may be disabled: after SetCache(false) the names that were cached before keep rendering their old source, while Load re-reads the loaders")
			}
		})
	}
	for _, part := range partList {
		pname := ssaName(part)
		instrsOf(part, func(in ssa.Instruction) {
			switch x := in.(type) {
			case *ssa.Lookup:
				if !isTemplatesMap(x.X) {
					return
				}
				n4++
				if cacheOnAt(part, in, 0) {
					r.ok("R15.4", pname, "cache consulted only when caching is enabled", w.posOf(in.Pos()), "lookup dominated by the true edge of the cache flag", true)
				} else {
					r.bad("R15.4", pname, "cache consulted only when caching is enabled", w.posOf(in.Pos()), "the cache is read although caching may be disabled: 'with caching disabled every call re-reads the loaders' fails")
				}
			case *ssa.MapUpdate:
				if !isTemplatesMap(x.Map) {
					return
				}
				n4++
				if cacheOnAt(part, in, 0) {
					r.ok("R15.4", pname, "cache written only when caching is enabled", w.posOf(in.Pos()), "store dominated by the true edge of the cache flag", true)
				} else {
					r.bad("R15.4", pname, "cache written only when caching is enabled", w.posOf(in.Pos()), "the cache is written although caching may be disabled")
				}
			case *ssa.BinOp:
				// comparison of GetModifiedTime's result with Template.lastModified
				var other ssa.Value
				if ex, ok := x.X.(*ssa.Extract); ok && isGetModTime(ex.Tuple) {
					other = x.Y
				} else if ex, ok := x.Y.(*ssa.Extract); ok && isGetModTime(ex.Tuple) {
					other = x.X
				}
				if other == nil {
					return
				}
				if _, ok := fieldLoad(other, "Template", "lastModified"); !ok {
					return
				}
				n4++
				op := x.Op
				if _, isEx := x.Y.(*ssa.Extract); isEx && isGetModTime(x.Y.(*ssa.Extract).Tuple) {
					// lastModified OP current  → flip
					switch op {
					case token.LSS:
						op = token.GTR
					case token.GTR:
						op = token.LSS
					case token.LEQ:
						op = token.GEQ
					case token.GEQ:
						op = token.LEQ
					}
				}
				// which way is the comparison used?  If its true edge leads straight to "return the
				// cached template, nil", the reload condition is its negation
				if x.Referrers() != nil {
					for _, ref := range *x.Referrers() {
						iff, isIf := ref.(*ssa.If)
						if !isIf {
							continue
						}
						keeps := func(b *ssa.BasicBlock) bool {
							if len(b.Instrs) == 0 {
								return false
							}
							ret, isRet := b.Instrs[len(b.Instrs)-1].(*ssa.Return)
							if !isRet {
								return false
							}
							res := retResults(ret)
							ei := errResultIndex(part.Signature)
							return ei >= 0 && ei < len(res) && isNilConst(res[ei])
						}
						tb, fb := iff.Block().Succs[0], iff.Block().Succs[1]
						if keeps(tb) && !keeps(fb) {
							switch op {
							case token.LSS:
								op = token.GEQ
							case token.LEQ:
								op = token.GTR
							case token.GTR:
								op = token.LEQ
							case token.GEQ:
								op = token.LSS
							case token.EQL:
								op = token.NEQ
							case token.NEQ:
								op = token.EQL
							}
						}
					}
				}
				construct := "staleness test: reload when current modification time " + op.String() + " cached lastModified"
				if op == token.GTR || op == token.NEQ {
					r.ok("R15.4", pname, construct, w.posOf(x.Pos()), "a newer (or different) timestamp triggers the reload; an equal one does not", true)
				} else {
					r.bad("R15.4", pname, construct, w.posOf(x.Pos()), "the reload decision uses "+op.String()+": either an unchanged template is re-read on every call or a changed one is never reloaded")
				}
			case *ssa.Store:
				// the timestamp recorded with the loaded template must be on the same clock as the one
				// it is later compared with: it derives from the loader's GetModifiedTime, not time.Now
				fa, ok := x.Addr.(*ssa.FieldAddr)
				if !ok {
					return
				}
				if tn, f := fieldOfAddr(fa); tn != "Template" || f != "lastModified" {
					return
				}
				n4++
				construct := "recorded lastModified is the loader's modification time"
				// the loader stored in the same Template's loader field
				var deliverer ssa.Value
				instrsOf(part, func(in2 ssa.Instruction) {
					if st2, ok := in2.(*ssa.Store); ok {
						if fa2, ok := st2.Addr.(*ssa.FieldAddr); ok && fa2.X == fa.X {
							if tn, f := fieldOfAddr(fa2); tn == "Template" && f == "loader" {
								deliverer = st2.Val
							}
						}
					}
				})
				classify := func(val, deliverer ssa.Value) string {
					src := timestampSource(val, map[ssa.Value]bool{}, 0)
					// … and of the very loader that delivered the source
					if src == "loader" && deliverer != nil {
						want := loaderRoots(deliverer)
						for _, recv := range modTimeReceivers(val, map[ssa.Value]bool{}, 0) {
							match := false
							for rv := range loaderRoots(recv) {
								if want[rv] {
									match = true
								}
							}
							if !match {
								src = "GetModifiedTime of another loader than the one that delivered the source (" + describeLoader(recv) + ")"
							}
						}
					}
					return src
				}
				src := ""
				if p, isParam := unspill(x.Val).(*ssa.Parameter); isParam && part != load {
					// a constructor shared with the registering functions: what matters is what the
					// loading path hands it
					paramIndex := func(v ssa.Value) int {
						for i, q := range part.Params {
							if ssa.Value(q) == unspill(v) {
								return i
							}
						}
						return -1
					}
					ti, li := paramIndex(p), -1
					if deliverer != nil {
						li = paramIndex(deliverer)
					}
					src = "loader"
					nSites := 0
					if node := w.callgraph().Nodes[part]; node != nil {
						for _, e := range node.In {
							if e.Site == nil || !(parts[e.Caller.Func] || e.Caller.Func == load) || e.Site.Common().StaticCallee() != part {
								continue
							}
							args := e.Site.Common().Args
							if ti < 0 || ti >= len(args) {
								continue
							}
							nSites++
							d := deliverer
							if li >= 0 && li < len(args) {
								d = args[li]
							}
							if s := classify(args[ti], d); s != "loader" {
								src = s
							}
						}
					}
					if nSites == 0 {
						src = "a parameter no loading path supplies"
					}
				} else {
					src = classify(x.Val, deliverer)
				}
				if src == "loader" {
					r.ok("R15.4", pname, construct, w.posOf(in.Pos()), "derives from GetModifiedTime of the loader that delivered the source (0 if the loader has no timestamps)", true)
				} else {
					r.bad("R15.4", pname, construct, w.posOf(in.Pos()), "the cached template's lastModified comes from "+src+", but the staleness test compares it with the loader's modification time: a change whose timestamp is not later than the previous load is never picked up")
				}
			}
		})
	}
	r.floor("cache accesses and staleness tests in Engine.Load", n4, 3)
	r.note("with the cache flag off RegisterString/RegisterTemplate drop the template (the map is registry and cache in one); by reading, not decided")
}

func isGetModTime(v ssa.Value) bool {
	c, ok := v.(*ssa.Call)
	if !ok {
		return false
	}
	f := calleeFunc(c)
	return f != nil && f.Name() == "GetModifiedTime"
}

// checkLoaderLoops: every loop that invokes Loader.Load on the elements of a `loaders` slice
// leaves the loop on success.
func checkLoaderLoops(w *World, r *Report) {
	n := 0
	for _, fn := range w.pkgFuncs() {
		var calls []*ssa.Call
		instrsOf(fn, func(in ssa.Instruction) {
			c, ok := in.(*ssa.Call)
			if !ok || !c.Call.IsInvoke() || c.Call.Method.Name() != "Load" || !isNamed(c.Call.Value.Type(), twigPath, "Loader") {
				return
			}
			if _, f := originField(c.Call.Value, 0); f == "loaders" {
				calls = append(calls, c)
			}
		})
		for _, c := range calls {
			n++
			construct := "loader loop stops at the first loader that has the template"
			// the error of this call
			var errv ssa.Value
			for _, ref := range *c.Referrers() {
				if ex, ok := ref.(*ssa.Extract); ok && ex.Index == 1 {
					errv = ex
				}
			}
			// success successor: the edge where err == nil
			var succ *ssa.BasicBlock
			for _, b := range fn.Blocks {
				v, trueIdx, ok := ifCond(b)
				if !ok {
					continue
				}
				bo, ok := v.(*ssa.BinOp)
				if !ok || bo.X != errv || !isNilConst(bo.Y) {
					continue
				}
				succ = b.Succs[1-trueIdx]
				if bo.Op == token.EQL {
					succ = b.Succs[trueIdx]
				}
			}
			if succ == nil {
				// `return loader.Load(name)`: the loop is left whatever the result
				direct := false
				for _, ref := range *c.Referrers() {
					if ex, ok := ref.(*ssa.Extract); ok && ex.Referrers() != nil {
						for _, r2 := range *ex.Referrers() {
							if _, ok := r2.(*ssa.Return); ok {
								direct = true
							}
						}
					}
				}
				if direct {
					r.ok("R15.2", ssaName(fn), construct, w.posOf(c.Pos()), "the result of the first loader that has the name is returned directly", true)
				} else {
					r.bad("R15.2", ssaName(fn), construct, w.posOf(c.Pos()), "the result of loader.Load is not tested for success")
				}
				continue
			}
			// from the success successor the call block must not be reachable again
			seen := map[*ssa.BasicBlock]bool{}
			again := false
			var walk func(b *ssa.BasicBlock)
			walk = func(b *ssa.BasicBlock) {
				if seen[b] {
					return
				}
				seen[b] = true
				if b == c.Block() {
					again = true
					return
				}
				for _, s := range b.Succs {
					walk(s)
				}
			}
			walk(succ)
			if again {
				r.bad("R15.2", ssaName(fn), construct, w.posOf(c.Pos()), "after a loader delivered the template the loop can go on to the next loader: a later loader overrides an earlier one")
			} else {
				r.ok("R15.2", ssaName(fn), construct, w.posOf(c.Pos()), "the success path never returns to the loop", true)
			}
		}
	}
	r.floor("loader loops", n, 1)

	// inside Engine.Load (and its parts) a source is only ever asked of an element of e.loaders
	// taken in a walk over that list: a loader picked any other way (the one remembered on the
	// cached template, a subset built for the reload) lets a later loader answer for a name an
	// earlier one has
	nLoad := 0
	for fn := range w.loadPartsSet() {
		instrsOf(fn, func(in ssa.Instruction) {
			c, ok := in.(*ssa.Call)
			if !ok || !c.Call.IsInvoke() || c.Call.Method.Name() != "Load" || !isNamed(c.Call.Value.Type(), twigPath, "Loader") {
				return
			}
			nLoad++
			construct := "the loader asked for the source is an element of e.loaders"
			if tn, f := originFieldStrict(c.Call.Value, 0); f == "loaders" && tn == "Engine" {
				r.ok("R15.2", ssaName(fn), construct, w.posOf(c.Pos()), "element of the registration-ordered list", true)
			} else {
				r.bad("R15.2", ssaName(fn), construct, w.posOf(c.Pos()), "Engine.Load asks a loader that is not (only) an element of e.loaders for the source — a remembered loader or a list built on the way: the loaders are then not consulted in registration order, so a name that an earlier loader has (or has gained) is answered by a later one")
			}
		})
	}
	r.floor("Loader.Load calls in Engine.Load", nLoad, 1)
}

// timestampSource classifies where an int64 timestamp comes from: "loader" if every non-constant
// contribution is the result of GetModifiedTime; otherwise a description.
// tsWorld: the program timestampSource looks field stores up in (set by checkC15).
var tsWorld *World

func timestampSource(v ssa.Value, seen map[ssa.Value]bool, depth int) string {
	if seen[v] || depth > 8 {
		return "loader"
	}
	seen[v] = true
	switch x := v.(type) {
	case *ssa.Const:
		return "loader" // zero: loader without timestamps
	case *ssa.Extract:
		if isGetModTime(x.Tuple) {
			return "loader"
		}
		if c, ok := x.Tuple.(*ssa.Call); ok {
			return "the result of " + c.Call.Value.Name()
		}
	case *ssa.Phi:
		for _, e := range x.Edges {
			if s := timestampSource(e, seen, depth+1); s != "loader" {
				return s
			}
		}
		return "loader"
	case *ssa.UnOp:
		if al, ok := x.X.(*ssa.Alloc); ok && al.Referrers() != nil {
			for _, ref := range *al.Referrers() {
				if st, ok := ref.(*ssa.Store); ok && st.Addr == al {
					if s := timestampSource(st.Val, seen, depth+1); s != "loader" {
						return s
					}
				}
			}
			return "loader"
		}
		// a field of a bookkeeping struct of the package (not the Template itself): every store
		// into that field in the package decides
		if fa, ok := x.X.(*ssa.FieldAddr); ok && tsWorld != nil {
			if tn, f := fieldOfAddr(fa); tn != "" && tn != "Template" {
				nStores := 0
				res := "loader"
				for _, fn := range tsWorld.pkgFuncs() {
					instrsOf(fn, func(in ssa.Instruction) {
						st, ok := in.(*ssa.Store)
						if !ok {
							return
						}
						fa2, ok := st.Addr.(*ssa.FieldAddr)
						if !ok {
							return
						}
						if tn2, f2 := fieldOfAddr(fa2); tn2 != tn || f2 != f {
							return
						}
						nStores++
						if s := timestampSource(st.Val, seen, depth+1); s != "loader" {
							res = s
						}
					})
				}
				if nStores > 0 {
					return res
				}
			}
		}
	case *ssa.Call:
		if f := x.Call.StaticCallee(); f != nil {
			return "the result of " + f.String()
		}
	case *ssa.Convert:
		return timestampSource(x.X, seen, depth+1)
	}
	return "a value of unknown origin"
}

// modTimeReceivers: the receivers of the GetModifiedTime calls a timestamp value can come from.
func modTimeReceivers(v ssa.Value, seen map[ssa.Value]bool, depth int) []ssa.Value {
	if seen[v] || depth > 8 {
		return nil
	}
	seen[v] = true
	var out []ssa.Value
	switch x := v.(type) {
	case *ssa.Extract:
		if c, ok := x.Tuple.(*ssa.Call); ok && isGetModTime(c) {
			if c.Call.IsInvoke() {
				out = append(out, c.Call.Value)
			} else if len(c.Call.Args) > 0 {
				out = append(out, c.Call.Args[0])
			}
		}
	case *ssa.Phi:
		for _, e := range x.Edges {
			out = append(out, modTimeReceivers(e, seen, depth+1)...)
		}
	case *ssa.UnOp:
		if al, ok := x.X.(*ssa.Alloc); ok && al.Referrers() != nil {
			for _, ref := range *al.Referrers() {
				if st, ok := ref.(*ssa.Store); ok && st.Addr == al {
					out = append(out, modTimeReceivers(st.Val, seen, depth+1)...)
				}
			}
		}
	case *ssa.Convert:
		out = append(out, modTimeReceivers(x.X, seen, depth+1)...)
	}
	return out
}

// loaderRoots: the values a loader-typed value can be (through assertions, conversions, phis and
// local variables).
func loaderRoots(v ssa.Value) map[ssa.Value]bool {
	out := map[ssa.Value]bool{}
	var walk func(v ssa.Value, depth int)
	walk = func(v ssa.Value, depth int) {
		if out[v] || depth > 10 {
			return
		}
		out[v] = true
		switch x := v.(type) {
		case *ssa.TypeAssert:
			walk(x.X, depth+1)
		case *ssa.ChangeInterface:
			walk(x.X, depth+1)
		case *ssa.MakeInterface:
			walk(x.X, depth+1)
		case *ssa.Extract:
			if ta, ok := x.Tuple.(*ssa.TypeAssert); ok && x.Index == 0 {
				walk(ta.X, depth+1)
			}
		case *ssa.Phi:
			for _, e := range x.Edges {
				walk(e, depth+1)
			}
		case *ssa.UnOp:
			if al, ok := x.X.(*ssa.Alloc); ok && al.Referrers() != nil {
				for _, ref := range *al.Referrers() {
					if st, ok := ref.(*ssa.Store); ok && st.Addr == al {
						walk(st.Val, depth+1)
					}
				}
			}
		}
	}
	walk(v, 0)
	return out
}

func describeLoader(v ssa.Value) string {
	for rv := range loaderRoots(v) {
		if u, ok := rv.(*ssa.UnOp); ok {
			if fa, ok := u.X.(*ssa.FieldAddr); ok {
				tn, f := fieldOfAddr(fa)
				return tn + "." + f
			}
		}
	}
	return v.Name()
}

// checkModTimeSources — R15.5: a loader's GetModifiedTime reports when the thing it loads from
// last changed.  The engine decides staleness by comparing that number with the one it stored
// at load time, so "a change is visible to the next call" needs the number to move whenever the
// stored bytes are replaced: on every successful return it derives from the file system's
// modification time of a file (os.FileInfo.ModTime) or from another loader's GetModifiedTime
// (delegation) — not from a value recorded inside the file, a field or a constant.
func checkModTimeSources(w *World, r *Report) {
	ta, ok := w.named("TimestampAwareLoader").Underlying().(*types.Interface)
	if !ok {
		cannotDecide("anchor TimestampAwareLoader is not an interface")
	}
	var derives func(v ssa.Value, seen map[ssa.Value]bool, d int) (bool, string)
	derives = func(v ssa.Value, seen map[ssa.Value]bool, d int) (bool, string) {
		if seen[v] || d > 10 {
			return true, ""
		}
		seen[v] = true
		switch x := v.(type) {
		case *ssa.Call:
			cc := x.Call
			if cc.IsInvoke() {
				if cc.Method.Name() == "ModTime" {
					return true, ""
				}
				if cc.Method.Name() == "GetModifiedTime" {
					return true, ""
				}
				return false, "the result of " + cc.Method.Name()
			}
			f := cc.StaticCallee()
			if f == nil {
				return false, "a dynamic call"
			}
			if f.Name() == "GetModifiedTime" {
				return true, ""
			}
			if f.Pkg != nil && f.Pkg.Pkg.Path() == "time" && f.Signature.Recv() != nil && len(cc.Args) > 0 {
				return derives(cc.Args[0], seen, d+1) // t.Unix(), t.UnixNano(), t.UTC() …
			}
			if isTwigFn(f) && len(f.Blocks) > 0 {
				okAll, why := true, ""
				instrsOf(f, func(in ssa.Instruction) {
					ret, isRet := in.(*ssa.Return)
					if !isRet || !okAll {
						return
					}
					res := retResults(ret)
					ei := errResultIndex(f.Signature)
					if ei >= 0 && ei < len(res) && !isNilConst(res[ei]) {
						return
					}
					if len(res) > 0 {
						if o, wy := derives(res[0], seen, d+1); !o {
							okAll, why = false, wy
						}
					}
				})
				return okAll, why
			}
			return false, "the result of " + f.String()
		case *ssa.Extract:
			return derives(x.Tuple, seen, d+1)
		case *ssa.Phi:
			for _, e := range x.Edges {
				if o, why := derives(e, seen, d+1); !o {
					return false, why
				}
			}
			return true, ""
		case *ssa.Convert:
			return derives(x.X, seen, d+1)
		case *ssa.ChangeType:
			return derives(x.X, seen, d+1)
		case *ssa.BinOp:
			if _, isC := x.Y.(*ssa.Const); isC {
				return derives(x.X, seen, d+1)
			}
			return false, "an arithmetic combination"
		case *ssa.UnOp:
			if u := unspill(x); u != ssa.Value(x) {
				return derives(u, seen, d+1)
			}
			if fa, isFA := x.X.(*ssa.FieldAddr); isFA {
				tn, f := fieldOfAddr(fa)
				return false, "the field " + tn + "." + f
			}
			return false, "a stored value"
		case *ssa.Field:
			return false, "a field of " + x.X.Type().String()
		case *ssa.Const:
			return false, "the constant " + x.String()
		}
		return false, fmt.Sprintf("a value of kind %T", v)
	}
	n := 0
	for _, fn := range w.pkgFuncs() {
		if fn.Name() != "GetModifiedTime" || fn.Signature.Recv() == nil || fn.Synthetic != "" {
			continue
		}
		rt := fn.Signature.Recv().Type()
		if !types.Implements(rt, ta) && !types.Implements(types.NewPointer(deref(rt)), ta) {
			continue
		}
		ei := errResultIndex(fn.Signature)
		instrsOf(fn, func(in ssa.Instruction) {
			ret, isRet := in.(*ssa.Return)
			if !isRet {
				return
			}
			res := retResults(ret)
			if ei < 0 || ei >= len(res) || !isNilConst(res[ei]) || len(res) < 2 {
				return
			}
			n++
			construct := "reported modification time is the storage's own"
			if o, why := derives(res[0], map[ssa.Value]bool{}, 0); o {
				r.ok("R15.5", ssaName(fn), construct, w.posOf(ret.Pos()), "derives from os.FileInfo.ModTime (or a delegated GetModifiedTime)", true)
			} else {
				r.bad("R15.5", ssaName(fn), construct, w.posOf(ret.Pos()), "the loader reports "+why+" as the template's modification time, not the file system's time of the file it loads: the stored bytes can be replaced while this number stays the same (or goes back), and with auto-reload on the engine then keeps serving the cached template")
			}
		})
	}
	r.floor("successful returns of GetModifiedTime implementations", n, 2)
}

// originFieldStrict is originField that requires every phi edge to lead to the same field.
func originFieldStrict(v ssa.Value, depth int) (string, string) {
	if depth > 10 {
		return "", ""
	}
	switch x := v.(type) {
	case *ssa.UnOp:
		if fa, ok := x.X.(*ssa.FieldAddr); ok {
			return fieldOfAddr(fa)
		}
		if u := unspill(x); u != ssa.Value(x) {
			return originFieldStrict(u, depth+1)
		}
		return originFieldStrict(x.X, depth+1)
	case *ssa.IndexAddr:
		return originFieldStrict(x.X, depth+1)
	case *ssa.Index:
		return originFieldStrict(x.X, depth+1)
	case *ssa.Extract:
		return originFieldStrict(x.Tuple, depth+1)
	case *ssa.Next:
		return originFieldStrict(x.Iter, depth+1)
	case *ssa.Range:
		return originFieldStrict(x.X, depth+1)
	case *ssa.Phi:
		t0, f0 := "", ""
		for i, e := range x.Edges {
			if e == ssa.Value(x) {
				continue
			}
			t, f := originFieldStrict(e, depth+1)
			if f == "" || (i > 0 && f0 != "" && (t != t0 || f != f0)) {
				return "", ""
			}
			t0, f0 = t, f
		}
		return t0, f0
	case *ssa.Slice:
		return originFieldStrict(x.X, depth+1)
	case *ssa.FieldAddr:
		return fieldOfAddr(x)
	}
	return "", ""
}

// freshTemplateEdge: some edge of the phi (transitively) carries a template made in this call —
// an allocation or the result of a call — rather than nil or a value read from the cache map.
func freshTemplateEdge(v ssa.Value, seen map[ssa.Value]bool) bool {
	if seen[v] {
		return false
	}
	seen[v] = true
	switch x := v.(type) {
	case *ssa.Phi:
		for _, e := range x.Edges {
			if freshTemplateEdge(e, seen) {
				return true
			}
		}
		return false
	case *ssa.Alloc, *ssa.Call:
		return true
	case *ssa.Extract:
		_, isLookup := x.Tuple.(*ssa.Lookup)
		return !isLookup
	case *ssa.UnOp:
		if u := unspill(x); u != ssa.Value(x) {
			return freshTemplateEdge(u, seen)
		}
	}
	return false
}

// loadNilRegion: the function (Engine.Load or one of its parts) and the block where control
// arrives when the walk over the loaders produced no template (`template == nil`).
func (w *World) loadNilRegion() (*ssa.Function, *ssa.BasicBlock) {
	load := w.ssaFunc(w.method("Engine", "Load"))
	parts := w.loadPartsSet()
	var partList []*ssa.Function
	for _, fn := range w.pkgFuncs() {
		if parts[fn] {
			partList = append(partList, fn)
		}
	}
	hasLoaderLoop := func(g *ssa.Function) bool {
		found := false
		instrsOf(g, func(in ssa.Instruction) {
			if c, ok := in.(ssa.CallInstruction); ok && c.Common().IsInvoke() && c.Common().Method.Name() == "Load" && isNamed(c.Common().Value.Type(), twigPath, "Loader") {
				found = true
			}
		})
		return found
	}
	// the test may sit in Load itself or in the part that holds the loader loop
	var nilRegion *ssa.BasicBlock
	nilFn := load
	for _, part := range partList {
		for _, b := range part.Blocks {
			v, trueIdx, ok := ifCond(b)
			if !ok {
				continue
			}
			bo, ok := v.(*ssa.BinOp)
			if !ok || (bo.Op != token.EQL && bo.Op != token.NEQ) || !isNilConst(bo.Y) {
				continue
			}
			// "which loader had it" stands for "did any loader have it": a Loader variable that is
			// nil before the loop and set from the loop's element
			loaderPhi := false
			if ph, ok := bo.X.(*ssa.Phi); ok && isNamed(bo.X.Type(), twigPath, "Loader") && hasLoaderLoop(part) {
				nils, others := 0, 0
				for _, e := range ph.Edges {
					if isNilConst(e) {
						nils++
					} else {
						others++
					}
				}
				loaderPhi = nils > 0 && others > 0
			}
			if !loaderPhi && !isNamed(bo.X.Type(), twigPath, "Template") {
				continue
			}
			_, isPhi := bo.X.(*ssa.Phi)
			if isPhi && !loaderPhi && !freshTemplateEdge(bo.X, map[ssa.Value]bool{}) {
				isPhi = false // a variable that only ever holds nil or a cached template ("previous")
			}
			fromPart := false
			if ex, ok := bo.X.(*ssa.Extract); ok {
				if c, ok := ex.Tuple.(*ssa.Call); ok {
					if g := c.Call.StaticCallee(); g != nil && parts[g] && hasLoaderLoop(g) {
						fromPart = true
					}
				}
			}
			if !isPhi && !fromPart {
				continue // the cached-template tests compare a lookup result, not the loop's result
			}
			// prefer the test in the function that also holds the loader loop / calls it directly
			if nilRegion != nil && part != load && !hasLoaderLoop(part) {
				continue
			}
			nilFn = part
			nilRegion = b.Succs[trueIdx]
			if bo.Op == token.NEQ {
				nilRegion = b.Succs[1-trueIdx]
			}
		}
	}
	if nilRegion != nil {
		return nilFn, nilRegion
	}
	// no nil test: the loader loop returns from inside on success and the code after the loop is
	// the "no loader has it" region (`for … { if ok { return tmpl, nil } }; return nil, notFound`)
	for _, part := range partList {
		var call *ssa.BasicBlock
		instrsOf(part, func(in ssa.Instruction) {
			if c, ok := in.(ssa.CallInstruction); ok && c.Common().IsInvoke() && c.Common().Method.Name() == "Load" && isNamed(c.Common().Value.Type(), twigPath, "Loader") {
				call = in.Block()
			}
		})
		if call == nil {
			continue
		}
		reach := func(from *ssa.BasicBlock) map[*ssa.BasicBlock]bool {
			seen := map[*ssa.BasicBlock]bool{}
			var dfs func(b *ssa.BasicBlock)
			dfs = func(b *ssa.BasicBlock) {
				for _, sb := range b.Succs {
					if !seen[sb] {
						seen[sb] = true
						dfs(sb)
					}
				}
			}
			dfs(from)
			return seen
		}
		fromCall := reach(call)
		if !fromCall[call] {
			continue // not in a loop
		}
		var header *ssa.BasicBlock
		for b := call; b != nil; b = b.Idom() {
			if fromCall[b] && reach(b)[call] {
				header = b
			}
		}
		if header == nil {
			continue
		}
		inLoop := func(b *ssa.BasicBlock) bool { return fromCall[b] && reach(b)[header] }
		// success inside the loop?
		success := false
		ei := errResultIndex(part.Signature)
		for _, b := range part.Blocks {
			if !call.Dominates(b) {
				continue // a success return of this walk lies behind the Load call of the same pass
			}
			if len(b.Instrs) == 0 {
				continue
			}
			if ret, ok := b.Instrs[len(b.Instrs)-1].(*ssa.Return); ok {
				res := retResults(ret)
				if ei >= 0 && ei < len(res) && isNilConst(res[ei]) {
					success = true
				}
			}
		}
		if !success {
			continue
		}
		for _, sb := range header.Succs {
			if !inLoop(sb) {
				return part, sb
			}
		}
	}
	return nilFn, nil
}

// checkExistsAsksStorage — R15.7: a file-backed loader answers "does it exist" by looking.  In the
// Exists method of every Loader implementation whose Load reads files, every `return true` lies
// behind a file-system query (os.Stat / Lstat / Open) on every path; an answer from memory ("it
// was found here before") keeps a ChainLoader from falling through to the loader that still has
// the name once the file is gone.
// checkRegistryNeverReplaced — R15.6: the name → template table of an engine is created once.
// Nothing but the constructor assigns Engine.templates as a whole: replacing the map (on a cache
// toggle, on a reload) drops every registered and cached template at once, so a registered name
// is "not found" although nothing unregistered it.
func checkExistsAndRegistry(w *World, r *Report) {
	iface, ok := w.named("Loader").Underlying().(*types.Interface)
	if !ok {
		return
	}
	usesFiles := func(fn *ssa.Function) bool {
		found := false
		seen := map[*ssa.Function]bool{}
		var walk func(f *ssa.Function, d int)
		walk = func(f *ssa.Function, d int) {
			if f == nil || seen[f] || d > 3 || found {
				return
			}
			seen[f] = true
			instrsOf(f, func(in ssa.Instruction) {
				if c, ok := in.(ssa.CallInstruction); ok {
					if g := calleeFunc(c); g != nil && g.Pkg() != nil && g.Pkg().Path() == "os" {
						found = true
					}
					if h := c.Common().StaticCallee(); h != nil && isTwigFn(h) {
						walk(h, d+1)
					}
				}
			})
		}
		walk(fn, 0)
		return found
	}
	var isStat func(in ssa.Instruction) bool
	// a predicate handed to a search helper (slices.ContainsFunc, IndexFunc): it answers true
	// only behind a query of its own
	predAsks := func(g *ssa.Function) bool {
		if g == nil || len(g.Blocks) == 0 || g.Signature.Results().Len() != 1 {
			return false
		}
		okAll, nret := true, 0
		instrsOf(g, func(in ssa.Instruction) {
			ret, ok := in.(*ssa.Return)
			if !ok {
				return
			}
			nret++
			if isConstBool(retResults(ret)[0], false) {
				return
			}
			if found, _ := existsPathAvoiding(g, in, isStat, nil); found {
				okAll = false
			}
		})
		return okAll && nret > 0
	}
	isStat = func(in ssa.Instruction) bool {
		c, ok := in.(ssa.CallInstruction)
		if !ok {
			return false
		}
		for _, a := range c.Common().Args {
			switch x := a.(type) {
			case *ssa.MakeClosure:
				if g, ok := x.Fn.(*ssa.Function); ok && predAsks(g) {
					return true
				}
			case *ssa.Function:
				if isTwigFn(x) && predAsks(x) {
					return true
				}
			}
		}
		if g := calleeFunc(c); g != nil && g.Pkg() != nil && g.Pkg().Path() == "os" {
			switch g.Name() {
			case "Stat", "Lstat", "Open", "ReadFile", "OpenFile":
				return true
			}
		}
		// a helper of the package that does the query on every path to a true/non-error result
		if h := c.Common().StaticCallee(); h != nil && isTwigFn(h) && len(h.Blocks) > 0 {
			st := false
			instrsOf(h, func(x ssa.Instruction) {
				if c2, ok := x.(ssa.CallInstruction); ok {
					if g := calleeFunc(c2); g != nil && g.Pkg() != nil && g.Pkg().Path() == "os" && (g.Name() == "Stat" || g.Name() == "Lstat" || g.Name() == "Open") {
						st = true
					}
				}
			})
			return st
		}
		return false
	}
	n := 0
	for _, fn := range w.pkgFuncs() {
		if fn.Name() != "Exists" || fn.Signature.Recv() == nil || fn.Synthetic != "" {
			continue
		}
		rt := fn.Signature.Recv().Type()
		if !types.Implements(rt, iface) && !types.Implements(types.NewPointer(deref(rt)), iface) {
			continue
		}
		var load *ssa.Function
		if nm, ok := deref(rt).(*types.Named); ok {
			if m := w.tryMethod(nm.Obj().Name(), "Load"); m != nil {
				load = w.ssaFunc(m)
			}
		}
		if load == nil || !usesFiles(load) {
			continue // memory-backed loaders answer from their table by definition
		}
		n++
		construct := "Exists asks the file system before answering true"
		bad := ""
		instrsOf(fn, func(in ssa.Instruction) {
			ret, ok := in.(*ssa.Return)
			if !ok || bad != "" || len(ret.Results) != 1 {
				return
			}
			if isConstBool(retResults(ret)[0], false) {
				return
			}
			if found, path := existsPathAvoiding(fn, in, isStat, nil); found {
				bad = w.posOf(ret.Pos()) + " (path " + strings.Join(path, " → ") + ")"
			}
		})
		if bad == "" {
			r.ok("R15.7", ssaName(fn), construct, w.posOf(fn.Pos()), "every result that can be true follows a file-system query", true)
		} else {
			r.bad("R15.7", ssaName(fn), construct, w.posOf(fn.Pos()), "Exists can answer true at "+bad+" without looking at the file system: a file that was found once and has since been removed is still reported as present, so a ChainLoader asks this loader (and fails) instead of going on to the loader that has the name")
		}
	}
	r.Counts["Exists methods of file-backed loaders"] = n

	// R15.9: a file-backed loader's Load reads the file.  Every return of Load that can carry a
	// nil error lies behind a read of the file (os.ReadFile / Open / OpenFile, or a helper every
	// successful return of which does): content remembered from an earlier read — keyed by path
	// and modification time, which has a resolution of a second — is served after the file changed.
	var isRead func(in ssa.Instruction) bool
	readSummary := map[*ssa.Function]int{}
	isRead = func(in ssa.Instruction) bool {
		c, ok := in.(ssa.CallInstruction)
		if !ok {
			return false
		}
		if _, isDefer := in.(*ssa.Defer); isDefer {
			return false
		}
		if g := calleeFunc(c); g != nil && g.Pkg() != nil && (g.Pkg().Path() == "os" || g.Pkg().Path() == "io/ioutil") {
			switch g.Name() {
			case "ReadFile", "Open", "OpenFile":
				return true
			}
		}
		h := c.Common().StaticCallee()
		if h == nil || !isTwigFn(h) || len(h.Blocks) == 0 {
			return false
		}
		if st, done := readSummary[h]; done {
			return st == 2
		}
		readSummary[h] = 1
		all, nret := true, 0
		instrsOf(h, func(x ssa.Instruction) {
			ret, ok := x.(*ssa.Return)
			if !ok {
				return
			}
			res := retResults(ret)
			if len(res) > 0 && errorSurelyNonNil(res[len(res)-1], ret.Block()) {
				return
			}
			nret++
			if bad, _ := existsPathAvoiding(h, x, isRead, nil); bad {
				all = false
			}
		})
		if all && nret > 0 {
			readSummary[h] = 2
		}
		return readSummary[h] == 2
	}
	n9 := 0
	for _, fn := range w.pkgFuncs() {
		if fn.Name() != "Load" || fn.Signature.Recv() == nil || fn.Synthetic != "" {
			continue
		}
		rt := fn.Signature.Recv().Type()
		if !types.Implements(rt, iface) && !types.Implements(types.NewPointer(deref(rt)), iface) {
			continue
		}
		// reads files itself (a loader that delegates to other loaders, or to the compiled
		// store's decoder, is not the subject)
		direct := false
		instrsOf(fn, func(in ssa.Instruction) {
			if c, ok := in.(ssa.CallInstruction); ok {
				if g := calleeFunc(c); g != nil && g.Pkg() != nil && g.Pkg().Path() == "os" {
					direct = true
				}
			}
		})
		if !direct {
			continue
		}
		n9++
		construct := "Load reads the file before answering"
		bad := ""
		instrsOf(fn, func(in ssa.Instruction) {
			ret, ok := in.(*ssa.Return)
			if !ok || bad != "" {
				return
			}
			res := retResults(ret)
			if len(res) == 0 || errorSurelyNonNil(res[len(res)-1], ret.Block()) {
				return
			}
			if found, path := existsPathAvoiding(fn, in, isRead, nil); found {
				bad = w.posOf(ret.Pos()) + " (path " + strings.Join(path, " → ") + ")"
			}
		})
		if bad == "" {
			r.ok("R15.9", ssaName(fn), construct, w.posOf(fn.Pos()), "every successful return follows a read of the file", true)
		} else {
			r.bad("R15.9", ssaName(fn), construct, w.posOf(fn.Pos()), "Load can succeed at "+bad+" without reading the file: the source comes from memory, so with the cache off, in development mode or after a reload the engine still serves what the file used to contain")
		}
	}
	r.Counts["Load methods that read files"] = n9

	// R15.11: "not found" is an answer of the file system, not of a memo.  In a file-reading Load
	// no failing return is control dependent on a lookup in a map the loader keeps: a name that
	// was missing once (an optional include rendered before the file was written) would stay
	// missing although the file is there now — with caching off, in development mode, whatever.
	n11 := 0
	for _, fn := range w.pkgFuncs() {
		if (fn.Name() != "Load" && fn.Name() != "Exists") || fn.Signature.Recv() == nil || fn.Synthetic != "" {
			continue
		}
		isExists := fn.Name() == "Exists"
		rt := fn.Signature.Recv().Type()
		if !types.Implements(rt, iface) && !types.Implements(types.NewPointer(deref(rt)), iface) {
			continue
		}
		direct := false
		instrsOf(fn, func(in ssa.Instruction) {
			if c, ok := in.(ssa.CallInstruction); ok {
				if g := calleeFunc(c); g != nil && g.Pkg() != nil && g.Pkg().Path() == "os" {
					direct = true
				}
			}
		})
		if !direct {
			continue
		}
		memoLookup := func(v ssa.Value) string {
			found := ""
			seen := map[ssa.Value]bool{}
			var walk func(v ssa.Value, d int)
			walk = func(v ssa.Value, d int) {
				if v == nil || seen[v] || d > 6 || found != "" {
					return
				}
				seen[v] = true
				if l, ok := v.(*ssa.Lookup); ok {
					if _, isMap := l.X.Type().Underlying().(*types.Map); isMap {
						if u, ok := l.X.(*ssa.UnOp); ok {
							if fa, ok := u.X.(*ssa.FieldAddr); ok {
								t, f := fieldOfAddr(fa)
								found = t + "." + f
								return
							}
						}
					}
				}
				if in, ok := v.(ssa.Instruction); ok {
					if _, isCall := v.(*ssa.Call); isCall {
						return // what a call answers is not the memo's verdict
					}
					for _, op := range in.Operands(nil) {
						if *op != nil {
							walk(*op, d+1)
						}
					}
				}
			}
			walk(v, 0)
			return found
		}
		instrsOf(fn, func(in ssa.Instruction) {
			ret, ok := in.(*ssa.Return)
			if !ok {
				return
			}
			res := retResults(ret)
			if len(res) == 0 {
				return
			}
			if isExists {
				if !isConstBool(res[0], false) {
					return
				}
			} else if !errorSurelyNonNil(res[len(res)-1], ret.Block()) {
				return
			}
			n11++
			construct := "a failing return is not decided by a memo"
			if isExists {
				construct = "the answer `does not exist` is not decided by a memo"
			}
			bad := ""
			for _, c := range controllingConds(in) {
				if m := memoLookup(c); m != "" {
					bad = m
				}
			}
			if bad != "" {
				// … unless the file system was asked on every way to this return as well
				osCall := func(x ssa.Instruction) bool {
					c, ok := x.(ssa.CallInstruction)
					if !ok {
						return false
					}
					if _, isDefer := x.(*ssa.Defer); isDefer {
						return false
					}
					g := calleeFunc(c)
					return g != nil && g.Pkg() != nil && g.Pkg().Path() == "os"
				}
				if unasked, _ := existsPathAvoiding(fn, in, osCall, nil); !unasked {
					bad = ""
				}
			}
			if bad == "" {
				r.ok("R15.11", ssaName(fn), construct, w.posOf(ret.Pos()), "not decided by a memo alone: the file system is asked on every path, or no memo controls the return", true)
			} else {
				r.bad("R15.11", ssaName(fn), construct, w.posOf(ret.Pos()), "whether Load fails here depends on a lookup in "+bad+": a name remembered as missing stays missing after the file has appeared, so an include of it keeps rendering nothing (or keeps failing) whatever the cache and reload settings are")
			}
		})
	}
	r.Counts["failing returns of file-reading Load methods"] = n11

	// R15.6
	nStores := 0
	for _, fn := range w.pkgFuncs() {
		instrsOf(fn, func(in ssa.Instruction) {
			st, ok := in.(*ssa.Store)
			if !ok {
				return
			}
			base, ok := fieldAddr(st.Addr, "Engine", "templates")
			if !ok {
				return
			}
			nStores++
			if _, fresh := unspill(base).(*ssa.Alloc); fresh {
				r.ok("R15.6", ssaName(fn), "Engine.templates is assigned", w.posOf(in.Pos()), "initialisation of an engine allocated in this function", false)
			} else {
				r.bad("R15.6", ssaName(fn), "Engine.templates is assigned", w.posOf(in.Pos()), "the whole name → template table of an existing engine is replaced: every template registered with RegisterString/RegisterTemplate and everything cached is dropped at once, so a name that was registered is reported as not found (or silently re-read from a loader) afterwards")
			}
		})
	}
	r.floor("assignments of Engine.templates", nStores, 1)
}

// checkSettersUnconditional — R15.8: a configuration switch sets what it was asked to set,
// whatever the engine's state.  In every Engine method Set…(bool) no store into a field of the
// engine or its environment is control dependent on a value read from the engine or environment
// ("already in that mode"): the individual switches (SetCache, SetAutoReload) change the same
// fields, so a remembered mode says nothing about them, and the cache/reload configuration the
// caller asked for is silently not applied.
func checkSettersUnconditional(w *World, r *Report) {
	n := 0
	readsEngineState := func(v ssa.Value) bool {
		seen := map[ssa.Value]bool{}
		var walk func(v ssa.Value, d int) bool
		walk = func(v ssa.Value, d int) bool {
			if v == nil || seen[v] || d > 8 {
				return false
			}
			seen[v] = true
			if u, ok := v.(*ssa.UnOp); ok && u.Op == token.MUL {
				if fa, ok := u.X.(*ssa.FieldAddr); ok {
					if t, _ := fieldOfAddr(fa); t == "Engine" || t == "Environment" {
						return true
					}
				}
			}
			if in, ok := v.(ssa.Instruction); ok {
				for _, op := range in.Operands(nil) {
					if *op != nil && walk(*op, d+1) {
						return true
					}
				}
			}
			return false
		}
		return walk(v, 0)
	}
	for _, fn := range w.pkgFuncs() {
		if fn.Signature.Recv() == nil || !isNamed(deref(fn.Signature.Recv().Type()), twigPath, "Engine") || !strings.HasPrefix(fn.Name(), "Set") || fn.Synthetic != "" {
			continue
		}
		if len(fn.Params) != 2 {
			continue
		}
		if b, ok := fn.Params[1].Type().Underlying().(*types.Basic); !ok || b.Kind() != types.Bool {
			continue
		}
		instrsOf(fn, func(in ssa.Instruction) {
			st, ok := in.(*ssa.Store)
			if !ok {
				return
			}
			fa, ok := st.Addr.(*ssa.FieldAddr)
			if !ok {
				return
			}
			t, f := fieldOfAddr(fa)
			if t != "Engine" && t != "Environment" {
				return
			}
			n++
			construct := "store " + t + "." + f + " does not depend on the previous state"
			bad := false
			for _, c := range controllingConds(in) {
				if readsEngineState(c) {
					bad = true
				}
			}
			if bad {
				r.bad("R15.8", ssaName(fn), construct, w.posOf(in.Pos()), "whether the switch writes this field depends on a value read back from the engine (a remembered mode): after the individual switches have changed the same fields the remembered mode is stale and the call returns without applying the cache / reload configuration it was asked for")
			} else {
				r.ok("R15.8", ssaName(fn), construct, w.posOf(in.Pos()), "controlled by the parameter only", true)
			}
		})
	}
	r.floor("field stores in the engine's boolean switches", n, 4)
}

// checkLoadersAlwaysRegistered — R15.10: a loader handed to the engine is on the loader list
// afterwards.  In every Engine method that appends a Loader parameter to Engine.loaders the
// append is controlled by nothing but a nil test of the parameter or an identity comparison of
// the parameter with a loader already registered: a test that looks into the loaders (structural
// equality, a type name, a probe for some template) drops a loader that merely looks like another
// one at the moment it is registered, and the names only it has are never found.
func checkLoadersAlwaysRegistered(w *World, r *Report) {
	n := 0
	for _, fn := range w.pkgFuncs() {
		if fn.Signature.Recv() == nil || !isNamed(deref(fn.Signature.Recv().Type()), twigPath, "Engine") || fn.Synthetic != "" {
			continue
		}
		var lp *ssa.Parameter
		for _, p := range fn.Params[1:] {
			if isNamed(p.Type(), twigPath, "Loader") {
				lp = p
			}
		}
		if lp == nil {
			continue
		}
		instrsOf(fn, func(in ssa.Instruction) {
			st, ok := in.(*ssa.Store)
			if !ok {
				return
			}
			if _, ok := fieldAddr(st.Addr, "Engine", "loaders"); !ok {
				return
			}
			// the stored list contains the parameter
			holds := false
			for _, v := range originChain(st.Val) {
				if c, ok := v.(*ssa.Call); ok {
					if b, ok := c.Call.Value.(*ssa.Builtin); ok && b.Name() == "append" {
						holds = true
					}
				}
			}
			if !holds {
				return
			}
			n++
			construct := "the loader is appended whatever it looks like"
			bad := ""
			for _, c := range controllingConds(in) {
				if bo, ok := c.(*ssa.BinOp); ok && (bo.Op == token.EQL || bo.Op == token.NEQ) {
					px, py := origin(bo.X) == ssa.Value(lp), origin(bo.Y) == ssa.Value(lp)
					if (px && isNilConst(bo.Y)) || (py && isNilConst(bo.X)) {
						continue // nil test of the parameter
					}
					if (px || py) && types.IsInterface(bo.X.Type()) && types.IsInterface(bo.Y.Type()) {
						continue // identity with a registered loader
					}
				}
				bad = w.posOf(c.Pos())
			}
			if bad == "" {
				r.ok("R15.10", ssaName(fn), construct, w.posOf(in.Pos()), "controlled at most by a nil test or an identity comparison of the parameter", true)
			} else {
				r.bad("R15.10", ssaName(fn), construct, w.posOf(in.Pos()), "whether the loader enters the list depends on the test at "+bad+", which is neither a nil test nor an identity comparison: a loader that looks like a registered one when it is handed in (two empty in-memory loaders, two loaders for the same directory) is dropped and never consulted")
			}
		})
	}
	r.floor("registrations of a loader on the engine", n, 1)
}

// checkCachedTimestampsKept — R15.12: the modification time recorded with a cached template is
// the time of the source it was built from.  No function writes Template.lastModified of a
// template it took out of the engine's cache (a lookup in, or a range over, Engine.templates):
// bringing the timestamp "up to date" without re-reading the source makes the next staleness test
// say unchanged, and a change made before that moment is never picked up.
func checkCachedTimestampsKept(w *World, r *Report) {
	n := 0
	fromCache := func(v ssa.Value) bool {
		seen := map[ssa.Value]bool{}
		var walk func(v ssa.Value, d int) bool
		walk = func(v ssa.Value, d int) bool {
			v = unspill(v)
			if v == nil || seen[v] || d > 8 {
				return false
			}
			seen[v] = true
			switch x := v.(type) {
			case *ssa.Lookup:
				if _, ok := fieldLoad(x.X, "Engine", "templates"); ok {
					return true
				}
			case *ssa.Extract:
				return walk(x.Tuple, d+1)
			case *ssa.Next:
				return walk(x.Iter, d+1)
			case *ssa.Range:
				if _, ok := fieldLoad(x.X, "Engine", "templates"); ok {
					return true
				}
			case *ssa.Phi:
				for _, e := range x.Edges {
					if walk(e, d+1) {
						return true
					}
				}
			}
			return false
		}
		return walk(v, 0)
	}
	for _, fn := range w.pkgFuncs() {
		instrsOf(fn, func(in ssa.Instruction) {
			st, ok := in.(*ssa.Store)
			if !ok {
				return
			}
			base, ok := fieldAddr(st.Addr, "Template", "lastModified")
			if !ok {
				return
			}
			n++
			construct := "store Template.lastModified"
			if fromCache(base) {
				r.bad("R15.12", ssaName(fn), construct, w.posOf(in.Pos()), "the template whose timestamp is rewritten was taken out of the engine's cache: its source is not re-read here, so after this store the staleness test finds it current although the loader's source changed before — the change is never served")
			} else {
				r.ok("R15.12", ssaName(fn), construct, w.posOf(in.Pos()), "the template is being built or was handed in, not taken from the cache", false)
			}
		})
	}
	r.floor("stores of Template.lastModified", n, 1)
}

// checkOnlyLoadingGivesALoader — R15.13: a template has a loader only if a loader delivered it.
// Every non-nil value stored into Template.loader is stored on the loading path (Engine.Load and
// its unexported parts), or is a parameter of an unexported constructor to which only the loading
// path passes a non-nil loader.  A template registered by the caller (a string, a compiled
// template) that is given "the loader that has the same name" is replaced by that loader's source
// at the next staleness check: the source most recently registered under the name is lost.
func checkOnlyLoadingGivesALoader(w *World, r *Report) {
	parts := w.loadPartsSet()
	n := 0
	var judge func(fn *ssa.Function, v ssa.Value, depth int) string
	judge = func(fn *ssa.Function, v ssa.Value, depth int) string {
		v = unspill(v)
		if isNilConst(v) {
			return ""
		}
		if ph, ok := v.(*ssa.Phi); ok {
			for _, e := range ph.Edges {
				if s := judge(fn, e, depth); s != "" {
					return s
				}
			}
			return ""
		}
		if p, ok := v.(*ssa.Parameter); ok && depth < 3 && fn.Object() != nil && !fn.Object().Exported() {
			idx := -1
			for i, q := range fn.Params {
				if q == p {
					idx = i
				}
			}
			for _, e := range realInEdges(fn) {
				if e.Site == nil || e.Site.Common().StaticCallee() != fn || idx < 0 || idx >= len(e.Site.Common().Args) {
					continue
				}
				if s := judge(e.Caller.Func, e.Site.Common().Args[idx], depth+1); s != "" {
					return s
				}
			}
			return ""
		}
		if parts[fn] {
			return ""
		}
		// copying the loader of another template (a clone) keeps the invariant
		if _, ok := fieldLoad(v, "Template", "loader"); ok {
			return ""
		}
		return ssaName(fn)
	}
	for _, fn := range w.pkgFuncs() {
		instrsOf(fn, func(in ssa.Instruction) {
			st, ok := in.(*ssa.Store)
			if !ok {
				return
			}
			if _, ok := fieldAddr(st.Addr, "Template", "loader"); !ok {
				return
			}
			n++
			construct := "store Template.loader"
			if where := judge(fn, st.Val, 0); where == "" {
				r.ok("R15.13", ssaName(fn), construct, w.posOf(in.Pos()), "nil, or the loader that delivered the source on the loading path", true)
			} else {
				r.bad("R15.13", ssaName(fn), construct, w.posOf(in.Pos()), "a template that no loader delivered is given a loader (in "+where+"): at the next staleness check the engine compares it with that loader and replaces what was registered by the loader's source — Load no longer serves the source most recently registered under the name")
			}
		})
	}
	r.floor("stores of Template.loader", n, 1)
}

// checkLoaderLoopsDoNotJudgeErrors — R15.15: whether the next loader is asked does not depend on
// what kind of error the previous one returned.  In a function that walks a list of loaders, no
// return inside the walk is decided by an errors.Is / errors.As classification of a loader's
// error: loaders are not required to wrap ErrTemplateNotFound when they do not have a name (the
// compiled loader and user loaders do not), so "anything but not-found is fatal" stops the chain at
// the first loader that merely lacks the template, and the later loader that has it is never asked.
func checkLoaderLoopsDoNotJudgeErrors(w *World, r *Report) {
	loaderT := w.lookup("Loader").Type()
	n := 0
	for _, fn := range w.pkgFuncs() {
		// walks a []Loader?
		var elem ssa.Value
		instrsOf(fn, func(in ssa.Instruction) {
			if ia, ok := in.(*ssa.IndexAddr); ok && elem == nil {
				if sl, ok := ia.X.Type().Underlying().(*types.Slice); ok && types.Identical(sl.Elem(), loaderT) {
					if _, isConst := ia.Index.(*ssa.Const); !isConst && ia.Referrers() != nil {
						for _, ref := range *ia.Referrers() {
							if u, ok := ref.(*ssa.UnOp); ok && u.Op == token.MUL {
								elem = u
							}
						}
					}
				}
			}
		})
		if elem == nil {
			continue
		}
		n++
		bad := ""
		instrsOf(fn, func(in ssa.Instruction) {
			ret, ok := in.(*ssa.Return)
			if !ok || bad != "" {
				return
			}
			// inside the walk: dominated by the element's block
			eb := elem.(ssa.Instruction).Block()
			if !(eb == ret.Block() || eb.Dominates(ret.Block())) {
				return
			}
			for _, c := range iterationConds(in, elem) {
				var facts []condFact
				expandCond(c, true, &facts, 0)
				for _, cf := range facts {
					if call, ok := cf.v.(*ssa.Call); ok {
						if f := calleeFunc(call); isFunc(f, "errors", "", "Is") || isFunc(f, "errors", "", "As") {
							bad = w.posOf(call.Pos())
						}
					}
				}
			}
		})
		construct := "leaving the walk over the loaders does not depend on the kind of a loader's error"
		if bad == "" {
			r.ok("R15.15", ssaName(fn), construct, w.posOf(fn.Pos()), "no return inside the walk is controlled by errors.Is / errors.As", true)
		} else {
			r.bad("R15.15", ssaName(fn), construct, bad, "a return inside the walk is decided by classifying a loader's error: a loader that does not have the name but reports that in its own words ends the search, and a later loader that has the template is never consulted")
		}
	}
	r.floor("functions walking a list of loaders", n, 2)
}

// checkLoadersAskedInOrder — R15.16: loaders are consulted in registration order.  No loader is
// picked out of a list of loaders by an index that comes from a lookup in a map (a remembered
// "the loader that served this directory last time"): which loader answers a name would then depend
// on what was loaded earlier, and an override registered in front is skipped for every template
// whose sibling happened to come from a loader further back.
func checkLoadersAskedInOrder(w *World, r *Report, rule string) {
	loaderT := w.lookup("Loader").Type()
	n := 0
	for _, fn := range w.pkgFuncs() {
		instrsOf(fn, func(in ssa.Instruction) {
			ia, ok := in.(*ssa.IndexAddr)
			if !ok {
				return
			}
			sl, ok := ia.X.Type().Underlying().(*types.Slice)
			if !ok || !types.Identical(sl.Elem(), loaderT) {
				return
			}
			if _, isConst := ia.Index.(*ssa.Const); isConst {
				return
			}
			n++
			construct := "loader taken from the list by a position of the walk"
			from := ""
			seen := map[ssa.Value]bool{}
			var walk func(v ssa.Value, d int)
			walk = func(v ssa.Value, d int) {
				v = unspill(v)
				if v == nil || seen[v] || d > 8 || from != "" {
					return
				}
				seen[v] = true
				switch x := v.(type) {
				case *ssa.Lookup:
					if _, isMap := x.X.Type().Underlying().(*types.Map); isMap {
						from = w.posOf(x.Pos())
					}
				case *ssa.Extract:
					walk(x.Tuple, d+1)
				case *ssa.Phi:
					for _, e := range x.Edges {
						walk(e, d+1)
					}
				case *ssa.BinOp:
					walk(x.X, d+1)
					walk(x.Y, d+1)
				case *ssa.Convert:
					walk(x.X, d+1)
				case *ssa.UnOp:
					if fa, ok := x.X.(*ssa.FieldAddr); ok && x.Op == token.MUL {
						// a remembered position kept in a field
						if t, f := fieldOfAddr(fa); t != "" && f != "" {
							if b, ok := x.Type().Underlying().(*types.Basic); ok && b.Info()&types.IsInteger != 0 {
								from = "field " + t + "." + f
							}
						}
					}
				}
			}
			walk(ia.Index, 0)
			if from == "" {
				r.ok(rule, ssaName(fn), construct, w.posOf(ia.Pos()), "the index is the counter of the walk", false)
			} else {
				r.bad(rule, ssaName(fn), construct, w.posOf(ia.Pos()), "the loader is picked by a remembered position ("+from+") instead of by walking the list from the front: which loader serves a name depends on what was loaded before, and a loader registered earlier that has the template is passed over")
			}
		})
	}
	r.floor("indexed accesses to lists of loaders", n, 2)
}

// checkLoaderSiblingsShapePathsAlike — R15.17: a loader looks for a name in the same place whatever
// it is asked.  For every loader type that touches the file system, the methods Load, Exists and
// GetModifiedTime shape the file path from the template name with the same operations: the sets of
// path- and string-library functions applied on the way (through package helpers, flattened) are
// equal.  A default-suffix rule that differs between Exists and Load makes a chain loader skip a
// template that is there, or promise one that Load then does not find.
func checkLoaderSiblingsShapePathsAlike(w *World, r *Report) {
	n := 0
	shaping := func(fn *ssa.Function) map[string]bool {
		out := map[string]bool{}
		seen := map[*ssa.Function]bool{}
		var scan func(g *ssa.Function, d int)
		scan = func(g *ssa.Function, d int) {
			if g == nil || seen[g] || d > 2 || len(g.Blocks) == 0 {
				return
			}
			seen[g] = true
			for _, a := range g.AnonFuncs {
				scan(a, d) // predicate closures handed to slices.ContainsFunc and the like
			}
			instrsOf(g, func(in ssa.Instruction) {
				c, ok := in.(ssa.CallInstruction)
				if !ok {
					return
				}
				h := c.Common().StaticCallee()
				if h == nil {
					return
				}
				if isTwigFn(h) {
					// a leaf helper over strings (hasSuffix) counts under its own name
					leaf := true
					instrsOf(h, func(x ssa.Instruction) {
						if cc, ok := x.(ssa.CallInstruction); ok {
							if _, isB := cc.Common().Value.(*ssa.Builtin); !isB {
								leaf = false
							}
						}
					})
					if leaf && h.Signature.Recv() == nil {
						name := strings.ToLower(h.Name())
						out["pkg."+name] = true
						return
					}
					scan(h, d+1)
					return
				}
				if h.Pkg == nil {
					return
				}
				switch h.Pkg.Pkg.Path() {
				case "path/filepath", "path":
					out[h.Pkg.Pkg.Name()+"."+h.Name()] = true
				case "strings":
					out["pkg."+strings.ToLower(h.Name())] = true // strings.HasSuffix ≙ a hand-written hasSuffix
				}
			})
		}
		scan(fn, 0)
		return out
	}
	byType := map[string]map[string]*ssa.Function{}
	for _, fn := range w.pkgFuncs() {
		if fn.Signature.Recv() == nil || fn.Synthetic != "" {
			continue
		}
		switch fn.Name() {
		case "Load", "Exists", "GetModifiedTime":
		default:
			continue
		}
		tn := deref(fn.Signature.Recv().Type()).String()
		if byType[tn] == nil {
			byType[tn] = map[string]*ssa.Function{}
		}
		byType[tn][fn.Name()] = fn
	}
	var tns []string
	for tn := range byType {
		tns = append(tns, tn)
	}
	sort.Strings(tns)
	for _, tn := range tns {
		ms := byType[tn]
		load := ms["Load"]
		if load == nil || len(ms) < 2 {
			continue
		}
		ref := shaping(load)
		usesFS := false
		for k := range ref {
			if strings.HasPrefix(k, "filepath.") {
				usesFS = true
			}
		}
		if !usesFS {
			continue
		}
		for _, name := range []string{"Exists", "GetModifiedTime"} {
			m := ms[name]
			if m == nil {
				continue
			}
			n++
			got := shaping(m)
			var diff []string
			for k := range ref {
				if !got[k] {
					diff = append(diff, "Load uses "+k)
				}
			}
			for k := range got {
				if !ref[k] {
					diff = append(diff, name+" uses "+k)
				}
			}
			sort.Strings(diff)
			construct := name + " shapes the file path like Load"
			if len(diff) == 0 {
				r.ok("R15.17", ssaName(m), construct, w.posOf(m.Pos()), "the same path and string operations", true)
			} else {
				r.bad("R15.17", ssaName(m), construct, w.posOf(m.Pos()), "the two methods derive the file from the name differently ("+strings.Join(diff, "; ")+"): a name can exist for one and not for the other, so a chain of loaders passes over a template that is there or hands the name to a loader that then fails")
			}
		}
	}
	r.floor("Exists / GetModifiedTime siblings of a file-reading Load", n, 1)
}

// checkLoadersSeeAbsence — R15.18: "this loader does not have it" is decided by presence, not by
// content.  In the Load and Exists methods of the package's loaders every lookup in a map whose
// elements are not interfaces is the two-result form: a plain m[name] yields the zero value for
// a missing name, so a template registered with empty source is taken for a missing one and a
// later loader answers in its place.
func checkLoadersSeeAbsence(w *World, r *Report) {
	n := 0
	for _, fn := range w.pkgFuncs() {
		if fn.Signature.Recv() == nil || !isTwigFn(fn) || (fn.Name() != "Load" && fn.Name() != "Exists") {
			continue
		}
		if _, isEngine := deref(fn.Signature.Recv().Type()).(*types.Named); !isEngine || isNamed(fn.Signature.Recv().Type(), twigPath, "Engine") {
			continue
		}
		// loaders only: Load(string) (string, error) / Exists(string) bool
		if fn.Signature.Params().Len() != 1 {
			continue
		}
		scanLookups := func(g *ssa.Function) {
			instrsOf(g, func(in ssa.Instruction) {
				lk, ok := in.(*ssa.Lookup)
				if !ok {
					return
				}
				mt, isMap := lk.X.Type().Underlying().(*types.Map)
				if !isMap {
					return
				}
				if _, isIface := mt.Elem().Underlying().(*types.Interface); isIface {
					return
				}
				n++
				construct := "map lookup in a loader sees absence"
				if lk.CommaOk {
					r.ok("R15.18", ssaName(fn), construct, w.posOf(in.Pos()), "two-result lookup", false)
				} else {
					r.bad("R15.18", ssaName(fn), construct, w.posOf(in.Pos()), "a plain lookup yields the zero value for a missing name: a template with empty source (or a zero entry) and a missing template are the same to this loader, so Load reports 'not found' for a name it has and the next loader (or the not-found error) answers instead")
				}
			})
		}
		scanLookups(fn)
		for _, a := range fn.AnonFuncs {
			scanLookups(a)
		}
	}
	r.floor("typed map lookups in loaders", n, 2)
}
