package main

// R05.15 — scanner loops make progress.  A loop of the tokenizer whose condition reads the
// scan position (`for t.position < len(t.source)`) must, on every path from its head back to its
// head, store the position (directly, or by calling a function of the package that stores it).
// A path around the loop that leaves the position alone repeats the same decision on the same
// byte for ever: parsing such a template never returns, which for a caller is worse than a panic.
// The rule decides this necessary condition only — that the stored value is larger is not
// examined, nor is termination of loops governed by other quantities.

import (
	"fmt"
	"go/token"
	"go/types"

	"golang.org/x/tools/go/ssa"
)

func checkScannerProgress(w *World, r *Report) {
	tokT := w.named("ZeroAllocTokenizer")
	isPosAddr := func(v ssa.Value) bool {
		fa, ok := v.(*ssa.FieldAddr)
		if !ok {
			return false
		}
		t, f := fieldOfAddr(fa)
		return t == tokT.Obj().Name() && f == "position"
	}
	// functions that (may) store the position
	stores := map[*ssa.Function]bool{}
	for _, fn := range w.pkgFuncs() {
		instrsOf(fn, func(in ssa.Instruction) {
			if st, ok := in.(*ssa.Store); ok && isPosAddr(st.Addr) {
				stores[fn] = true
			}
		})
	}
	for changed := true; changed; {
		changed = false
		for _, fn := range w.pkgFuncs() {
			if stores[fn] {
				continue
			}
			instrsOf(fn, func(in ssa.Instruction) {
				if c, ok := in.(ssa.CallInstruction); ok {
					if g := c.Common().StaticCallee(); g != nil && stores[g] && !stores[fn] {
						stores[fn] = true
						changed = true
					}
				}
			})
		}
	}
	advances := func(b *ssa.BasicBlock) bool {
		for _, in := range b.Instrs {
			if st, ok := in.(*ssa.Store); ok && isPosAddr(st.Addr) {
				return true
			}
			if c, ok := in.(ssa.CallInstruction); ok {
				if g := c.Common().StaticCallee(); g != nil && stores[g] {
					return true
				}
			}
		}
		return false
	}
	readsPos := func(v ssa.Value) bool {
		seen := map[ssa.Value]bool{}
		var walk func(v ssa.Value, d int) bool
		walk = func(v ssa.Value, d int) bool {
			if v == nil || seen[v] || d > 6 {
				return false
			}
			seen[v] = true
			if u, ok := v.(*ssa.UnOp); ok && isPosAddr(u.X) {
				return true
			}
			if in, ok := v.(ssa.Instruction); ok {
				for _, op := range in.Operands(nil) {
					if *op != nil && walk(*op, d+1) {
						return true
					}
				}
			}
			return false
		}
		return walk(v, 0)
	}
	n := 0
	for _, fn := range w.pkgFuncs() {
		if fn.Signature.Recv() == nil || !types.Identical(deref(fn.Signature.Recv().Type()), tokT) {
			continue
		}
		for _, h := range fn.Blocks {
			cond, _, ok := ifCond(h)
			if !ok || !readsPos(cond) {
				continue
			}
			// loop head: some predecessor is dominated by h
			isHead := false
			for _, p := range h.Preds {
				if h.Dominates(p) {
					isHead = true
				}
			}
			if !isHead {
				continue
			}
			n++
			construct := "every way round the scan loop stores the position"
			// search: from the in-loop successors of h back to h through blocks that do not advance.
			// Along such a path the position is unchanged, so every read of source[position] is
			// the same byte: the path is feasible only if one byte value satisfies all the
			// comparisons with constants made on it.
			isCur := func(v ssa.Value) bool {
				for {
					if cv, ok := v.(*ssa.Convert); ok {
						v = cv.X
						continue
					}
					break
				}
				var x, idx ssa.Value
				switch lk := v.(type) {
				case *ssa.Lookup:
					x, idx = lk.X, lk.Index
				case *ssa.Index:
					x, idx = lk.X, lk.Index
				default:
					return false
				}
				if _, ok := fieldLoad(x, tokT.Obj().Name(), "source"); !ok {
					return false
				}
				u, ok := idx.(*ssa.UnOp)
				return ok && isPosAddr(u.X)
			}
			isPosLoad := func(v ssa.Value) bool {
				u, ok := v.(*ssa.UnOp)
				return ok && isPosAddr(u.X)
			}
			isLenOfSource := func(v ssa.Value) bool {
				c, ok := v.(*ssa.Call)
				if !ok {
					return false
				}
				b, ok := c.Call.Value.(*ssa.Builtin)
				if !ok || b.Name() != "len" {
					return false
				}
				_, ok = fieldLoad(c.Call.Args[0], tokT.Obj().Name(), "source")
				return ok
			}
			type byteSet [4]uint64
			full := byteSet{^uint64(0), ^uint64(0), ^uint64(0), ^uint64(0)}
			refine := func(set byteSet, b *ssa.BasicBlock, i int) byteSet {
				for _, cf := range edgeFacts(b, i) {
					bo, ok := cf.v.(*ssa.BinOp)
					if !ok {
						continue
					}
					// position < len(source) held at the loop head and nothing changed since
					if isPosLoad(bo.X) && isLenOfSource(bo.Y) {
						if (bo.Op == token.LSS && !cf.truth) || (bo.Op == token.GEQ && cf.truth) {
							return byteSet{}
						}
						continue
					}
					var k int64
					var op = bo.Op
					if c, ok := bo.Y.(*ssa.Const); ok && isCur(bo.X) && c.Value != nil {
						k = c.Int64()
					} else if c, ok := bo.X.(*ssa.Const); ok && isCur(bo.Y) && c.Value != nil {
						k = c.Int64()
						switch op { // mirror
						case token.LSS:
							op = token.GTR
						case token.GTR:
							op = token.LSS
						case token.LEQ:
							op = token.GEQ
						case token.GEQ:
							op = token.LEQ
						}
					} else {
						continue
					}
					var out byteSet
					for x := int64(0); x < 256; x++ {
						if set[x/64]&(1<<uint(x%64)) == 0 {
							continue
						}
						var holds bool
						switch op {
						case token.EQL:
							holds = x == k
						case token.NEQ:
							holds = x != k
						case token.LSS:
							holds = x < k
						case token.LEQ:
							holds = x <= k
						case token.GTR:
							holds = x > k
						case token.GEQ:
							holds = x >= k
						default:
							holds = true
							if !cf.truth {
								holds = false
							}
						}
						if holds == cf.truth {
							out[x/64] |= 1 << uint(x%64)
						}
					}
					set = out
				}
				return set
			}
			var path []string
			type state struct {
				b   *ssa.BasicBlock
				set byteSet
			}
			seen := map[state]bool{}
			var dfs func(b *ssa.BasicBlock, set byteSet) bool
			dfs = func(b *ssa.BasicBlock, set byteSet) bool {
				if set == (byteSet{}) {
					return false
				}
				if b == h {
					return true
				}
				if seen[state{b, set}] || advances(b) || !h.Dominates(b) {
					return false
				}
				seen[state{b, set}] = true
				for i, s := range b.Succs {
					if dfs(s, refine(set, b, i)) {
						path = append(path, fmt.Sprint(b.Index))
						return true
					}
				}
				return false
			}
			bad := false
			if !advances(h) {
				for i, s := range h.Succs {
					if dfs(s, refine(full, h, i)) {
						bad = true
						break
					}
				}
			}
			pos := w.posOf(cond.Pos())
			if bad {
				for i, j := 0, len(path)-1; i < j; i, j = i+1, j-1 {
					path[i], path[j] = path[j], path[i]
				}
				at := ""
				for _, b := range fn.Blocks {
					if len(path) > 0 && fmt.Sprint(b.Index) == path[len(path)-1] {
						for _, in := range b.Instrs {
							if in.Pos().IsValid() {
								at = w.posOf(in.Pos())
							}
						}
					}
				}
				r.bad("R05.15", ssaName(fn), construct, pos, fmt.Sprintf("the loop can be gone round without the scan position being stored (blocks %v, last at %s): for the input byte that takes this path the tokenizer repeats the same step for ever and Parse never returns", path, at))
			} else {
				r.ok("R05.15", ssaName(fn), construct, pos, "no cycle through the loop head avoids a store of the position", true)
			}
		}
	}
	r.floor("scan loops governed by the tokenizer position", n, 3)
}
