package main

// R05.15 — scanner loops make progress.  A loop of the tokenizer whose condition reads the
// scan position (`for t.position < len(t.source)`) must, on every path from its head back to its
// head, store the position (directly, or by calling a function of the package that stores it).
// A path around the loop that leaves the position alone repeats the same decision on the same
// byte for ever: parsing such a template never returns, which for a caller is worse than a panic.
// The rule decides this necessary condition only — that the stored value is larger is not
// examined, nor is termination of loops governed by other quantities.

import (
	"fmt"
	"go/constant"
	"go/token"
	"go/types"
	"os"
	"sort"
	"strings"

	"golang.org/x/tools/go/ssa"
)

func checkScannerProgress(w *World, r *Report) {
	tokT := w.named("ZeroAllocTokenizer")
	isPosAddr := func(v ssa.Value) bool {
		fa, ok := v.(*ssa.FieldAddr)
		if !ok {
			return false
		}
		t, f := fieldOfAddr(fa)
		return t == tokT.Obj().Name() && f == "position"
	}
	// functions that (may) store the position
	stores := map[*ssa.Function]bool{}
	for _, fn := range w.pkgFuncs() {
		instrsOf(fn, func(in ssa.Instruction) {
			if st, ok := in.(*ssa.Store); ok && isPosAddr(st.Addr) {
				stores[fn] = true
			}
		})
	}
	for changed := true; changed; {
		changed = false
		for _, fn := range w.pkgFuncs() {
			if stores[fn] {
				continue
			}
			instrsOf(fn, func(in ssa.Instruction) {
				if c, ok := in.(ssa.CallInstruction); ok {
					if g := c.Common().StaticCallee(); g != nil && stores[g] && !stores[fn] {
						stores[fn] = true
						changed = true
					}
				}
			})
		}
	}
	advances := func(b *ssa.BasicBlock) bool {
		for _, in := range b.Instrs {
			if st, ok := in.(*ssa.Store); ok && isPosAddr(st.Addr) {
				return true
			}
			if c, ok := in.(ssa.CallInstruction); ok {
				if g := c.Common().StaticCallee(); g != nil && stores[g] {
					return true
				}
			}
		}
		return false
	}
	readsPos := func(v ssa.Value) bool {
		seen := map[ssa.Value]bool{}
		var walk func(v ssa.Value, d int) bool
		walk = func(v ssa.Value, d int) bool {
			if v == nil || seen[v] || d > 6 {
				return false
			}
			seen[v] = true
			if u, ok := v.(*ssa.UnOp); ok && isPosAddr(u.X) {
				return true
			}
			if in, ok := v.(ssa.Instruction); ok {
				for _, op := range in.Operands(nil) {
					if *op != nil && walk(*op, d+1) {
						return true
					}
				}
			}
			return false
		}
		return walk(v, 0)
	}
	n := 0
	for _, fn := range w.pkgFuncs() {
		if fn.Signature.Recv() == nil || !types.Identical(deref(fn.Signature.Recv().Type()), tokT) {
			continue
		}
		for _, h := range fn.Blocks {
			cond, _, ok := ifCond(h)
			if !ok || !readsPos(cond) {
				continue
			}
			// loop head: some predecessor is dominated by h
			isHead := false
			for _, p := range h.Preds {
				if h.Dominates(p) {
					isHead = true
				}
			}
			if !isHead {
				continue
			}
			// natural loop of h; the test must be the loop's exit test (one successor outside)
			body := map[*ssa.BasicBlock]bool{h: true}
			var stack []*ssa.BasicBlock
			for _, p := range h.Preds {
				if h.Dominates(p) && !body[p] {
					body[p] = true
					stack = append(stack, p)
				}
			}
			for len(stack) > 0 {
				b := stack[len(stack)-1]
				stack = stack[:len(stack)-1]
				for _, p := range b.Preds {
					if !body[p] {
						body[p] = true
						stack = append(stack, p)
					}
				}
			}
			exits := false
			for _, s := range h.Succs {
				if !body[s] {
					exits = true
				}
			}
			if !exits {
				continue
			}
			n++
			construct := "every way round the scan loop stores the position"
			// search: from the in-loop successors of h back to h through blocks that do not advance.
			// Along such a path the position is unchanged, so every read of source[position] is
			// the same byte: the path is feasible only if one byte value satisfies all the
			// comparisons with constants made on it.
			isCur := func(v ssa.Value) bool {
				for {
					if cv, ok := v.(*ssa.Convert); ok {
						v = cv.X
						continue
					}
					break
				}
				var x, idx ssa.Value
				switch lk := v.(type) {
				case *ssa.Lookup:
					x, idx = lk.X, lk.Index
				case *ssa.Index:
					x, idx = lk.X, lk.Index
				default:
					return false
				}
				if _, ok := fieldLoad(x, tokT.Obj().Name(), "source"); !ok {
					return false
				}
				u, ok := idx.(*ssa.UnOp)
				return ok && isPosAddr(u.X)
			}
			isPosLoad := func(v ssa.Value) bool {
				u, ok := v.(*ssa.UnOp)
				return ok && isPosAddr(u.X)
			}
			isLenOfSource := func(v ssa.Value) bool {
				c, ok := v.(*ssa.Call)
				if !ok {
					return false
				}
				b, ok := c.Call.Value.(*ssa.Builtin)
				if !ok || b.Name() != "len" {
					return false
				}
				_, ok = fieldLoad(c.Call.Args[0], tokT.Obj().Name(), "source")
				return ok
			}
			type byteSet [4]uint64
			full := byteSet{^uint64(0), ^uint64(0), ^uint64(0), ^uint64(0)}
			refine := func(set byteSet, b *ssa.BasicBlock, i int) byteSet {
				for _, cf := range edgeFacts(b, i) {
					// a byte-class predicate of the package applied to the current byte
					if c, ok := cf.v.(*ssa.Call); ok && len(c.Call.Args) == 1 && isCur(c.Call.Args[0]) {
						if g := c.Call.StaticCallee(); g != nil && isTwigFn(g) {
							if tab := bytePredTable(g); tab != nil {
								var out byteSet
								for x := 0; x < 256; x++ {
									if set[x/64]&(1<<uint(x%64)) != 0 && tab[x] == cf.truth {
										out[x/64] |= 1 << uint(x%64)
									}
								}
								set = out
							}
						}
						continue
					}
					bo, ok := cf.v.(*ssa.BinOp)
					if !ok {
						continue
					}
					// position < len(source) held at the loop head and nothing changed since
					if isPosLoad(bo.X) && isLenOfSource(bo.Y) {
						if (bo.Op == token.LSS && !cf.truth) || (bo.Op == token.GEQ && cf.truth) {
							return byteSet{}
						}
						continue
					}
					var k int64
					var op = bo.Op
					if c, ok := bo.Y.(*ssa.Const); ok && isCur(bo.X) && c.Value != nil {
						k = c.Int64()
					} else if c, ok := bo.X.(*ssa.Const); ok && isCur(bo.Y) && c.Value != nil {
						k = c.Int64()
						switch op { // mirror
						case token.LSS:
							op = token.GTR
						case token.GTR:
							op = token.LSS
						case token.LEQ:
							op = token.GEQ
						case token.GEQ:
							op = token.LEQ
						}
					} else {
						continue
					}
					var out byteSet
					for x := int64(0); x < 256; x++ {
						if set[x/64]&(1<<uint(x%64)) == 0 {
							continue
						}
						var holds bool
						switch op {
						case token.EQL:
							holds = x == k
						case token.NEQ:
							holds = x != k
						case token.LSS:
							holds = x < k
						case token.LEQ:
							holds = x <= k
						case token.GTR:
							holds = x > k
						case token.GEQ:
							holds = x >= k
						default:
							holds = true
							if !cf.truth {
								holds = false
							}
						}
						if holds == cf.truth {
							out[x/64] |= 1 << uint(x%64)
						}
					}
					set = out
				}
				return set
			}
			var path []string
			type state struct {
				b     *ssa.BasicBlock
				set   byteSet
				known string
			}
			// boolean phis (the && / || of a tagless switch's case expressions) whose value is
			// fixed by the edge they were entered through
			enter := func(known map[*ssa.Phi]bool, from, to *ssa.BasicBlock) map[*ssa.Phi]bool {
				out := map[*ssa.Phi]bool{}
				for k, v := range known {
					out[k] = v
				}
				idx := -1
				for i, p := range to.Preds {
					if p == from {
						idx = i
					}
				}
				for _, in := range to.Instrs {
					ph, ok := in.(*ssa.Phi)
					if !ok {
						break
					}
					delete(out, ph)
					if idx < 0 {
						continue
					}
					switch e := ph.Edges[idx].(type) {
					case *ssa.Const:
						if e.Value != nil && e.Value.Kind() == constant.Bool {
							out[ph] = constant.BoolVal(e.Value)
						}
					case *ssa.Phi:
						if v, ok := known[e]; ok {
							out[ph] = v
						}
					}
				}
				return out
			}
			keyOf := func(known map[*ssa.Phi]bool) string {
				var parts []string
				for k, v := range known {
					parts = append(parts, fmt.Sprintf("%s=%v", k.Name(), v))
				}
				sort.Strings(parts)
				return strings.Join(parts, ",")
			}
			seen := map[state]bool{}
			var dfs func(b *ssa.BasicBlock, set byteSet, known map[*ssa.Phi]bool) bool
			dfs = func(b *ssa.BasicBlock, set byteSet, known map[*ssa.Phi]bool) bool {
				if set == (byteSet{}) {
					return false
				}
				if b == h {
					return true
				}
				st := state{b, set, keyOf(known)}
				if seen[st] || advances(b) || !h.Dominates(b) {
					return false
				}
				seen[st] = true
				for i, s := range b.Succs {
					if c, trueIdx, ok := ifCond(b); ok {
						if ph, isPhi := c.(*ssa.Phi); isPhi {
							if v, ok := known[ph]; ok && v != (i == trueIdx) {
								continue
							}
						}
					}
					if dfs(s, refine(set, b, i), enter(known, b, s)) {
						path = append(path, fmt.Sprint(b.Index))
						return true
					}
				}
				return false
			}
			bad := false
			if !advances(h) {
				for i, s := range h.Succs {
					if dfs(s, refine(full, h, i), enter(nil, h, s)) {
						bad = true
						break
					}
				}
			}
			pos := w.posOf(cond.Pos())
			if bad {
				for i, j := 0, len(path)-1; i < j; i, j = i+1, j-1 {
					path[i], path[j] = path[j], path[i]
				}
				at := ""
				if os.Getenv("TWIGCHECK_DEBUG") != "" {
					for _, pi := range path {
						for _, b := range fn.Blocks {
							if fmt.Sprint(b.Index) == pi {
								for _, in := range b.Instrs {
									fmt.Fprintf(os.Stderr, "  [%s] %s  %s\n", pi, w.posOf(in.Pos()), in.String())
								}
							}
						}
					}
				}
				for _, b := range fn.Blocks {
					if len(path) > 0 && fmt.Sprint(b.Index) == path[len(path)-1] {
						for _, in := range b.Instrs {
							if in.Pos().IsValid() {
								at = w.posOf(in.Pos())
							}
						}
					}
				}
				r.bad("R05.15", ssaName(fn), construct, pos, fmt.Sprintf("the loop can be gone round without the scan position being stored (blocks %v, last at %s): for the input byte that takes this path the tokenizer repeats the same step for ever and Parse never returns", path, at))
			} else {
				r.ok("R05.15", ssaName(fn), construct, pos, "no cycle through the loop head avoids a store of the position", true)
			}
		}
	}
	r.floor("scan loops governed by the tokenizer position", n, 3)
}

// bytePredTable: the truth table of a byte-class predicate of the package (`isDigit(c byte) bool`,
// `isNameChar`, …), obtained by constant evaluation of its SSA for each of the 256 argument
// values.  Only loop-free-in-effect bodies of comparisons, boolean connectives, integer
// arithmetic and calls of other such predicates are evaluated (at most 400 steps); anything else
// gives nil and the caller treats the predicate as unknown.
var bytePredMemo = map[*ssa.Function]*[256]bool{}
var bytePredBusy = map[*ssa.Function]bool{}

func bytePredTable(g *ssa.Function) *[256]bool {
	if t, ok := bytePredMemo[g]; ok {
		return t
	}
	if bytePredBusy[g] || len(g.Blocks) == 0 || len(g.Params) != 1 || g.Signature.Results().Len() != 1 {
		return nil
	}
	if b, ok := g.Params[0].Type().Underlying().(*types.Basic); !ok || b.Info()&types.IsInteger == 0 {
		return nil
	}
	if b, ok := g.Signature.Results().At(0).Type().Underlying().(*types.Basic); !ok || b.Kind() != types.Bool {
		return nil
	}
	bytePredBusy[g] = true
	defer delete(bytePredBusy, g)
	var table [256]bool
	for x := 0; x < 256; x++ {
		res, ok := evalPred(g, int64(x))
		if !ok {
			bytePredMemo[g] = nil
			return nil
		}
		table[x] = res
	}
	bytePredMemo[g] = &table
	return &table
}

type cval struct {
	i    int64
	b    bool
	isB  bool
	know bool
}

func evalPred(g *ssa.Function, x int64) (bool, bool) {
	env := map[ssa.Value]cval{g.Params[0]: {i: x, know: true}}
	get := func(v ssa.Value) cval {
		if c, ok := v.(*ssa.Const); ok && c.Value != nil {
			switch c.Value.Kind() {
			case constant.Bool:
				return cval{b: constant.BoolVal(c.Value), isB: true, know: true}
			case constant.Int:
				return cval{i: c.Int64(), know: true}
			}
			return cval{}
		}
		return env[v]
	}
	blk := g.Blocks[0]
	var prev *ssa.BasicBlock
	for steps := 0; steps < 400; steps++ {
		var next *ssa.BasicBlock
		for _, in := range blk.Instrs {
			switch t := in.(type) {
			case *ssa.Phi:
				for i, p := range blk.Preds {
					if p == prev {
						env[t] = get(t.Edges[i])
					}
				}
			case *ssa.BinOp:
				a, b := get(t.X), get(t.Y)
				if !a.know || !b.know {
					return false, false
				}
				r := cval{know: true}
				switch t.Op {
				case token.EQL:
					r.isB = true
					if a.isB {
						r.b = a.b == b.b
					} else {
						r.b = a.i == b.i
					}
				case token.NEQ:
					r.isB = true
					if a.isB {
						r.b = a.b != b.b
					} else {
						r.b = a.i != b.i
					}
				case token.LSS:
					r.isB, r.b = true, a.i < b.i
				case token.LEQ:
					r.isB, r.b = true, a.i <= b.i
				case token.GTR:
					r.isB, r.b = true, a.i > b.i
				case token.GEQ:
					r.isB, r.b = true, a.i >= b.i
				case token.ADD:
					r.i = a.i + b.i
				case token.SUB:
					r.i = a.i - b.i
				case token.OR:
					r.i = a.i | b.i
				case token.AND:
					r.i = a.i & b.i
				case token.XOR:
					r.i = a.i ^ b.i
				default:
					return false, false
				}
				if !r.isB {
					if bt, ok := t.Type().Underlying().(*types.Basic); ok && (bt.Kind() == types.Uint8) {
						r.i &= 0xff
					}
				}
				env[t] = r
			case *ssa.UnOp:
				a := get(t.X)
				if !a.know || t.Op != token.NOT {
					return false, false
				}
				env[t] = cval{b: !a.b, isB: true, know: true}
			case *ssa.Convert:
				a := get(t.X)
				if !a.know {
					return false, false
				}
				env[t] = a
			case *ssa.ChangeType:
				env[t] = get(t.X)
			case *ssa.Call:
				h := t.Call.StaticCallee()
				if h == nil || len(t.Call.Args) != 1 {
					return false, false
				}
				a := get(t.Call.Args[0])
				tab := bytePredTable(h)
				if tab == nil || !a.know || a.i < 0 || a.i > 255 {
					return false, false
				}
				env[t] = cval{b: tab[a.i], isB: true, know: true}
			case *ssa.If:
				c := get(t.Cond)
				if !c.know {
					return false, false
				}
				if c.b {
					next = blk.Succs[0]
				} else {
					next = blk.Succs[1]
				}
			case *ssa.Jump:
				next = blk.Succs[0]
			case *ssa.Return:
				c := get(t.Results[0])
				return c.b, c.know && c.isB
			case *ssa.DebugRef:
			default:
				return false, false
			}
		}
		if next == nil {
			return false, false
		}
		prev, blk = blk, next
	}
	return false, false
}

// checkCountersAdvance — R05.16: a scan position is not advanced by a length that can be zero.
// For every loop on a parse or render path whose exit test compares a counter with a length
// (`for pos < len(s)`), every value the counter takes on the way round that has the form
// counter + len(y) needs evidence, on the way to the addition, that y is not empty
// (`len(y) > 0`, `y != ""`, a constant): with an empty search string, separator or key the
// position stays where it is and the loop — and with it Render — never returns.  Constant steps
// and steps computed otherwise are not examined.
func checkCountersAdvance(w *World, r *Report) {
	reach := w.renderReachable()
	for f := range w.parseReachable() {
		reach[f] = true
	}
	n := 0
	for _, fn := range w.pkgFuncs() {
		if !reach[fn] {
			continue
		}
		for _, b := range fn.Blocks {
			// loop header: has a predecessor it dominates
			isHeader := false
			for _, p := range b.Preds {
				if b.Dominates(p) {
					isHeader = true
				}
			}
			if !isHeader {
				continue
			}
			for _, in := range b.Instrs {
				phi, ok := in.(*ssa.Phi)
				if !ok {
					break
				}
				if bt, ok := phi.Type().Underlying().(*types.Basic); !ok || bt.Info()&types.IsInteger == 0 {
					continue
				}
				// the counter is compared with a length somewhere in the loop's exit tests
				cmpLen := false
				if phi.Referrers() != nil {
					for _, ref := range *phi.Referrers() {
						if bo, ok := ref.(*ssa.BinOp); ok {
							switch bo.Op {
							case token.LSS, token.LEQ, token.GTR, token.GEQ, token.NEQ:
								other := bo.Y
								if other == ssa.Value(phi) {
									other = bo.X
								}
								if _, ok := sizeValue(other, 0); ok {
									cmpLen = true
								}
							}
						}
					}
				}
				if !cmpLen {
					continue
				}
				// values arriving over back edges
				seen := map[ssa.Value]bool{}
				var visit func(v ssa.Value, d int)
				visit = func(v ssa.Value, d int) {
					if v == nil || seen[v] || d > 6 {
						return
					}
					seen[v] = true
					switch x := v.(type) {
					case *ssa.Phi:
						if x == phi {
							return
						}
						for _, e := range x.Edges {
							visit(e, d+1)
						}
					case *ssa.BinOp:
						if x.Op != token.ADD {
							return
						}
						var step ssa.Value
						if x.X == ssa.Value(phi) {
							step = x.Y
						} else if x.Y == ssa.Value(phi) {
							step = x.X
						} else {
							return
						}
						c, ok := step.(*ssa.Call)
						if !ok {
							return
						}
						bi, ok := c.Call.Value.(*ssa.Builtin)
						if !ok || bi.Name() != "len" || len(c.Call.Args) != 1 {
							return
						}
						y := c.Call.Args[0]
						if bt, ok := y.Type().Underlying().(*types.Basic); !ok || bt.Info()&types.IsString == 0 {
							if _, isSl := y.Type().Underlying().(*types.Slice); !isSl {
								return
							}
						}
						n++
						construct := "counter advanced by len(" + describe(y) + ")"
						if cst, ok := y.(*ssa.Const); ok && cst.Value != nil && constant.StringVal(cst.Value) != "" {
							r.ok("R05.16", ssaName(fn), construct, w.posOf(x.Pos()), "a non-empty constant", false)
							return
						}
						if nonEmptyAt(x, y) {
							r.ok("R05.16", ssaName(fn), construct, w.posOf(x.Pos()), "the addition is reached only where the value was found non-empty", true)
						} else {
							r.bad("R05.16", ssaName(fn), construct, w.posOf(x.Pos()), "nothing on the way to this addition shows that the value is not empty: with an empty one the counter stays where it is and the loop never ends — the render does not return")
						}
					}
				}
				for i, p := range b.Preds {
					if b.Dominates(p) && i < len(phi.Edges) {
						visit(phi.Edges[i], 0)
					}
				}
			}
		}
	}
	r.Counts["loop counters advanced by a length"] = n
}

// nonEmptyAt: some dominating branch on the way to instruction at establishes len(y) > 0
// (len(y) > 0, len(y) != 0, len(y) >= 1, y != "", or the false edge of the opposites).
func nonEmptyAt(at ssa.Instruction, y ssa.Value) bool {
	isLenY := func(v ssa.Value) bool {
		c, ok := v.(*ssa.Call)
		if !ok {
			return false
		}
		bi, ok := c.Call.Value.(*ssa.Builtin)
		return ok && bi.Name() == "len" && len(c.Call.Args) == 1 && sameValue(unspill(c.Call.Args[0]), unspill(y))
	}
	isInt := func(v ssa.Value, k int64) bool {
		c, ok := v.(*ssa.Const)
		if !ok || c.Value == nil || c.Value.Kind() != constant.Int {
			return false
		}
		i, _ := constant.Int64Val(c.Value)
		return i == k
	}
	isEmptyStr := func(v ssa.Value) bool {
		c, ok := v.(*ssa.Const)
		return ok && c.Value != nil && c.Value.Kind() == constant.String && constant.StringVal(c.Value) == ""
	}
	isY := func(v ssa.Value) bool { return sameValue(unspill(v), unspill(y)) }
	holds := func(v ssa.Value, truth bool) bool {
		var facts []condFact
		expandCond(v, truth, &facts, 0)
		for _, f := range facts {
			bo, ok := f.v.(*ssa.BinOp)
			if !ok {
				continue
			}
			switch {
			case isLenY(bo.X) && isInt(bo.Y, 0):
				if f.truth && (bo.Op == token.GTR || bo.Op == token.NEQ) || !f.truth && (bo.Op == token.EQL || bo.Op == token.LEQ) {
					return true
				}
			case isLenY(bo.X) && isInt(bo.Y, 1):
				if f.truth && bo.Op == token.GEQ || !f.truth && bo.Op == token.LSS {
					return true
				}
			case isInt(bo.X, 0) && isLenY(bo.Y):
				if f.truth && (bo.Op == token.LSS || bo.Op == token.NEQ) || !f.truth && (bo.Op == token.EQL || bo.Op == token.GEQ) {
					return true
				}
			case isY(bo.X) && isEmptyStr(bo.Y), isEmptyStr(bo.X) && isY(bo.Y):
				if f.truth && bo.Op == token.NEQ || !f.truth && bo.Op == token.EQL {
					return true
				}
			}
		}
		return false
	}
	b := at.Block()
	for d := b.Idom(); d != nil; d = d.Idom() {
		v, trueIdx, ok := ifCond(d)
		if !ok {
			continue
		}
		// the successor of d that (alone) leads to b
		for i, s := range d.Succs {
			if (s == b || s.Dominates(b)) && len(s.Preds) == 1 {
				if holds(v, i == trueIdx) {
					return true
				}
			}
		}
	}
	return false
}
