package main

// C02 — concurrent use of one engine is safe.
//
// R02.1 lockset: every write (field store, map update/delete) to shared memory — fields of the
//       package's long-lived struct types (Engine, Environment, Template, loaders, …) and of
//       package-level variables — in a function reachable from the concurrent API roots
//       (Engine.Render/RenderTo/Load/ParseTemplate/RegisterString) happens while the owner lock
//       of that location (a sync.Mutex/RWMutex that is a sibling field of the same struct) is
//       held; a shared location without an owner lock may not be written from those roots at
//       all.  Every read of a location that has such a write holds the same lock.
// R02.2 relative template names resolve from per-render state: the directory used to resolve
//       ./ and ../ names in a Node's Render never derives from a field of *Engine.
// R02.3 lock regions cannot be left locked: every Lock without a deferred Unlock reaches its
//       Unlock on every path.
// (R01.4, the pool hand-off rule, is an obligation of C02 as well and is re-checked here.)

import (
	"fmt"
	"go/token"
	"go/types"
	"sort"
	"strings"

	"golang.org/x/tools/go/ssa"
)

func init() { register("C02", checkC02) }

// call-local classes: objects owned by one goroutine between acquire and release (R01.4) or
// immutable after publication (nodes: R01.2).
var classLocal = map[string]bool{
	"Parser": true, "RenderContext": true, "ZeroAllocTokenizer": true, "TokenizerPooled": true,
	"Buffer": true, "StringBuffer": true, "Token": true, "TagLocation": true, "FilterChainItem": true,
	"EnhancedError": true, "SecurityViolation": true, "CompiledTemplate": true,
}

type lockKey string

func isMutexType(t types.Type) bool {
	return isNamed(t, "sync", "Mutex") || isNamed(t, "sync", "RWMutex")
}

// locOf: identity of the memory location addressed by a FieldAddr chain: (owner type or global
// name, field path) plus the root value.
func (w *World) locOf(addr ssa.Value) (owner string, path string, root ssa.Value, ok bool) {
	root, path, ok = addrPath(addr)
	if !ok {
		return "", "", nil, false
	}
	if g, isG := root.(*ssa.Global); isG {
		// a package-level variable of a named struct type is reached through its methods'
		// receivers as well: name the location by the type, so both views agree
		if n, isN := deref(g.Type()).(*types.Named); isN && n.Obj().Pkg() != nil && n.Obj().Pkg().Path() == twigPath {
			if _, isSt := n.Underlying().(*types.Struct); isSt {
				return n.Obj().Name(), path, root, true
			}
		}
		return g.Name(), path, root, true
	}
	t := deref(root.Type())
	if n, isN := t.(*types.Named); isN && n.Obj().Pkg() != nil && n.Obj().Pkg().Path() == twigPath {
		return n.Obj().Name(), path, root, true
	}
	return "", "", nil, false
}

func isFreshRoot(root ssa.Value) bool {
	switch x := root.(type) {
	case *ssa.Alloc:
		return true
	case *ssa.TypeAssert:
		if c, ok := x.X.(*ssa.Call); ok && isFunc(calleeFunc(c), "sync", "Pool", "Get") {
			return true
		}
	case *ssa.Phi:
		for _, e := range x.Edges {
			if !isFreshRoot(e) {
				return false
			}
		}
		return true
	}
	return false
}

type lockAnalysis struct {
	w     *World
	entry map[*ssa.Function]map[lockKey]bool
	in    map[*ssa.Function]map[*ssa.BasicBlock]map[lockKey]bool
}

func (la *lockAnalysis) lockOp(in ssa.Instruction) (key lockKey, acquire bool, deferred bool, ok bool) {
	c, isCall := in.(ssa.CallInstruction)
	if !isCall {
		return "", false, false, false
	}
	f := calleeFunc(c)
	if f == nil || f.Pkg() == nil || f.Pkg().Path() != "sync" {
		return "", false, false, false
	}
	switch f.Name() {
	case "Lock", "RLock":
		acquire = true
	case "Unlock", "RUnlock":
	default:
		return "", false, false, false
	}
	recv := c.Common().Args[0]
	owner, path, _, lok := la.w.locOf(recv)
	if !lok {
		return "", false, false, false
	}
	_, deferred = in.(*ssa.Defer)
	return lockKey(owner + "." + path), acquire, deferred, true
}

func copySet(s map[lockKey]bool) map[lockKey]bool {
	o := map[lockKey]bool{}
	for k := range s {
		o[k] = true
	}
	return o
}

func meet(a, b map[lockKey]bool) map[lockKey]bool {
	if a == nil {
		return copySet(b)
	}
	o := map[lockKey]bool{}
	for k := range a {
		if b[k] {
			o[k] = true
		}
	}
	return o
}

func sameSet(a, b map[lockKey]bool) bool {
	if len(a) != len(b) {
		return false
	}
	for k := range a {
		if !b[k] {
			return false
		}
	}
	return true
}

func (la *lockAnalysis) step(in ssa.Instruction, st map[lockKey]bool) {
	if k, acq, deferred, ok := la.lockOp(in); ok {
		if acq {
			st[k] = true
		} else if !deferred {
			delete(st, k)
		}
	}
}

func (la *lockAnalysis) solveFn(fn *ssa.Function) {
	in := map[*ssa.BasicBlock]map[lockKey]bool{}
	reach := reachableBlocks(fn)
	if len(fn.Blocks) == 0 {
		la.in[fn] = in
		return
	}
	in[fn.Blocks[0]] = copySet(la.entry[fn])
	for changed := true; changed; {
		changed = false
		for _, b := range fn.Blocks {
			if !reach[b] || b == fn.Blocks[0] {
				continue
			}
			var acc map[lockKey]bool
			for _, p := range b.Preds {
				if !reach[p] {
					continue
				}
				pin, ok := in[p]
				if !ok {
					continue // not yet computed: optimistic
				}
				out := copySet(pin)
				for _, x := range p.Instrs {
					la.step(x, out)
				}
				acc = meet(acc, out)
			}
			if acc == nil {
				continue
			}
			if old, ok := in[b]; !ok || !sameSet(old, acc) {
				in[b] = acc
				changed = true
			}
		}
	}
	la.in[fn] = in
}

func (la *lockAnalysis) at(in ssa.Instruction) map[lockKey]bool {
	fn := in.Parent()
	st := copySet(la.in[fn][in.Block()])
	for _, x := range in.Block().Instrs {
		if x == in {
			break
		}
		la.step(x, st)
	}
	return st
}

func (la *lockAnalysis) solve(fns []*ssa.Function) {
	la.entry = map[*ssa.Function]map[lockKey]bool{}
	la.in = map[*ssa.Function]map[*ssa.BasicBlock]map[lockKey]bool{}
	for _, fn := range fns {
		la.entry[fn] = map[lockKey]bool{}
	}
	g := la.w.callgraph()
	for round := 0; round < 4; round++ {
		for _, fn := range fns {
			la.solveFn(fn)
		}
		changed := false
		for _, fn := range fns {
			node := g.Nodes[fn]
			if node == nil || len(node.In) == 0 {
				continue
			}
			var acc map[lockKey]bool
			okAll := true
			for _, e := range node.In {
				if e.Site == nil || !la.w.inPkg(e.Caller.Func) || e.Site.Common().StaticCallee() != fn {
					okAll = false
					break
				}
				if _, isGo := e.Site.(*ssa.Go); isGo {
					okAll = false
					break
				}
				acc = meet(acc, la.at(e.Site))
			}
			if !okAll || acc == nil {
				acc = map[lockKey]bool{}
			}
			if !sameSet(acc, la.entry[fn]) {
				la.entry[fn] = acc
				changed = true
			}
		}
		if !changed {
			break
		}
	}
}

type sharedAccess struct {
	fn    *ssa.Function
	in    ssa.Instruction
	owner string
	path  string
	write bool
	what  string
}

func checkC02(w *World, r *Report) {
	r.Explanation = "Decides race-freedom of the engine's own shared memory under every schedule, by ownership classes plus locksets: (R02.1) in every function reachable from the concurrent API roots (Engine.Render, RenderTo, Load, ParseTemplate, RegisterString), every write to a field of a long-lived struct (Engine, Environment, Template, loaders, extensions, …) or of a package-level variable, on an object that is not fresh in that function, is made while the sibling mutex of that struct is held, a location without a sibling mutex is never written from those roots, and every read of a location that is so written holds the same lock; per-call objects (Parser, RenderContext, tokenizer, buffers) are owned by one goroutine by the pool hand-off rule R01.4 and parse-tree objects are immutable after publication by R01.2; (R02.2) the directory against which ./ and ../ template names are resolved in a Node's Render never derives from a field of *Engine; (R02.3) every Lock without a deferred Unlock reaches its Unlock on every path. Not decided: that concurrent results equal serial results (an equivalence over schedules); races inside user callbacks and user io.Writers; configuration calls racing with renders."
	r.RuleText = "obligation = one access to a shared location from the concurrent roots (writes and the reads of written locations), one directory expression, one lock region; non-trivial = all"
	r.Trusted = []string{"class table: per-call types " + strings.Join(sortedKeys(classLocal), ", ") + " and Node implementations; every other named struct type of the package and every package variable is shared", "call graph over-approximation"}
	r.Assumptions = []string{"the engine is configured before concurrent use (AddFilter, SetCache, SetTemplate … are not concurrent with renders)"}

	roots := []*ssa.Function{}
	for _, m := range []string{"Render", "RenderTo", "Load", "ParseTemplate", "RegisterString"} {
		roots = append(roots, w.ssaFunc(w.method("Engine", m)))
	}
	reach := w.reachableFrom(roots)
	var fns []*ssa.Function
	for _, fn := range w.pkgFuncs() {
		fns = append(fns, fn)
	}
	la := &lockAnalysis{w: w}
	la.solve(fns)

	nodeType := map[string]bool{}
	for _, n := range w.nodeStructs() {
		nodeType[n.Obj().Name()] = true
	}
	nodeType["ExpressionNode"] = true
	confined := w.confinedTypes()
	isShared := func(owner string, root ssa.Value) bool {
		if _, isG := root.(*ssa.Global); isG {
			// sync.Pool variables synchronise themselves
			if isSyncPool(deref(root.Type())) {
				return false
			}
			return true
		}
		if classLocal[owner] || nodeType[owner] || confined[owner] {
			return false
		}
		return !isFreshRoot(root)
	}

	var accesses []*sharedAccess
	for _, fn := range fns {
		if !reach[fn] {
			continue
		}
		instrsOf(fn, func(in ssa.Instruction) {
			switch x := in.(type) {
			case *ssa.Store:
				if owner, path, root, ok := w.locOf(x.Addr); ok && isShared(owner, root) {
					accesses = append(accesses, &sharedAccess{fn, in, owner, path, true, "store"})
				}
			case *ssa.MapUpdate:
				if u, ok := x.Map.(*ssa.UnOp); ok && u.Op == token.MUL {
					if owner, path, root, ok := w.locOf(u.X); ok && isShared(owner, root) {
						accesses = append(accesses, &sharedAccess{fn, in, owner, path, true, "map update"})
					}
				}
			case *ssa.Lookup:
				if u, ok := x.X.(*ssa.UnOp); ok && u.Op == token.MUL {
					if owner, path, root, ok := w.locOf(u.X); ok && isShared(owner, root) {
						accesses = append(accesses, &sharedAccess{fn, in, owner, path, false, "map lookup"})
					}
				}
			case *ssa.Range:
				if u, ok := x.X.(*ssa.UnOp); ok && u.Op == token.MUL {
					if owner, path, root, ok := w.locOf(u.X); ok && isShared(owner, root) {
						accesses = append(accesses, &sharedAccess{fn, in, owner, path, false, "range"})
					}
				}
			case *ssa.UnOp:
				if x.Op == token.MUL {
					if owner, path, root, ok := w.locOf(x.X); ok && isShared(owner, root) {
						accesses = append(accesses, &sharedAccess{fn, in, owner, path, false, "load"})
					}
				}
			case ssa.CallInstruction:
				if b, ok := x.Common().Value.(*ssa.Builtin); ok && b.Name() == "delete" {
					if u, ok := x.Common().Args[0].(*ssa.UnOp); ok && u.Op == token.MUL {
						if owner, path, root, ok := w.locOf(u.X); ok && isShared(owner, root) {
							accesses = append(accesses, &sharedAccess{fn, in, owner, path, true, "map delete"})
						}
					}
				}
			}
		})
	}
	// owner locks: mutex fields of the same struct / global
	ownerLock := func(owner string) []lockKey {
		var st *types.Struct
		if o := w.tryLookup(owner); o != nil {
			st, _ = o.Type().Underlying().(*types.Struct)
		}
		if st == nil {
			return nil
		}
		var out []lockKey
		for i := 0; i < st.NumFields(); i++ {
			if isMutexType(st.Field(i).Type()) {
				out = append(out, lockKey(owner+"."+st.Field(i).Name()))
			}
		}
		return out
	}
	written := map[string]bool{}
	for _, a := range accesses {
		if a.write {
			written[a.owner+"."+a.path] = true
		}
	}
	nW, nR := 0, 0
	for _, a := range accesses {
		loc := a.owner + "." + a.path
		// mutex fields themselves and their internals are not data
		if strings.Contains(a.path, "RWMutex") || strings.HasSuffix(a.path, ".mu") || a.path == "mu" {
			continue
		}
		if !a.write && !written[loc] {
			continue
		}
		locks := ownerLock(a.owner)
		held := la.at(a.in)
		construct := a.what + " " + loc
		pos := w.posOf(a.in.Pos())
		if a.write {
			nW++
		} else {
			nR++
		}
		if len(locks) == 0 {
			if a.write {
				r.bad("R02.1", ssaName(a.fn), construct, pos, "shared state without an owner lock is written on a path reachable from the concurrent API ("+strings.Join(w.pathTo(roots, a.fn), " → ")+"): two goroutines using the engine race on it")
			} else {
				r.bad("R02.1", ssaName(a.fn), construct, pos, "reads shared state that is written, without any lock, by calls that may run concurrently")
			}
			continue
		}
		ok := false
		for _, l := range locks {
			if held[l] {
				ok = true
			}
		}
		if ok {
			r.ok("R02.1", ssaName(a.fn), construct, pos, "owner lock "+string(locks[0])+" held", true)
		} else {
			var hs []string
			for k := range held {
				hs = append(hs, string(k))
			}
			sort.Strings(hs)
			r.bad("R02.1", ssaName(a.fn), construct, pos, fmt.Sprintf("accessed without its owner lock %v (held here: %v) on a path reachable from the concurrent API (%s)", locks, hs, strings.Join(w.pathTo(roots, a.fn), " → ")))
		}
	}
	r.floor("writes to shared locations from the concurrent roots", nW, 3)
	r.Counts["reads of written shared locations"] = nR

	checkR02_2(w, r)
	checkLockLeaks(w, r, la, "R02.3")
	// the pool hand-off rule
	checkR01_4(w, r)
}

func sortedKeys(m map[string]bool) []string {
	var out []string
	for k := range m {
		out = append(out, k)
	}
	sort.Strings(out)
	return out
}

// R02.2: arguments of filepath.Dir in Render methods of nodes never derive from an Engine field.
func checkR02_2(w *World, r *Report) {
	n := 0
	reach := w.renderOnlyReachable()
	for _, fn := range w.pkgFuncs() {
		if !reach[fn] {
			continue
		}
		instrsOf(fn, func(in ssa.Instruction) {
			c, ok := in.(*ssa.Call)
			if !ok || !isFunc(calleeFunc(c), "path/filepath", "", "Dir") {
				return
			}
			n++
			construct := "directory used to resolve relative template names"
			if src := derivesFromEngineField(c.Call.Args[0], map[ssa.Value]bool{}, 0); src != "" {
				r.bad("R02.2", ssaName(fn), construct, w.posOf(in.Pos()), "the directory comes from "+src+", engine-wide state that every concurrent Render overwrites: ./ and ../ names resolve against whatever template another goroutine is rendering")
			} else {
				r.ok("R02.2", ssaName(fn), construct, w.posOf(in.Pos()), "derived from per-render state (the render context / its template)", true)
			}
		})
	}
	r.floor("relative-name resolution sites on render paths", n, 1)
}

func derivesFromEngineField(v ssa.Value, seen map[ssa.Value]bool, depth int) string {
	if seen[v] || depth > 10 {
		return ""
	}
	seen[v] = true
	switch x := v.(type) {
	case *ssa.UnOp:
		if fa, ok := x.X.(*ssa.FieldAddr); ok {
			tn, f := fieldOfAddr(fa)
			if tn == "Engine" {
				return "Engine." + f
			}
			return derivesFromEngineField(fa.X, seen, depth+1)
		}
		if al, ok := x.X.(*ssa.Alloc); ok && al.Referrers() != nil {
			for _, ref := range *al.Referrers() {
				if st, ok := ref.(*ssa.Store); ok && st.Addr == al {
					if s := derivesFromEngineField(st.Val, seen, depth+1); s != "" {
						return s
					}
				}
			}
		}
		return derivesFromEngineField(x.X, seen, depth+1)
	case *ssa.Phi:
		for _, e := range x.Edges {
			if s := derivesFromEngineField(e, seen, depth+1); s != "" {
				return s
			}
		}
	case *ssa.FieldAddr:
		tn, f := fieldOfAddr(x)
		if tn == "Engine" {
			return "Engine." + f
		}
		return derivesFromEngineField(x.X, seen, depth+1)
	case *ssa.Call:
		for _, a := range x.Call.Args {
			if s := derivesFromEngineField(a, seen, depth+1); s != "" {
				return s
			}
		}
	case *ssa.Extract:
		return derivesFromEngineField(x.Tuple, seen, depth+1)
	case *ssa.BinOp:
		if s := derivesFromEngineField(x.X, seen, depth+1); s != "" {
			return s
		}
		return derivesFromEngineField(x.Y, seen, depth+1)
	case *ssa.Parameter:
		// a helper: what its in-package callers pass
		fn := x.Parent()
		if curWorld == nil || fn == nil {
			return ""
		}
		idx := -1
		for i, p := range fn.Params {
			if p == x {
				idx = i
			}
		}
		if node := curWorld.callgraph().Nodes[fn]; node != nil && idx >= 0 {
			for _, e := range node.In {
				if e.Site == nil || e.Caller.Func.Package() != fn.Package() {
					continue
				}
				cc := e.Site.Common()
				if cc.IsInvoke() || cc.StaticCallee() != fn || idx >= len(cc.Args) {
					continue
				}
				if s := derivesFromEngineField(cc.Args[idx], seen, depth+1); s != "" {
					return s + " (passed by " + ssaName(e.Caller.Func) + ")"
				}
			}
		}
	}
	return ""
}

// curWorld: the program under analysis, for helpers that need the call graph.
var curWorld *World

// confinedTypes: named struct types of the package whose values never leave the goroutine that
// created them — no value of type T or *T is ever stored into a field, an element, a map, a
// package variable or a channel, converted to an interface, captured by a goroutine, or put into
// a pool.  Such values live in locals, parameters and results only (a helper struct that groups
// the locals of one call), so accesses to their fields cannot race.
func (w *World) confinedTypes() map[string]bool {
	if w.confinedMemo != nil {
		return w.confinedMemo
	}
	isT := func(t types.Type) *types.Named {
		n, ok := deref(t).(*types.Named)
		if !ok || n.Obj().Pkg() == nil || n.Obj().Pkg().Path() != twigPath {
			return nil
		}
		if _, isSt := n.Underlying().(*types.Struct); !isSt {
			return nil
		}
		return n
	}
	escapes := map[string]bool{}
	created := map[string]bool{}
	mark := func(v ssa.Value) {
		if n := isT(v.Type()); n != nil {
			escapes[n.Obj().Name()] = true
		}
	}
	for _, fn := range w.pkgFuncs() {
		instrsOf(fn, func(in ssa.Instruction) {
			switch x := in.(type) {
			case *ssa.Alloc:
				if n := isT(x.Type()); n != nil {
					created[n.Obj().Name()] = true
				}
			case *ssa.Store:
				if _, isLocal := x.Addr.(*ssa.Alloc); !isLocal {
					mark(x.Val)
				} else if al := x.Addr.(*ssa.Alloc); al.Heap {
					// a heap local captured by closures is still this call's, unless a goroutine takes it
				}
			case *ssa.MapUpdate:
				mark(x.Value)
				mark(x.Key)
			case *ssa.Send:
				mark(x.X)
			case *ssa.MakeInterface:
				mark(x.X)
			case *ssa.Go:
				for _, a := range x.Call.Args {
					mark(a)
				}
			case *ssa.Call:
				// append(slice of T, …) stores T values into a slice
				if b, ok := x.Call.Value.(*ssa.Builtin); ok && b.Name() == "append" && len(x.Call.Args) > 0 {
					if sl, ok := x.Call.Args[0].Type().Underlying().(*types.Slice); ok {
						if n := isT(sl.Elem()); n != nil {
							escapes[n.Obj().Name()] = true
						}
					}
				}
			}
		})
	}
	// types that occur as field / element types of other types can be reached through those
	sc := w.TPkg.Scope()
	for _, nm := range sc.Names() {
		tn, ok := sc.Lookup(nm).(*types.TypeName)
		if !ok {
			continue
		}
		var visit func(t types.Type, depth int)
		visit = func(t types.Type, depth int) {
			if depth > 4 {
				return
			}
			switch u := t.Underlying().(type) {
			case *types.Struct:
				for i := 0; i < u.NumFields(); i++ {
					ft := u.Field(i).Type()
					if n := isT(ft); n != nil && n.Obj() != tn {
						escapes[n.Obj().Name()] = true
					}
					switch e := ft.Underlying().(type) {
					case *types.Slice:
						if n := isT(e.Elem()); n != nil {
							escapes[n.Obj().Name()] = true
						}
					case *types.Map:
						if n := isT(e.Elem()); n != nil {
							escapes[n.Obj().Name()] = true
						}
					}
				}
			}
		}
		visit(tn.Type(), 0)
	}
	// package-level variables of the type
	for _, nm := range sc.Names() {
		if v, ok := sc.Lookup(nm).(*types.Var); ok {
			if n := isT(v.Type()); n != nil {
				escapes[n.Obj().Name()] = true
			}
		}
	}
	out := map[string]bool{}
	for t := range created {
		// exported types are handed to the package's users, who may share them
		if !escapes[t] && !token.IsExported(t) {
			out[t] = true
		}
	}
	w.confinedMemo = out
	return out
}
