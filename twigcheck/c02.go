package main

// C02 — concurrent use of one engine is safe.
//
// R02.1 lockset: every write (field store, map update/delete) to shared memory — fields of the
//       package's long-lived struct types (Engine, Environment, Template, loaders, …) and of
//       package-level variables — in a function reachable from the concurrent API roots
//       (Engine.Render/RenderTo/Load/ParseTemplate/RegisterString) happens while the owner lock
//       of that location (a sync.Mutex/RWMutex that is a sibling field of the same struct) is
//       held; a shared location without an owner lock may not be written from those roots at
//       all.  Every read of a location that has such a write holds the same lock.
// R02.2 relative template names resolve from per-render state: the directory used to resolve
//       ./ and ../ names in a Node's Render never derives from a field of *Engine.
// R02.3 lock regions cannot be left locked: every Lock without a deferred Unlock reaches its
//       Unlock on every path.
// (R01.4, the pool hand-off rule, is an obligation of C02 as well and is re-checked here.)

import (
	"fmt"
	"go/token"
	"go/types"
	"os"
	"sort"
	"strings"

	"golang.org/x/tools/go/ssa"
)

func init() { register("C02", checkC02) }

// call-local classes: objects owned by one goroutine between acquire and release (R01.4) or
// immutable after publication (nodes: R01.2).
var classLocal = map[string]bool{
	"Parser": true, "RenderContext": true, "ZeroAllocTokenizer": true, "TokenizerPooled": true,
	"Buffer": true, "StringBuffer": true, "Token": true, "TagLocation": true, "FilterChainItem": true,
	"EnhancedError": true, "SecurityViolation": true, "CompiledTemplate": true,
}

type lockKey string

func isMutexType(t types.Type) bool {
	return isNamed(t, "sync", "Mutex") || isNamed(t, "sync", "RWMutex")
}

// locOf: identity of the memory location addressed by a FieldAddr chain: (owner type or global
// name, field path) plus the root value.
func (w *World) locOf(addr ssa.Value) (owner string, path string, root ssa.Value, ok bool) {
	// a package-level scalar (counter, flag) addressed directly
	if g, isG := addr.(*ssa.Global); isG && g.Pkg != nil && g.Pkg.Pkg.Path() == twigPath {
		_, isSt := deref(g.Type()).Underlying().(*types.Struct)
		if n, isN := deref(g.Type()).(*types.Named); isN && n.Obj().Pkg() != nil && n.Obj().Pkg().Path() == "sync/atomic" {
			isSt = false // atomic.Int32 and friends are scalars with methods
		}
		if !isSt {
			return g.Name(), "(value)", g, true
		}
	}
	root, path, ok = addrPath(addr)
	if !ok {
		return "", "", nil, false
	}
	if g, isG := root.(*ssa.Global); isG {
		// a package-level variable of a named struct type is reached through its methods'
		// receivers as well: name the location by the type, so both views agree
		if n, isN := deref(g.Type()).(*types.Named); isN && n.Obj().Pkg() != nil && n.Obj().Pkg().Path() == twigPath {
			if _, isSt := n.Underlying().(*types.Struct); isSt {
				return n.Obj().Name(), path, root, true
			}
		}
		return g.Name(), path, root, true
	}
	t := deref(root.Type())
	if n, isN := t.(*types.Named); isN && n.Obj().Pkg() != nil && n.Obj().Pkg().Path() == twigPath {
		return n.Obj().Name(), path, root, true
	}
	return "", "", nil, false
}

func isFreshRoot(root ssa.Value) bool {
	switch x := root.(type) {
	case *ssa.Alloc:
		return true
	case *ssa.TypeAssert:
		if c, ok := x.X.(*ssa.Call); ok && isFunc(calleeFunc(c), "sync", "Pool", "Get") {
			return true
		}
	case *ssa.Phi:
		for _, e := range x.Edges {
			if !isFreshRoot(e) {
				return false
			}
		}
		return true
	}
	return false
}

type lockAnalysis struct {
	w     *World
	entry map[*ssa.Function]map[lockKey]bool
	in    map[*ssa.Function]map[*ssa.BasicBlock]map[lockKey]bool
}

func (la *lockAnalysis) lockOp(in ssa.Instruction) (key lockKey, acquire bool, deferred bool, ok bool) {
	c, isCall := in.(ssa.CallInstruction)
	if !isCall {
		return "", false, false, false
	}
	f := calleeFunc(c)
	if f == nil || f.Pkg() == nil || f.Pkg().Path() != "sync" {
		return "", false, false, false
	}
	switch f.Name() {
	case "Lock", "RLock":
		acquire = true
	case "Unlock", "RUnlock":
	default:
		return "", false, false, false
	}
	recv := c.Common().Args[0]
	owner, path, _, lok := la.w.locOf(recv)
	if !lok {
		return "", false, false, false
	}
	_, deferred = in.(*ssa.Defer)
	// the read side of an RWMutex is a lock of its own: it admits other readers, so it
	// protects reads only
	mode := ""
	if f.Name() == "RLock" || f.Name() == "RUnlock" {
		mode = "#r"
	}
	return lockKey(owner + "." + path + mode), acquire, deferred, true
}

func copySet(s map[lockKey]bool) map[lockKey]bool {
	o := map[lockKey]bool{}
	for k := range s {
		o[k] = true
	}
	return o
}

func meet(a, b map[lockKey]bool) map[lockKey]bool {
	if a == nil {
		return copySet(b)
	}
	o := map[lockKey]bool{}
	for k := range a {
		if b[k] {
			o[k] = true
		}
	}
	return o
}

func sameSet(a, b map[lockKey]bool) bool {
	if len(a) != len(b) {
		return false
	}
	for k := range a {
		if !b[k] {
			return false
		}
	}
	return true
}

func (la *lockAnalysis) step(in ssa.Instruction, st map[lockKey]bool) {
	if k, acq, deferred, ok := la.lockOp(in); ok {
		if acq {
			st[k] = true
		} else if !deferred {
			delete(st, k)
		}
	}
}

func (la *lockAnalysis) solveFn(fn *ssa.Function) {
	in := map[*ssa.BasicBlock]map[lockKey]bool{}
	reach := reachableBlocks(fn)
	if len(fn.Blocks) == 0 {
		la.in[fn] = in
		return
	}
	in[fn.Blocks[0]] = copySet(la.entry[fn])
	for changed := true; changed; {
		changed = false
		for _, b := range fn.Blocks {
			if !reach[b] || b == fn.Blocks[0] {
				continue
			}
			var acc map[lockKey]bool
			for _, p := range b.Preds {
				if !reach[p] {
					continue
				}
				pin, ok := in[p]
				if !ok {
					continue // not yet computed: optimistic
				}
				out := copySet(pin)
				for _, x := range p.Instrs {
					la.step(x, out)
				}
				acc = meet(acc, out)
			}
			if acc == nil {
				continue
			}
			if old, ok := in[b]; !ok || !sameSet(old, acc) {
				in[b] = acc
				changed = true
			}
		}
	}
	la.in[fn] = in
}

func (la *lockAnalysis) at(in ssa.Instruction) map[lockKey]bool {
	fn := in.Parent()
	st := copySet(la.in[fn][in.Block()])
	for _, x := range in.Block().Instrs {
		if x == in {
			break
		}
		la.step(x, st)
	}
	return st
}

func (la *lockAnalysis) solve(fns []*ssa.Function) {
	la.entry = map[*ssa.Function]map[lockKey]bool{}
	la.in = map[*ssa.Function]map[*ssa.BasicBlock]map[lockKey]bool{}
	for _, fn := range fns {
		la.entry[fn] = map[lockKey]bool{}
	}
	g := la.w.callgraph()
	for round := 0; round < 4; round++ {
		for _, fn := range fns {
			la.solveFn(fn)
		}
		changed := false
		for _, fn := range fns {
			node := g.Nodes[fn]
			if node == nil || len(node.In) == 0 {
				continue
			}
			var acc map[lockKey]bool
			okAll := true
			for _, e := range node.In {
				if e.Site == nil || !la.w.inPkg(e.Caller.Func) || e.Site.Common().StaticCallee() != fn {
					okAll = false
					break
				}
				if _, isGo := e.Site.(*ssa.Go); isGo {
					okAll = false
					break
				}
				acc = meet(acc, la.at(e.Site))
			}
			if !okAll || acc == nil {
				acc = map[lockKey]bool{}
			}
			if !sameSet(acc, la.entry[fn]) {
				la.entry[fn] = acc
				changed = true
			}
		}
		if !changed {
			break
		}
	}
}

type sharedAccess struct {
	fn    *ssa.Function
	in    ssa.Instruction
	owner string
	path  string
	write bool
	what  string
}

func checkC02(w *World, r *Report) {
	r.Explanation = "Decides race-freedom of the engine's own shared memory under every schedule, by ownership classes plus locksets: (R02.1) in every function reachable from the concurrent API roots (Engine.Render, RenderTo, Load, ParseTemplate, RegisterString), every write to a field of a long-lived struct (Engine, Environment, Template, loaders, extensions, …) or of a package-level variable, on an object that is not fresh in that function, is made while the sibling mutex of that struct is held, a location without a sibling mutex is never written from those roots, and every read of a location that is so written holds the same lock; per-call objects (Parser, RenderContext, tokenizer, buffers) are owned by one goroutine by the pool hand-off rule R01.4 and parse-tree objects are immutable after publication by R01.2; (R02.2) the directory against which ./ and ../ template names are resolved in a Node's Render never derives from a field of *Engine; (R02.3) every Lock without a deferred Unlock reaches its Unlock on every path. Not decided: that concurrent results equal serial results (an equivalence over schedules); races inside user callbacks and user io.Writers; configuration calls racing with renders. (R02.4) no Return or Panic in that code is control dependent on a shared integer location (field of a long-lived struct or package variable) that calls which may run concurrently write, by a store or a sync/atomic operation — a per-render quantity kept on the engine is the sum over all goroutines; and no call made inside a lock region can reach an acquisition of the same (non re-entrant) mutex."
	r.Explanation += " Rules added in later rounds: (R02.4) counters written from concurrent roots never decide a return/panic; read locks do not license writes; (R02.5) registered trees are never released."
	r.Explanation += " Round 9: (R02.6) no struct holding a mutex is passed or copied by value."
	r.Explanation += " Round 14: (R02.7) objects of other packages kept in package-level variables are used only through goroutine-safe types, or under a lock."
	r.Explanation += " Round 10: taint from shared counters passes through local result slots."
	r.RuleText = "obligation = one access to a shared location from the concurrent roots (writes and the reads of written locations), one directory expression, one lock region; non-trivial = all"
	r.Trusted = []string{"class table: per-call types " + strings.Join(sortedKeys(classLocal), ", ") + " and Node implementations; every other named struct type of the package and every package variable is shared", "call graph over-approximation"}
	r.Assumptions = []string{"the engine is configured before concurrent use (AddFilter, SetCache, SetTemplate … are not concurrent with renders)"}

	roots := []*ssa.Function{}
	for _, m := range []string{"Render", "RenderTo", "Load", "ParseTemplate", "RegisterString"} {
		roots = append(roots, w.ssaFunc(w.method("Engine", m)))
	}
	reach := w.reachableFrom(roots)
	var fns []*ssa.Function
	for _, fn := range w.pkgFuncs() {
		fns = append(fns, fn)
	}
	la := &lockAnalysis{w: w}
	la.solve(fns)

	nodeType := map[string]bool{}
	for _, n := range w.nodeStructs() {
		nodeType[n.Obj().Name()] = true
	}
	nodeType["ExpressionNode"] = true
	confined := w.confinedTypes()
	isShared := func(owner string, root ssa.Value) bool {
		if _, isG := root.(*ssa.Global); isG {
			// sync.Pool variables synchronise themselves
			if isSyncPool(deref(root.Type())) {
				return false
			}
			return true
		}
		if classLocal[owner] || nodeType[owner] || confined[owner] {
			return false
		}
		return !isFreshRoot(root)
	}

	var accesses []*sharedAccess
	for _, fn := range fns {
		if !reach[fn] {
			continue
		}
		instrsOf(fn, func(in ssa.Instruction) {
			switch x := in.(type) {
			case *ssa.Store:
				if owner, path, root, ok := w.locOf(x.Addr); ok && isShared(owner, root) {
					accesses = append(accesses, &sharedAccess{fn, in, owner, path, true, "store"})
				}
			case *ssa.MapUpdate:
				if u, ok := x.Map.(*ssa.UnOp); ok && u.Op == token.MUL {
					if owner, path, root, ok := w.locOf(u.X); ok && isShared(owner, root) {
						accesses = append(accesses, &sharedAccess{fn, in, owner, path, true, "map update"})
					}
				}
			case *ssa.Lookup:
				if u, ok := x.X.(*ssa.UnOp); ok && u.Op == token.MUL {
					if owner, path, root, ok := w.locOf(u.X); ok && isShared(owner, root) {
						accesses = append(accesses, &sharedAccess{fn, in, owner, path, false, "map lookup"})
					}
				}
			case *ssa.Range:
				if u, ok := x.X.(*ssa.UnOp); ok && u.Op == token.MUL {
					if owner, path, root, ok := w.locOf(u.X); ok && isShared(owner, root) {
						accesses = append(accesses, &sharedAccess{fn, in, owner, path, false, "range"})
					}
				}
			case *ssa.UnOp:
				if x.Op == token.MUL {
					if owner, path, root, ok := w.locOf(x.X); ok && isShared(owner, root) {
						accesses = append(accesses, &sharedAccess{fn, in, owner, path, false, "load"})
					}
				}
			case ssa.CallInstruction:
				if b, ok := x.Common().Value.(*ssa.Builtin); ok && b.Name() == "delete" {
					if u, ok := x.Common().Args[0].(*ssa.UnOp); ok && u.Op == token.MUL {
						if owner, path, root, ok := w.locOf(u.X); ok && isShared(owner, root) {
							accesses = append(accesses, &sharedAccess{fn, in, owner, path, true, "map delete"})
						}
					}
				}
			}
		})
	}
	// owner locks: mutex fields of the same struct / global
	ownerLock := func(owner string) []lockKey {
		var st *types.Struct
		if o := w.tryLookup(owner); o != nil {
			st, _ = o.Type().Underlying().(*types.Struct)
		}
		if st == nil {
			return nil
		}
		var out []lockKey
		for i := 0; i < st.NumFields(); i++ {
			if isMutexType(st.Field(i).Type()) {
				out = append(out, lockKey(owner+"."+st.Field(i).Name()))
			}
		}
		return out
	}
	written := map[string]bool{}
	for _, a := range accesses {
		if a.write {
			written[a.owner+"."+a.path] = true
		}
	}
	nW, nR := 0, 0
	for _, a := range accesses {
		loc := a.owner + "." + a.path
		// mutex fields themselves and their internals are not data
		if strings.Contains(a.path, "RWMutex") || strings.HasSuffix(a.path, ".mu") || a.path == "mu" {
			continue
		}
		if !a.write && !written[loc] {
			continue
		}
		locks := ownerLock(a.owner)
		held := la.at(a.in)
		construct := a.what + " " + loc
		pos := w.posOf(a.in.Pos())
		if a.write {
			nW++
		} else {
			nR++
		}
		if len(locks) == 0 {
			if a.write {
				r.bad("R02.1", ssaName(a.fn), construct, pos, "shared state without an owner lock is written on a path reachable from the concurrent API ("+strings.Join(w.pathTo(roots, a.fn), " → ")+"): two goroutines using the engine race on it")
			} else {
				r.bad("R02.1", ssaName(a.fn), construct, pos, "reads shared state that is written, without any lock, by calls that may run concurrently")
			}
			continue
		}
		ok := false
		readOnly := false
		for _, l := range locks {
			if held[l] {
				ok = true
			}
			if held[l+"#r"] {
				if a.write {
					readOnly = true
				} else {
					ok = true
				}
			}
		}
		if !ok && readOnly {
			r.bad("R02.1", ssaName(a.fn), construct, pos, fmt.Sprintf("written while only the read side of %v is held (RLock admits other readers and other holders of the read lock): two goroutines can modify, or read and modify, the location at the same time — Go maps fail with 'concurrent map writes'", locks))
			continue
		}
		if ok {
			r.ok("R02.1", ssaName(a.fn), construct, pos, "owner lock "+string(locks[0])+" held", true)
		} else {
			var hs []string
			for k := range held {
				hs = append(hs, string(k))
			}
			sort.Strings(hs)
			r.bad("R02.1", ssaName(a.fn), construct, pos, fmt.Sprintf("accessed without its owner lock %v (held here: %v) on a path reachable from the concurrent API (%s)", locks, hs, strings.Join(w.pathTo(roots, a.fn), " → ")))
		}
	}
	r.floor("writes to shared locations from the concurrent roots", nW, 3)
	r.Counts["reads of written shared locations"] = nR

	checkR02_2(w, r)
	checkSharedCounters(w, r, "R02.4", fns, reach, isShared, roots)
	checkLocksNotCopied(w, r)
	checkLockLeaks(w, r, la, "R02.3")
	// the pool hand-off rule
	checkR01_4(w, r)
	checkTemplateTreeNeverReleased(w, r, "R02.5")
	checkSharedForeignObjects(w, r, reach)
}

func sortedKeys(m map[string]bool) []string {
	var out []string
	for k := range m {
		out = append(out, k)
	}
	sort.Strings(out)
	return out
}

// R02.2: arguments of filepath.Dir in Render methods of nodes never derive from an Engine field.
func checkR02_2(w *World, r *Report) {
	n := 0
	reach := w.renderOnlyReachable()
	for _, fn := range w.pkgFuncs() {
		if !reach[fn] {
			continue
		}
		instrsOf(fn, func(in ssa.Instruction) {
			c, ok := in.(*ssa.Call)
			if !ok || !isFunc(calleeFunc(c), "path/filepath", "", "Dir") {
				return
			}
			n++
			construct := "directory used to resolve relative template names"
			if src := derivesFromEngineField(c.Call.Args[0], map[ssa.Value]bool{}, 0); src != "" {
				r.bad("R02.2", ssaName(fn), construct, w.posOf(in.Pos()), "the directory comes from "+src+", engine-wide state that every concurrent Render overwrites: ./ and ../ names resolve against whatever template another goroutine is rendering")
			} else {
				r.ok("R02.2", ssaName(fn), construct, w.posOf(in.Pos()), "derived from per-render state (the render context / its template)", true)
			}
		})
	}
	r.floor("relative-name resolution sites on render paths", n, 1)
}

func derivesFromEngineField(v ssa.Value, seen map[ssa.Value]bool, depth int) string {
	if seen[v] || depth > 10 {
		return ""
	}
	seen[v] = true
	switch x := v.(type) {
	case *ssa.UnOp:
		if fa, ok := x.X.(*ssa.FieldAddr); ok {
			tn, f := fieldOfAddr(fa)
			if tn == "Engine" {
				return "Engine." + f
			}
			return derivesFromEngineField(fa.X, seen, depth+1)
		}
		if al, ok := x.X.(*ssa.Alloc); ok && al.Referrers() != nil {
			for _, ref := range *al.Referrers() {
				if st, ok := ref.(*ssa.Store); ok && st.Addr == al {
					if s := derivesFromEngineField(st.Val, seen, depth+1); s != "" {
						return s
					}
				}
			}
		}
		return derivesFromEngineField(x.X, seen, depth+1)
	case *ssa.Phi:
		for _, e := range x.Edges {
			if s := derivesFromEngineField(e, seen, depth+1); s != "" {
				return s
			}
		}
	case *ssa.FieldAddr:
		tn, f := fieldOfAddr(x)
		if tn == "Engine" {
			return "Engine." + f
		}
		return derivesFromEngineField(x.X, seen, depth+1)
	case *ssa.Call:
		for _, a := range x.Call.Args {
			if s := derivesFromEngineField(a, seen, depth+1); s != "" {
				return s
			}
		}
	case *ssa.Extract:
		return derivesFromEngineField(x.Tuple, seen, depth+1)
	case *ssa.BinOp:
		if s := derivesFromEngineField(x.X, seen, depth+1); s != "" {
			return s
		}
		return derivesFromEngineField(x.Y, seen, depth+1)
	case *ssa.Parameter:
		// a helper: what its in-package callers pass
		fn := x.Parent()
		if curWorld == nil || fn == nil {
			return ""
		}
		idx := -1
		for i, p := range fn.Params {
			if p == x {
				idx = i
			}
		}
		if node := curWorld.callgraph().Nodes[fn]; node != nil && idx >= 0 {
			for _, e := range node.In {
				if e.Site == nil || e.Caller.Func.Package() != fn.Package() {
					continue
				}
				cc := e.Site.Common()
				if cc.IsInvoke() || cc.StaticCallee() != fn || idx >= len(cc.Args) {
					continue
				}
				if s := derivesFromEngineField(cc.Args[idx], seen, depth+1); s != "" {
					return s + " (passed by " + ssaName(e.Caller.Func) + ")"
				}
			}
		}
	}
	return ""
}

// curWorld: the program under analysis, for helpers that need the call graph.
var curWorld *World

// confinedTypes: named struct types of the package whose values never leave the goroutine that
// created them — no value of type T or *T is ever stored into a field, an element, a map, a
// package variable or a channel, converted to an interface, captured by a goroutine, or put into
// a pool.  Such values live in locals, parameters and results only (a helper struct that groups
// the locals of one call), so accesses to their fields cannot race.
func (w *World) confinedTypes() map[string]bool {
	if w.confinedMemo != nil {
		return w.confinedMemo
	}
	isT := func(t types.Type) *types.Named {
		n, ok := deref(t).(*types.Named)
		if !ok || n.Obj().Pkg() == nil || n.Obj().Pkg().Path() != twigPath {
			return nil
		}
		if _, isSt := n.Underlying().(*types.Struct); !isSt {
			return nil
		}
		return n
	}
	escapes := map[string]bool{}
	created := map[string]bool{}
	containedBy := map[string][]string{}
	mark := func(v ssa.Value) {
		if n := isT(v.Type()); n != nil {
			escapes[n.Obj().Name()] = true
		}
	}
	for _, fn := range w.pkgFuncs() {
		instrsOf(fn, func(in ssa.Instruction) {
			switch x := in.(type) {
			case *ssa.Alloc:
				if n := isT(x.Type()); n != nil {
					created[n.Obj().Name()] = true
				}
			case *ssa.Store:
				if _, isLocal := x.Addr.(*ssa.Alloc); !isLocal {
					mark(x.Val)
				} else if al := x.Addr.(*ssa.Alloc); al.Heap {
					// a heap local captured by closures is still this call's, unless a goroutine takes it
				}
			case *ssa.MapUpdate:
				mark(x.Value)
				mark(x.Key)
			case *ssa.Send:
				mark(x.X)
			case *ssa.MakeInterface:
				mark(x.X)
			case *ssa.Go:
				for _, a := range x.Call.Args {
					mark(a)
				}
			case *ssa.Call:
				// append(slice of T, …) stores T values into a slice
				if b, ok := x.Call.Value.(*ssa.Builtin); ok && b.Name() == "append" && len(x.Call.Args) > 0 {
					if sl, ok := x.Call.Args[0].Type().Underlying().(*types.Slice); ok {
						if n := isT(sl.Elem()); n != nil {
							escapes[n.Obj().Name()] = true
						}
					}
				}
			}
		})
	}
	// types that occur as field / element types of other types can be reached through those
	sc := w.TPkg.Scope()
	for _, nm := range sc.Names() {
		tn, ok := sc.Lookup(nm).(*types.TypeName)
		if !ok {
			continue
		}
		var visit func(t types.Type, depth int)
		visit = func(t types.Type, depth int) {
			if depth > 4 {
				return
			}
			switch u := t.Underlying().(type) {
			case *types.Struct:
				for i := 0; i < u.NumFields(); i++ {
					ft := u.Field(i).Type()
					if n := isT(ft); n != nil && n.Obj() != tn {
						if _, isPtr := ft.(*types.Pointer); !isPtr && isT(tn.Type()) != nil {
							// embedded by value in another struct of the package: as confined as its container
							containedBy[n.Obj().Name()] = append(containedBy[n.Obj().Name()], tn.Name())
						} else {
							escapes[n.Obj().Name()] = true
						}
					}
					switch e := ft.Underlying().(type) {
					case *types.Slice:
						if n := isT(e.Elem()); n != nil {
							escapes[n.Obj().Name()] = true
						}
					case *types.Map:
						if n := isT(e.Elem()); n != nil {
							escapes[n.Obj().Name()] = true
						}
					}
				}
			}
		}
		visit(tn.Type(), 0)
	}
	// package-level variables of the type
	for _, nm := range sc.Names() {
		if v, ok := sc.Lookup(nm).(*types.Var); ok {
			if n := isT(v.Type()); n != nil {
				escapes[n.Obj().Name()] = true
			}
		}
	}
	// a type held by value in a field escapes with its container (or when the container is
	// exported or never created locally: its values then come from elsewhere)
	for changed := true; changed; {
		changed = false
		for inner, outers := range containedBy {
			if escapes[inner] {
				continue
			}
			for _, o := range outers {
				if escapes[o] || token.IsExported(o) {
					escapes[inner] = true
					changed = true
				}
			}
		}
	}
	for inner := range containedBy {
		created[inner] = true // created as part of its container
	}
	out := map[string]bool{}
	for t := range created {
		// exported types are handed to the package's users, who may share them
		if !escapes[t] && !token.IsExported(t) {
			out[t] = true
		}
	}
	w.confinedMemo = out
	return out
}

// R02.4 — what one call returns does not depend on how many other calls are in flight: a shared
// integer location (field of a long-lived struct or package variable) that is written — by a
// store or a sync/atomic operation, locked or not — in code reachable from the concurrent roots
// never decides whether a function in that code returns (or panics): no Return/Panic is control
// dependent on a condition computed from a read of such a location.  Locks and atomics make a
// counter race-free, not per-call: a nesting depth, an in-flight count or a budget kept on the
// engine is the sum over all goroutines.  (Cache sizes that only decide whether to evict are
// not affected: eviction does not return.)
func checkSharedCounters(w *World, r *Report, rule string, fns []*ssa.Function, reach map[*ssa.Function]bool, isShared func(string, ssa.Value) bool, roots []*ssa.Function) {
	// counters, flags, remembered names: any basic-typed location
	isInt := func(t types.Type) bool {
		_, ok := t.Underlying().(*types.Basic)
		return ok
	}
	isAtomicInt := func(t types.Type) bool {
		n, ok := t.(*types.Named)
		return ok && n.Obj().Pkg() != nil && n.Obj().Pkg().Path() == "sync/atomic" && strings.HasPrefix(n.Obj().Name(), "Int") || ok && n.Obj().Pkg() != nil && n.Obj().Pkg().Path() == "sync/atomic" && strings.HasPrefix(n.Obj().Name(), "Uint")
	}
	// atomicOp: the call is a sync/atomic operation on a shared location; writes/reads tell what it does
	atomicOp := func(c ssa.CallInstruction) (loc string, writes, reads bool, ok bool) {
		f := calleeFunc(c)
		if f == nil || f.Pkg() == nil || f.Pkg().Path() != "sync/atomic" || len(c.Common().Args) == 0 {
			return "", false, false, false
		}
		name := f.Name()
		if sig, isSig := f.Type().(*types.Signature); isSig && sig.Recv() != nil {
			// methods of atomic.Int32/Int64/Uint32/…/Bool/Value/Pointer[T]
			if name == "Load" || name == "Store" || name == "Add" || name == "Swap" || name == "CompareAndSwap" || name == "And" || name == "Or" {
				// same classification as the functions below
			} else {
				return "", false, false, false
			}
		}
		switch {
		case strings.HasPrefix(name, "Add"), strings.HasPrefix(name, "Swap"), strings.HasPrefix(name, "CompareAndSwap"), strings.HasPrefix(name, "And"), strings.HasPrefix(name, "Or"):
			writes, reads = true, true
		case strings.HasPrefix(name, "Store"):
			writes = true
		case strings.HasPrefix(name, "Load"):
			reads = true
		default:
			return "", false, false, false
		}
		owner, path, root, lok := w.locOf(c.Common().Args[0])
		if os.Getenv("TWIGCHECK_DEBUG") != "" {
			fmt.Fprintf(os.Stderr, "atomicOp %s in %s: loc ok=%v owner=%s path=%s\n", name, c.Parent().Name(), lok, owner, path)
		}
		if !lok || !isShared(owner, root) {
			return "", false, false, false
		}
		return owner + "." + path, writes, reads, true
	}
	written := map[string]string{} // location -> where it is written
	for _, fn := range fns {
		if !reach[fn] {
			continue
		}
		instrsOf(fn, func(in ssa.Instruction) {
			switch x := in.(type) {
			case *ssa.Store:
				if !isInt(x.Val.Type()) {
					return
				}
				if owner, path, root, ok := w.locOf(x.Addr); ok && isShared(owner, root) {
					if _, seen := written[owner+"."+path]; !seen {
						written[owner+"."+path] = w.posOf(in.Pos())
					}
				}
			case ssa.CallInstruction:
				if loc, wr, _, ok := atomicOp(x); ok && wr {
					if _, seen := written[loc]; !seen {
						written[loc] = w.posOf(in.Pos())
					}
				}
			}
		})
	}
	n := 0
	for _, fn := range fns {
		if !reach[fn] {
			continue
		}
		// reads of written counters
		tainted := map[ssa.Value]string{}
		instrsOf(fn, func(in ssa.Instruction) {
			switch x := in.(type) {
			case *ssa.UnOp:
				if x.Op == token.MUL && (isInt(x.Type()) || isAtomicInt(x.Type())) {
					if owner, path, root, ok := w.locOf(x.X); ok && isShared(owner, root) {
						if _, wr := written[owner+"."+path]; wr {
							tainted[x] = owner + "." + path
						}
					}
				}
			case *ssa.Call:
				if loc, _, rd, ok := atomicOp(x); ok && rd {
					if _, wr := written[loc]; wr {
						tainted[x] = loc
					}
				}
			}
		})
		if len(tainted) == 0 {
			continue
		}
		for changed := true; changed; {
			changed = false
			instrsOf(fn, func(in ssa.Instruction) {
				v, ok := in.(ssa.Value)
				if !ok || tainted[v] != "" {
					return
				}
				var ops []ssa.Value
				switch x := in.(type) {
				case *ssa.BinOp:
					ops = []ssa.Value{x.X, x.Y}
				case *ssa.Convert:
					ops = []ssa.Value{x.X}
				case *ssa.ChangeType:
					ops = []ssa.Value{x.X}
				case *ssa.Phi:
					ops = x.Edges
				case *ssa.UnOp:
					if x.Op != token.MUL {
						ops = []ssa.Value{x.X}
					}
				case *ssa.Extract:
					ops = []ssa.Value{x.Tuple}
				case *ssa.IndexAddr:
					ops = []ssa.Value{x.Index}
				case *ssa.Index:
					ops = []ssa.Value{x.Index}
				case *ssa.Lookup:
					ops = []ssa.Value{x.Index}
				case *ssa.Slice:
					ops = []ssa.Value{x.Low, x.High}
				case *ssa.MakeInterface:
					ops = []ssa.Value{x.X}
				case *ssa.Call:
					// what a function computes from the counter (which layout to parse with,
					// which bucket to use) carries it; logging and formatting calls return
					// nothing that is used
					if _, isB := x.Call.Value.(*ssa.Builtin); !isB {
						ops = x.Call.Args
					}
				}
				if u, isU := in.(*ssa.UnOp); isU && u.Op == token.MUL {
					if _, fromIdx := u.X.(*ssa.IndexAddr); fromIdx {
						ops = []ssa.Value{u.X}
					}
					// a local slot (a result spilled because of a defer, a variable assigned on
					// several paths): what was stored into it
					if al, isAl := u.X.(*ssa.Alloc); isAl && al.Referrers() != nil {
						for _, ref := range *al.Referrers() {
							if st, ok := ref.(*ssa.Store); ok && st.Addr == ssa.Value(al) {
								ops = append(ops, st.Val)
							}
						}
					}
				}
				for _, o := range ops {
					if o == nil {
						continue
					}
					if l := tainted[o]; l != "" {
						tainted[v] = l
						changed = true
						return
					}
				}
			})
		}
		instrsOf(fn, func(in ssa.Instruction) {
			switch x := in.(type) {
			case *ssa.Return:
				// a function without results that leaves early (evict-if-full helpers) decides
				// nothing its caller can see
				if len(x.Results) == 0 {
					return
				}
			case *ssa.Panic:
			default:
				return
			}
			if ret, isRet := in.(*ssa.Return); isRet {
				for _, res := range ret.Results {
					if loc := tainted[res]; loc != "" {
						n++
						r.bad(rule, ssaName(fn), "result computed from the shared location "+loc, w.posOf(in.Pos()), "what this function returns is computed from "+loc+", a process- or engine-wide value written (at "+written[loc]+") by calls that may run earlier or concurrently ("+strings.Join(w.pathTo(roots, fn), " → ")+"): the same input gives different results depending on what was rendered before")
						return
					}
				}
			}
			for _, cond := range controllingConds(in) {
				var facts []condFact
				expandCond(cond, true, &facts, 0)
				expandCond(cond, false, &facts, 0)
				for _, cf := range facts {
					if loc := tainted[cf.v]; loc != "" {
						n++
						r.bad(rule, ssaName(fn), "return decided by the shared counter "+loc, w.posOf(in.Pos()), "whether this function returns here depends on "+loc+", an integer kept on a shared object and written (at "+written[loc]+") by calls that may run concurrently ("+strings.Join(w.pathTo(roots, fn), " → ")+"): the value is the sum over all goroutines using the engine, so what one call returns depends on how many others are in flight")
						return
					}
				}
			}
		})
	}
	r.Counts["shared integer locations written from the concurrent roots"] = len(written)
	if n == 0 {
		r.ok(rule, "(package)", "no return is decided by a shared counter", "-", fmt.Sprintf("%d shared integer location(s) written from the concurrent roots; none of them controls a return or panic", len(written)), len(written) > 0)
	}
}

// checkLocksNotCopied — R02.6: a lock protects only if everybody locks the same one.  No function
// receives by value (receiver or parameter) a struct of the package that contains a sync.Mutex or
// sync.RWMutex: the callee would lock its private copy of the mutex while reading the shared map
// behind it unprotected.
func checkLocksNotCopied(w *World, r *Report) {
	hasLock := func(t types.Type) bool {
		st, ok := t.Underlying().(*types.Struct)
		if !ok {
			return false
		}
		for i := 0; i < st.NumFields(); i++ {
			ft := st.Field(i).Type()
			if isNamed(ft, "sync", "Mutex") || isNamed(ft, "sync", "RWMutex") {
				return true
			}
		}
		return false
	}
	n := 0
	for _, fn := range w.pkgFuncs() {
		if fn.Synthetic != "" {
			continue
		}
		for _, p := range fn.Params {
			nt, ok := p.Type().(*types.Named)
			if !ok || nt.Obj().Pkg() == nil || nt.Obj().Pkg().Path() != twigPath {
				continue
			}
			n++
			if hasLock(nt) {
				r.bad("R02.6", ssaName(fn), "lock-bearing "+nt.Obj().Name()+" received by value", w.posOf(fn.Pos()), "the function gets a copy of a struct that contains a mutex ("+p.Name()+" "+nt.Obj().Name()+"): the lock it takes is the copy's, so the shared state behind the original is read while another goroutine may be writing it")
			}
		}
	}
	r.ok("R02.6", "(package)", "no struct with a mutex is passed by value", "-", fmt.Sprintf("%d by-value struct parameters/receivers examined", n), true)
}

// goroutineSafePkgs: packages whose pointer-receiver types are documented safe for concurrent use
// (or immutable after construction) as far as this code base uses them.
var goroutineSafePkgs = map[string]bool{
	"sync": true, "sync/atomic": true, "regexp": true, "log": true, "os": true, "time": true, "reflect": true,
	"strings": false, "bytes": false, "math/rand": false, "bufio": false,
}

// checkSharedForeignObjects — R02.7: objects of other packages that all renders share are only
// used through types that are safe for concurrent use.  In code reachable from the concurrent API,
// a pointer-receiver method of a non-twig type called on a package-level variable (or on what a
// package-level pointer variable holds) belongs to one of the packages listed as goroutine-safe
// (sync, sync/atomic, regexp, log, os, time, reflect) — a *rand.Rand, *strings.Builder,
// *bytes.Buffer or *bufio.Writer kept in a global is mutated by every call without a lock of its own.
func checkSharedForeignObjects(w *World, r *Report, reach map[*ssa.Function]bool) {
	n := 0
	for _, fn := range w.pkgFuncs() {
		if !reach[fn] {
			continue
		}
		instrsOf(fn, func(in ssa.Instruction) {
			c, ok := in.(ssa.CallInstruction)
			if !ok {
				return
			}
			h := c.Common().StaticCallee()
			if h == nil || isTwigFn(h) || h.Signature.Recv() == nil || len(c.Common().Args) == 0 {
				return
			}
			if _, isPtr := h.Signature.Recv().Type().(*types.Pointer); !isPtr {
				return
			}
			recv := unspill(c.Common().Args[0])
			var g *ssa.Global
			switch x := recv.(type) {
			case *ssa.Global:
				g = x
			case *ssa.UnOp:
				if gl, ok := x.X.(*ssa.Global); ok && x.Op == token.MUL {
					g = gl
				}
			}
			if g == nil || g.Pkg == nil || g.Pkg.Pkg.Path() != twigPath {
				return
			}
			n++
			pkgPath := ""
			if h.Pkg != nil {
				pkgPath = h.Pkg.Pkg.Path()
			}
			construct := "shared " + g.Name() + " is used through a goroutine-safe type"
			locks := false
			instrsOf(fn, func(x ssa.Instruction) {
				if lc, ok := x.(ssa.CallInstruction); ok {
					if lf := lc.Common().StaticCallee(); lf != nil && lf.Pkg != nil && lf.Pkg.Pkg.Path() == "sync" && lf.Name() == "Lock" {
						locks = true
					}
				}
			})
			if goroutineSafePkgs[pkgPath] {
				r.ok("R02.7", ssaName(fn), construct, w.posOf(in.Pos()), pkgPath+" types are safe for concurrent use", false)
			} else if locks {
				r.ok("R02.7", ssaName(fn), construct, w.posOf(in.Pos()), "the function takes a write lock (extent of the lock region: R02.3)", false)
			} else {
				r.bad("R02.7", ssaName(fn), construct, w.posOf(in.Pos()), "the package-level "+g.Name()+" is a "+deref(g.Type()).String()+" and "+h.String()+" changes it without synchronisation: calls that run at the same time corrupt its state (a data race; for a *rand.Rand an index out of range inside Render)")
			}
		})
	}
	r.floor("methods of foreign types called on package-level objects", n, 5)
}
