package main

// C05 — no template source or context value makes the engine panic.
//
// R05.1 token-index safety               (c05_tokidx.go)
// R05.2 reflection preconditions          (c05_reflect.go)
// R05.3 no data-dependent Must*: regexp.MustCompile & co. only with constant arguments on
//       render paths.
// R05.4 (a) every single-result type assertion is discharged by pool homogeneity, literal
//       provenance, a dominating successful two-result assertion on the same value, or a frozen
//       exception; (b) a map keyed by interface{} is never indexed with template data.
// R05.5 integer division / modulo by a non-constant is dominated by a non-zero test of the very
//       divisor.
// R05.6 untrusted length prefixes are validated before they size an allocation (= R16.3).
// R05.7 a panic cannot leave a lock held: lock regions are released on every path (= R02.3).
// R05.8 allocation sizes are never negative (c05_sizes.go).
// R05.9 "strip the delimiters": x[a:len(x)-k] only where len(x) >= a+k (c05_sizes.go).

import (
	"fmt"
	"go/constant"
	"go/token"
	"go/types"
	"strings"

	"golang.org/x/tools/go/ssa"
)

func init() { register("C05", checkC05) }

func checkC05(w *World, r *Report) {
	r.Explanation = "Decides, for every template source, context value and compiled-data byte string, that eight enumerated families of panic sites in twig's own code are guarded on every path: (R05.1) every index into the parser's token slice is within bounds by an interval analysis over (tokenIndex, len(tokens)) with the EOF-sentinel, handler-entry and callee-preservation summaries; (R05.2) every kind-sensitive reflect.Value/Type call on render paths is dominated by a validity/kind test of the same value, and Set/SetMapIndex have type-provenance or AssignableTo guards; (R05.3) no Must* call takes a data-dependent argument; (R05.4) every single-result type assertion has a static reason to succeed and no map keyed by interface{} is indexed with template data; (R05.5) every integer division by a non-constant is dominated by a non-zero test; (R05.6) length prefixes read from input are validated before allocation; (R05.7) no lock can be left held; (R05.8) every non-constant size handed to make/reflect.MakeSlice/strings.Repeat/Grow is non-negative by a sign analysis of its SSA definition (counts, ordered differences, tests on every path, call sites, helper results; wrap-around is assumed away); (R05.9) every x[a:len(x)-k] / x[len(x)-k] is reached only where len(x) >= a+k is established. Not decided: termination (tokenizer loop progress, range(0, +Inf), recursion depth of the expression parser), arithmetic overflow feeding slice bounds, string slicing by computed byte offsets, panics raised by user callbacks, stack exhaustion in encoding/gob. Lock re-entrance (R05.7): no call made while a mutex is held can reach an acquisition of the same mutex."
	r.Explanation += " Rules added in later rounds: (R05.12) no bound from narrow-integer arithmetic; (R05.13) constant look-arounds next to searched offsets are guarded; (R05.14) every key of a reflect MapIndex/SetMapIndex comes out of a map, is a basic Go value, or passed Comparable() on every path, and its type fits; (R05.15) necessary condition of termination for the tokenizer's scan loops: no way round the loop's exit test avoids a store of the position (feasibility over the 256 values of the current byte, byte-class predicates by truth table)."
	r.Explanation += " Round 10: reflect Slice is legal on slices and strings only; (R05.16) loop counters are not advanced by a possibly-zero length; tagless switch cases refine index facts."
	r.Explanation += " Round 11: (R05.17) indexes into []rune(s) are checked against the rune count."
	r.Explanation += " Round 12: (R05.18) field paths are followed with FieldByIndexErr; (R05.19) tables of a render context are allocated when they are written."
	r.Explanation += " Round 14: (R05.20) search results used as bounds or indices are tested first."
	r.RuleText = "obligation = one potential panic site of the enumerated families; non-trivial = sites that needed a dominance or interval argument (everything except constant/loop-bounded indexes)"
	r.Trusted = []string{"go/types constant evaluation", "the Go runtime's definition of which reflect calls panic on which kinds"}

	checkTokenIndex(w, r)
	checkReflect(w, r)

	reach := w.renderReachable()
	for f := range w.parseReachable() {
		reach[f] = true
	}
	for _, nm := range []string{"DeserializeCompiledTemplate", "SerializeCompiledTemplate", "LoadFromCompiled"} {
		if f := w.tryFn(nm); f != nil {
			for g := range w.reachableFrom([]*ssa.Function{w.ssaFunc(f)}) {
				reach[g] = true
			}
		}
	}

	// ---- R05.3
	n3 := 0
	for _, fn := range w.pkgFuncs() {
		if !reach[fn] {
			continue
		}
		instrsOf(fn, func(in ssa.Instruction) {
			c, ok := in.(ssa.CallInstruction)
			if !ok {
				return
			}
			f := calleeFunc(c)
			if f == nil || f.Pkg() == nil || !strings.HasPrefix(f.Name(), "Must") || f.Pkg().Path() == twigPath {
				return
			}
			n3++
			allConst := true
			for _, a := range c.Common().Args {
				if _, ok := a.(*ssa.Const); !ok {
					allConst = false
				}
			}
			construct := "call " + f.Pkg().Name() + "." + f.Name()
			if allConst {
				r.ok("R05.3", ssaName(fn), construct, w.posOf(in.Pos()), "constant argument: cannot fail at run time", false)
			} else {
				r.bad("R05.3", ssaName(fn), construct, w.posOf(in.Pos()), "a Must* function is called with an argument computed from template data: an input the callee rejects panics instead of producing an error")
			}
		})
	}
	r.Counts["Must* calls on render/parse paths"] = n3

	checkAssertions(w, r, reach)
	checkInterfaceKeys(w, r, reach)
	checkDivisions(w, r, reach)
	checkLengthPrefixes(w, r, "R05.6")
	checkSizes(w, r)
	checkLenMinus(w, r)
	checkNarrowBounds(w, r)
	checkLookaround(w, r)
	checkScannerProgress(w, r)
	checkCountersAdvance(w, r)
	checkRuneIndexBounds(w, r)
	checkContextMapsAllocated(w, r)
	checkFieldPathsTolerateNil(w, r)
	checkSearchResultsTested(w, r)
	checkOffsetProvenance(w, r, reach)

	// R05.7
	la := &lockAnalysis{w: w}
	la.solve(w.pkgFuncs())
	checkLockLeaks(w, r, la, "R05.7")
}

// checkLockLeaks is R02.3 / R05.7.
func checkLockLeaks(w *World, r *Report, la *lockAnalysis, rule string) {
	n := 0
	for _, fn := range w.pkgFuncs() {
		hasLock := false
		deferred := map[lockKey]bool{}
		instrsOf(fn, func(in ssa.Instruction) {
			if k, acq, d, ok := la.lockOp(in); ok {
				if acq {
					hasLock = true
				} else if d {
					deferred[k] = true
				}
			}
		})
		if !hasLock {
			continue
		}
		n++
		leaked := false
		instrsOf(fn, func(in ssa.Instruction) {
			ret, ok := in.(*ssa.Return)
			if !ok {
				return
			}
			for k := range la.at(ret) {
				if la.entry[fn][k] || deferred[k] {
					continue
				}
				leaked = true
				r.bad(rule, ssaName(fn), "lock "+string(k)+" released on every path", w.posOf(ret.Pos()), "the function can return with the lock still held: every later call blocks forever (the engine is unusable)")
			}
		})
		// calls inside a non-deferred lock region that may panic on data (user callbacks)
		if !leaked {
			r.ok(rule, ssaName(fn), "locks released on every path", w.posOf(fn.Pos()), "no return reachable with a lock acquired here still held (or its Unlock is deferred)", true)
		}
	}
	r.floor("functions that take a lock", n, 3)

	// re-entrance: sync.Mutex / sync.RWMutex are not re-entrant.  Acquiring a lock that the
	// goroutine already holds (Lock or RLock under Lock/RLock of the same mutex: a pending
	// writer also blocks new readers) never returns, and every later user of the lock blocks
	// behind it.  mayAcquire: the locks a function can take, itself or through package callees.
	g := w.callgraph()
	mayAcquire := map[*ssa.Function]map[lockKey]string{}
	for _, fn := range w.pkgFuncs() {
		m := map[lockKey]string{}
		instrsOf(fn, func(in ssa.Instruction) {
			if k, acq, _, ok := la.lockOp(in); ok && acq {
				if _, seen := m[k]; !seen {
					m[k] = ssaName(fn) + " (" + w.posOf(in.Pos()) + ")"
				}
			}
		})
		mayAcquire[fn] = m
	}
	for changed := true; changed; {
		changed = false
		for _, fn := range w.pkgFuncs() {
			node := g.Nodes[fn]
			if node == nil {
				continue
			}
			for _, e := range node.Out {
				if _, isGo := e.Site.(*ssa.Go); isGo {
					continue
				}
				for k, where := range mayAcquire[e.Callee.Func] {
					if _, seen := mayAcquire[fn][k]; !seen {
						mayAcquire[fn][k] = where
						changed = true
					}
				}
			}
		}
	}
	nRe := 0
	for _, fn := range w.pkgFuncs() {
		instrsOf(fn, func(in ssa.Instruction) {
			held := la.at(in)
			if len(held) == 0 {
				return
			}
			if k, acq, _, ok := la.lockOp(in); ok {
				base := lockKey(strings.TrimSuffix(string(k), "#r"))
				if acq && (held[base] || held[base+"#r"]) {
					nRe++
					r.bad(rule, ssaName(fn), "lock "+string(k)+" is not acquired while it is held", w.posOf(in.Pos()), "the mutex is locked again by the goroutine that already holds it (sync mutexes are not re-entrant): the call never returns and every later use of the lock blocks behind it")
				}
				return
			}
			c, ok := in.(ssa.CallInstruction)
			if !ok {
				return
			}
			if _, isGo := in.(*ssa.Go); isGo {
				return
			}
			if _, isDefer := in.(*ssa.Defer); isDefer {
				return
			}
			node := g.Nodes[fn]
			if node == nil {
				return
			}
			for _, e := range node.Out {
				if e.Site != c || !w.inPkg(e.Callee.Func) {
					continue
				}
				for hk := range held {
					k := lockKey(strings.TrimSuffix(string(hk), "#r"))
					where, can := mayAcquire[e.Callee.Func][k]
					if !can {
						where, can = mayAcquire[e.Callee.Func][k+"#r"]
					}
					if can {
						nRe++
						r.bad(rule, ssaName(fn), "lock "+string(k)+" is not acquired while it is held", w.posOf(in.Pos()), "the call to "+ssaName(e.Callee.Func)+" is made while "+string(k)+" is held and can lock it again in "+where+" (sync mutexes are not re-entrant): on that path the call never returns, and every later use of the lock blocks behind it")
						return
					}
				}
			}
		})
	}
	if nRe == 0 {
		r.ok(rule, "(package)", "no lock is acquired while it is held", "-", "no call made inside a lock region can reach an acquisition of the same mutex", true)
	}
}

// ---------------------------------------------------------------- R05.4a

var assertExceptions = map[string]string{
	"(*CoreExtension).functionMax | string":            "reached only when the preceding scan of the same args slice found every element to be a string (allStrings)",
	"(*CoreExtension).functionMin | string":            "reached only when the preceding scan of the same args slice found every element to be a string (allStrings)",
	"(*RenderContext).DetectFilterChain | *FilterNode": "second pass over the same chain: the first loop of the function established, node by node, that exactly `depth` links are *FilterNode, and the second loop visits the same `depth` links",
}

func checkAssertions(w *World, r *Report, reach map[*ssa.Function]bool) {
	pools := w.pools()
	poolByGlobal := map[*ssa.Global]*poolInfo{}
	poolByField := map[*types.Var]*poolInfo{}
	for _, p := range pools {
		if p.global != nil {
			poolByGlobal[p.global] = p
		}
		if p.field != nil {
			poolByField[p.field] = p
		}
	}
	// pool homogeneity: every Put into the pool and its New supply exactly type T
	homogeneous := func(p *poolInfo, t types.Type) (bool, string) {
		if p.elem == nil || !types.Identical(p.elem, t) {
			return false, fmt.Sprintf("the pool's New returns %v", p.elem)
		}
		for _, s := range p.puts {
			if !types.Identical(s.val.Type(), t) {
				return false, fmt.Sprintf("%s puts a %v into it (%s)", ssaName(s.fn), s.val.Type(), w.posOf(s.call.Pos()))
			}
		}
		return true, ""
	}
	n := 0
	for _, fn := range w.pkgFuncs() {
		if !reach[fn] {
			continue
		}
		instrsOf(fn, func(in ssa.Instruction) {
			ta, ok := in.(*ssa.TypeAssert)
			if !ok || ta.CommaOk {
				return
			}
			// assertions to interface types with a non-nil static guarantee are rare; treat alike
			n++
			tname := types.TypeString(ta.AssertedType, func(p *types.Package) string { return "" })
			construct := "x.(" + tname + ")"
			pos := w.posOf(ta.Pos())
			// (1) pool.Get()
			if c, ok := ta.X.(*ssa.Call); ok && isFunc(calleeFunc(c), "sync", "Pool", "Get") {
				var p *poolInfo
				recv := c.Call.Args[0]
				if g := globalOf(recv); g != nil {
					p = poolByGlobal[g]
				} else if fa, ok := recv.(*ssa.FieldAddr); ok {
					st := deref(fa.X.Type()).Underlying().(*types.Struct)
					p = poolByField[st.Field(fa.Field)]
				}
				if p == nil {
					// a helper that is handed the pool (`pool *sync.Pool`): the pool of every call site
					if pp, _, isP := paramOrigin(unspill(recv)); isP {
						if cvs, ok := callerValues(pp, -1); ok && len(cvs) > 0 {
							allOK, names := true, []string{}
							for _, cv := range cvs {
								g := globalOf(cv.val)
								cp := poolByGlobal[g]
								if g == nil || cp == nil {
									allOK = false
									break
								}
								if ok, _ := homogeneous(cp, ta.AssertedType); !ok {
									allOK = false
									break
								}
								names = append(names, cp.name)
							}
							if allOK {
								r.ok("R05.4", ssaName(fn), construct, pos, "pool homogeneity at every call site: "+strings.Join(names, ", ")+" supply exactly this type", true)
								return
							}
						}
					}
				}
				if p != nil {
					if ok, why := homogeneous(p, ta.AssertedType); ok {
						r.ok("R05.4", ssaName(fn), construct, pos, "pool homogeneity: New and every Put of "+p.name+" supply exactly this type", true)
					} else {
						r.bad("R05.4", ssaName(fn), construct, pos, "the asserted type is not the only type in pool "+p.name+": "+why)
					}
					return
				}
			}
			// (2) dominated by a successful comma-ok assertion / type-switch arm on the same value
			if dominatedBySameAssert(ta) {
				r.ok("R05.4", ssaName(fn), construct, pos, "dominated by a successful two-result assertion of the same value to the same type", true)
				return
			}
			// (3) literal provenance: element of a local map/slice into which only values of this type are stored
			if literalProvenance(ta) {
				r.ok("R05.4", ssaName(fn), construct, pos, "literal provenance: the asserted value is read from a local container that only ever receives values of this type", true)
				return
			}
			// (4) the value was produced by a MakeInterface of exactly this type on every path
			if madeFrom(ta.X, ta.AssertedType, map[ssa.Value]bool{}) {
				r.ok("R05.4", ssaName(fn), construct, pos, "the interface value is built from this very type on every path", true)
				return
			}
			// (5) an element of a slice for which an all-elements predicate of this type succeeded
			if elementUnderAllPredicate(fn, ta) {
				r.ok("R05.4", ssaName(fn), construct, pos, "element of a slice that passed a predicate returning true only if every element has this type", true)
				return
			}
			key := ssaName(fn) + " | " + tname
			if why, ok := assertExceptions[key]; ok {
				r.except("R05.4", ssaName(fn), construct, pos, why)
				return
			}
			r.bad("R05.4", ssaName(fn), construct, pos, "single-result type assertion on a value whose dynamic type is not established on every path: a template or context value of another type panics here")
		})
	}
	r.floor("single-result type assertions on parse/render paths", n, 30)
}

// sliceElemOf: v is an element read from slice value sl (x[i] through IndexAddr+load).
func sliceElemOf(v ssa.Value) (ssa.Value, bool) {
	u, ok := v.(*ssa.UnOp)
	if !ok || u.Op != token.MUL {
		return nil, false
	}
	ia, ok := u.X.(*ssa.IndexAddr)
	if !ok {
		return nil, false
	}
	return ia.X, true
}

// allElemsPredicate: g(xs []T) bool returns true only after a loop over xs in which every
// element passed a comma-ok assertion to the returned type: the assertion's failing edge leads
// to `return false`, and `return true` lies behind the loop's exit edge only.
func allElemsPredicate(g *ssa.Function) (types.Type, int, bool) {
	if g == nil || !isTwigFn(g) || len(g.Blocks) == 0 {
		return nil, 0, false
	}
	if g.Signature.Results().Len() != 1 || !types.Identical(g.Signature.Results().At(0).Type().Underlying(), types.Typ[types.Bool]) {
		return nil, 0, false
	}
	var ta *ssa.TypeAssert
	pidx := -1
	nTA := 0
	instrsOf(g, func(in ssa.Instruction) {
		x, ok := in.(*ssa.TypeAssert)
		if !ok {
			return
		}
		nTA++
		if !x.CommaOk {
			return
		}
		sl, ok := sliceElemOf(x.X)
		if !ok {
			return
		}
		for i, p := range g.Params {
			if sl == ssa.Value(p) {
				ta, pidx = x, i
			}
		}
	})
	if ta == nil || nTA != 1 {
		return nil, 0, false
	}
	// the ok result controls an If whose false edge reaches only `return false`
	var okIf *ssa.If
	if ta.Referrers() != nil {
		for _, ref := range *ta.Referrers() {
			if ex, isEx := ref.(*ssa.Extract); isEx && ex.Index == 1 && ex.Referrers() != nil {
				for _, r2 := range *ex.Referrers() {
					if i, isIf := r2.(*ssa.If); isIf {
						okIf = i
					}
				}
			}
		}
	}
	if okIf == nil {
		return nil, 0, false
	}
	failBlk := okIf.Block().Succs[1]
	okRet := false
	if len(failBlk.Instrs) > 0 {
		if ret, isRet := failBlk.Instrs[len(failBlk.Instrs)-1].(*ssa.Return); isRet && len(ret.Results) == 1 && isConstBool(ret.Results[0], false) {
			okRet = true
		}
	}
	if !okRet {
		return nil, 0, false
	}
	// every other return: false, or true in a block that the assertion's block cannot reach
	// without passing the loop header's exit edge — approximated by: not dominated by the
	// assertion's block (the loop body), and the function has no other way round the loop
	good := true
	instrsOf(g, func(in ssa.Instruction) {
		ret, isRet := in.(*ssa.Return)
		if !isRet {
			return
		}
		if len(ret.Results) != 1 {
			good = false
			return
		}
		if isConstBool(ret.Results[0], false) {
			return
		}
		if !isConstBool(ret.Results[0], true) || ta.Block().Dominates(ret.Block()) {
			good = false
			return
		}
		// the only way to the return is the exit of the loop that contains the assertion: the
		// return's block must be a successor of a loop header that dominates the assertion
		okExit := false
		for _, p := range ret.Block().Preds {
			if p.Dominates(ta.Block()) && blockReaches(ta.Block(), p) {
				okExit = true
			} else {
				okExit = false
				break
			}
		}
		if !okExit {
			good = false
		}
	})
	if !good {
		return nil, 0, false
	}
	return ta.AssertedType, pidx, true
}

// elementUnderAllPredicate: ta asserts an element of slice S to T and is dominated by the true
// edge of P(S) where P is an all-elements predicate for T.
func elementUnderAllPredicate(fn *ssa.Function, ta *ssa.TypeAssert) bool {
	sl, ok := sliceElemOf(ta.X)
	if !ok {
		return false
	}
	if allPredicateHoldsAt(fn, sl, ta, ta.AssertedType) {
		return true
	}
	// the slice is a parameter of an unexported helper: the predicate succeeded at every call
	if p, isP := unspill(sl).(*ssa.Parameter); isP && p.Parent() == fn {
		vals, ok := callerValues(p, -1)
		if !ok || len(vals) == 0 {
			return false
		}
		for _, cv := range vals {
			if cv.site == nil || !allPredicateHoldsAt(cv.caller, cv.val, cv.site.(ssa.Instruction), ta.AssertedType) {
				return false
			}
		}
		return true
	}
	return false
}

// allPredicateHoldsAt: on every path to `at`, a call of an all-elements predicate of type t on
// the slice sl returned true.
func allPredicateHoldsAt(fn *ssa.Function, sl ssa.Value, at ssa.Instruction, t types.Type) bool {
	ta := struct{ AssertedType types.Type }{t}
	fl := &boolFlow{fn: fn, entry: false}
	fl.edge = func(b *ssa.BasicBlock, i int) bool {
		return anyEdgeFact(b, i, func(v ssa.Value, trueIdx int) bool {
			c, ok := v.(*ssa.Call)
			if !ok {
				return false
			}
			// !slices.ContainsFunc(xs, notT) / slices.IndexFunc(xs, notT) < 0: no element fails
			// the assertion — the fact holds on the edge where the search found nothing
			if g := c.Call.StaticCallee(); g != nil && len(c.Call.Args) == 2 {
				o := g
				if g.Origin() != nil {
					o = g.Origin()
				}
				if o.Pkg != nil && o.Pkg.Pkg.Path() == "slices" && o.Name() == "ContainsFunc" && i != trueIdx {
					if nt, ok := negatedTypeTest(c.Call.Args[1]); ok && types.Identical(nt, ta.AssertedType) && sameValue(c.Call.Args[0], sl) {
						return true
					}
				}
			}
			if i != trueIdx {
				return false
			}
			t, pidx, ok := allElemsPredicate(c.Call.StaticCallee())
			if !ok || pidx >= len(c.Call.Args) || !types.Identical(t, ta.AssertedType) {
				return false
			}
			return sameValue(c.Call.Args[pidx], sl)
		})
	}
	fl.solve()
	return fl.at(at)
}

func dominatedBySameAssert(ta *ssa.TypeAssert) bool {
	fn := ta.Parent()
	for _, b := range fn.Blocks {
		v, trueIdx, ok := ifCond(b)
		if !ok {
			continue
		}
		ex, ok := v.(*ssa.Extract)
		if !ok || ex.Index != 1 {
			continue
		}
		other, ok := ex.Tuple.(*ssa.TypeAssert)
		if !ok || !other.CommaOk || !types.Identical(other.AssertedType, ta.AssertedType) || !sameValue(other.X, ta.X) {
			continue
		}
		t := b.Succs[trueIdx]
		if len(t.Preds) == 1 && (t == ta.Block() || t.Dominates(ta.Block())) {
			return true
		}
	}
	return false
}

// literalProvenance: ta.X is a lookup m[k] (or an index) in a local container whose every store
// is a MakeInterface of the asserted type.
func literalProvenance(ta *ssa.TypeAssert) bool {
	var container ssa.Value
	switch x := ta.X.(type) {
	case *ssa.Lookup:
		container = x.X
	case *ssa.UnOp:
		if ia, ok := x.X.(*ssa.IndexAddr); ok {
			container = ia.X
		}
	}
	if container == nil {
		return false
	}
	// container must be a local make / literal
	switch container.(type) {
	case *ssa.MakeMap, *ssa.MakeSlice, *ssa.Alloc:
	default:
		return false
	}
	if container.Referrers() == nil {
		return false
	}
	stores := 0
	for _, ref := range *container.Referrers() {
		switch x := ref.(type) {
		case *ssa.MapUpdate:
			if x.Map != container {
				continue
			}
			stores++
			if !madeFrom(x.Value, ta.AssertedType, map[ssa.Value]bool{}) {
				return false
			}
		case *ssa.Lookup, *ssa.DebugRef, *ssa.Range:
		case ssa.CallInstruction:
			// passed on (e.g. SetVariable("loop", m["loop"])): reading only in this code base;
			// a callee could store other types, so be conservative for maps passed whole
			for _, a := range x.Common().Args {
				if a == container {
					return false
				}
			}
		case *ssa.MakeInterface:
			return false
		}
	}
	return stores > 0
}

func madeFrom(v ssa.Value, t types.Type, seen map[ssa.Value]bool) bool {
	if seen[v] {
		return true
	}
	seen[v] = true
	switch x := v.(type) {
	case *ssa.MakeInterface:
		return types.Identical(x.X.Type(), t)
	case *ssa.Phi:
		for _, e := range x.Edges {
			if !madeFrom(e, t, seen) {
				return false
			}
		}
		return true
	case *ssa.ChangeInterface:
		return madeFrom(x.X, t, seen)
	}
	return false
}

// ---------------------------------------------------------------- R05.4b

func checkInterfaceKeys(w *World, r *Report, reach map[*ssa.Function]bool) {
	n := 0
	hashableConst := func(v ssa.Value) bool {
		if mi, ok := v.(*ssa.MakeInterface); ok {
			return types.Comparable(mi.X.Type()) && !types.IsInterface(mi.X.Type())
		}
		_, ok := v.(*ssa.Const)
		return ok
	}
	for _, fn := range w.pkgFuncs() {
		if !reach[fn] {
			continue
		}
		instrsOf(fn, func(in ssa.Instruction) {
			var m, key ssa.Value
			what := ""
			switch x := in.(type) {
			case *ssa.MapUpdate:
				m, key, what = x.Map, x.Key, "map update"
			case *ssa.Lookup:
				m, key, what = x.X, x.Index, "map lookup"
			default:
				return
			}
			mt, ok := m.Type().Underlying().(*types.Map)
			if !ok {
				return
			}
			if it, ok := mt.Key().Underlying().(*types.Interface); !ok || it.NumMethods() != 0 {
				return
			}
			n++
			construct := what + " with interface{} key"
			if hashableConst(key) {
				r.ok("R05.4", ssaName(fn), construct, w.posOf(in.Pos()), "key is a value of a comparable concrete type", true)
				return
			}
			r.bad("R05.4", ssaName(fn), construct, w.posOf(in.Pos()), "a map keyed by interface{} is indexed with a value that comes from template data: a list or map as element/needle panics with 'hash of unhashable type'")
		})
	}
	r.Counts["interface{}-keyed map accesses on render paths"] = n
}

// ---------------------------------------------------------------- R05.5

func checkDivisions(w *World, r *Report, reach map[*ssa.Function]bool) {
	n := 0
	for _, fn := range w.pkgFuncs() {
		if !reach[fn] {
			continue
		}
		instrsOf(fn, func(in ssa.Instruction) {
			bo, ok := in.(*ssa.BinOp)
			if !ok || (bo.Op != token.QUO && bo.Op != token.REM) {
				return
			}
			b, ok := bo.X.Type().Underlying().(*types.Basic)
			if !ok || b.Info()&types.IsInteger == 0 {
				return
			}
			if c, ok := bo.Y.(*ssa.Const); ok {
				if c.Value != nil && constant.Sign(c.Value) != 0 {
					return // constant non-zero divisor
				}
			}
			n++
			construct := fmt.Sprintf("integer %s by non-constant", bo.Op)
			div := bo.Y
			fl := &boolFlow{fn: fn, entry: false}
			fl.edge = func(blk *ssa.BasicBlock, i int) bool {
				return anyEdgeFact(blk, i, func(v ssa.Value, trueIdx int) bool {
					cmp, ok := v.(*ssa.BinOp)
					if !ok {
						return false
					}
					x, y, op := cmp.X, cmp.Y, cmp.Op
					if sameValue(y, div) {
						x, y = y, x
						switch op {
						case token.LSS:
							op = token.GTR
						case token.GTR:
							op = token.LSS
						case token.LEQ:
							op = token.GEQ
						case token.GEQ:
							op = token.LEQ
						}
					}
					if !sameValue(x, div) {
						return false
					}
					c, ok := y.(*ssa.Const)
					if !ok || c.Value == nil || c.Value.Kind() != constant.Int {
						return false
					}
					k, _ := constant.Int64Val(c.Value)
					onTrue := i == trueIdx
					switch op {
					case token.NEQ:
						return k == 0 && onTrue
					case token.EQL:
						return k == 0 && !onTrue
					case token.GTR:
						return k >= 0 && onTrue
					case token.GEQ:
						return k >= 1 && onTrue
					case token.LEQ:
						return k >= 0 && !onTrue
					case token.LSS:
						return k >= 1 && !onTrue
					}
					return false
				})
			}
			fl.solve()
			if fl.at(in) {
				r.ok("R05.5", ssaName(fn), construct, w.posOf(in.Pos()), "dominated by a non-zero test of the same divisor", true)
			} else {
				r.bad("R05.5", ssaName(fn), construct, w.posOf(in.Pos()), "integer division/modulo by a value that is not tested against zero on every path: a zero divisor from template data panics")
			}
		})
	}
	r.Counts["integer divisions by non-constants"] = n
}

// negatedTypeTest: f is a function value `func(v interface{}) bool` of the package that returns
// true exactly when v is NOT of some type T (`_, ok := v.(T); return !ok`); returns T.
func negatedTypeTest(f ssa.Value) (types.Type, bool) {
	var g *ssa.Function
	switch x := f.(type) {
	case *ssa.Function:
		g = x
	case *ssa.MakeClosure:
		g, _ = x.Fn.(*ssa.Function)
	}
	if g == nil || len(g.Blocks) == 0 || len(g.Params) != 1 {
		return nil, false
	}
	var t types.Type
	ok := true
	n := 0
	instrsOf(g, func(in ssa.Instruction) {
		ret, isRet := in.(*ssa.Return)
		if !isRet || !ok {
			return
		}
		n++
		if len(ret.Results) != 1 {
			ok = false
			return
		}
		u, isNot := ret.Results[0].(*ssa.UnOp)
		if !isNot || u.Op != token.NOT {
			ok = false
			return
		}
		ex, isEx := u.X.(*ssa.Extract)
		if !isEx || ex.Index != 1 {
			ok = false
			return
		}
		ta, isTA := ex.Tuple.(*ssa.TypeAssert)
		if !isTA || !ta.CommaOk || unspill(ta.X) != ssa.Value(g.Params[0]) {
			ok = false
			return
		}
		if t != nil && !types.Identical(t, ta.AssertedType) {
			ok = false
			return
		}
		t = ta.AssertedType
	})
	return t, ok && n > 0 && t != nil
}
