package main

// C07 — the escape filter neutralises every HTML-significant character.
//
// R07.1 alias agreement: in the filter registration table "escape" and "e" are bound to the same
//       function.
// R07.2 the registered escape is the library routine, un-post-processed: its result is exactly
//       html.EscapeString applied to the stringified input.
// R07.3 every hand-written HTML escape table in the package (a switch over runes with cases for
//       HTML-significant characters that writes character references) is complete and correct:
//       an arm for each of & < > " ', whose written constant decodes (html.UnescapeString, run
//       inside the checker) to exactly that character, starts with & and ends with ;, and
//       contains no raw special character; the default arm writes the rune itself.

import (
	"fmt"
	"go/ast"
	"go/constant"
	"go/token"
	"go/types"
	"html"
	"sort"
	"strings"

	"golang.org/x/tools/go/ssa"
)

func init() { register("C07", checkC07) }

const htmlSpecials = "&<>\"'"

func checkC07(w *World, r *Report) {
	r.Explanation = "Decides the table/wiring half of C07 for every input string: (R07.1) the names escape and e are registered to the same function; (R07.2) that function returns exactly html.EscapeString(toString(input)) with no call between the library routine and the return (no trimming, truncation or un-escaping); (R07.3) every hand-written escape table (the fallback in ApplyFilter) has an arm for each of & < > \" ' whose replacement, decoded by html.UnescapeString inside the checker, is that character, is a well-formed reference and contains no raw special character, and whose default arm writes the rune unchanged. html.EscapeString itself is trusted. Not decided: stringification of non-string values (value-level). (R07.5) every pass of a loop that walks a filter chain applies the item or leaves the function, so `v|e|e` escapes twice."
	r.Explanation += " Rules added in later rounds: (R07.6) the names escape/e are never rebound; (R07.7) an apply node writes only the converted result of applying its filter. (R07.8) stringifiers return strings unchanged. (R07.5) loops that copy a chain keep every item."
	r.Explanation += " Round 9: (R07.10) the in-text interpolator sees template source only."
	r.Explanation += " Round 10: (R07.11) all questions put to the policy are formed alike."
	r.Explanation += " Round 14: (R07.9) the apply handler returns an ApplyNode."
	r.RuleText = "obligation = one table entry / one binding / one return; non-trivial = table arms evaluated with the HTML decoder and the return-flow check"
	r.Trusted = []string{"html.EscapeString replaces exactly & ' < > \" (Go standard library)", "html.UnescapeString used as the independent decoder inside the checker"}

	// ---- R07.1: registration tables (composite literals of type map[string]FilterFunc)
	filterT := w.named("FilterFunc")
	nTables := 0
	var escapeFn *types.Func
	for _, fd := range w.sortedDecls() {
		ast.Inspect(fd.Body, func(n ast.Node) bool {
			cl, ok := n.(*ast.CompositeLit)
			if !ok {
				return true
			}
			bind, ok := w.registrationTable(cl, filterT)
			if !ok {
				return true
			}
			e1, has1 := bind["escape"]
			e2, has2 := bind["e"]
			if !has1 && !has2 {
				return true
			}
			nTables++
			fname := w.declName(fd)
			switch {
			case !has1 || !has2:
				r.bad("R07.1", fname, `"escape" and "e" both registered`, w.pos(cl), "only one of the two names of the escape filter is registered")
			case e1 == nil || e1 != e2:
				r.bad("R07.1", fname, `"escape" and "e" bound to the same function`, w.pos(cl), fmt.Sprintf("the alias e is bound to %v but escape to %v: the two names behave differently", objName(e2), objName(e1)))
			default:
				r.ok("R07.1", fname, `"escape" and "e" bound to the same function`, w.pos(cl), "both → "+e1.Name(), true)
				if f, ok := e1.(*types.Func); ok {
					escapeFn = f
				}
			}
			return true
		})
	}
	r.floor("filter registration tables containing escape/e", nTables, 1)
	// name switches: a case list that names one of the two must name the other
	for _, fd := range w.sortedDecls() {
		ast.Inspect(fd.Body, func(n ast.Node) bool {
			cc, ok := n.(*ast.CaseClause)
			if !ok {
				return true
			}
			has := map[string]bool{}
			for _, e := range cc.List {
				if tv := w.Info.Types[e]; tv.Value != nil && tv.Value.Kind() == constant.String {
					has[constant.StringVal(tv.Value)] = true
				}
			}
			if !has["escape"] && !has["e"] {
				return true
			}
			// only switches over a filter name: the clause must belong to a switch whose tag is a string
			if has["escape"] && has["e"] {
				r.ok("R07.1", w.declName(fd), `case list names both "e" and "escape"`, w.pos(cc), "same arm for both names", true)
			} else if has["escape"] {
				r.bad("R07.1", w.declName(fd), `case list names both "e" and "escape"`, w.pos(cc), `a built-in arm handles "escape" but not its alias "e"`)
			}
			return true
		})
	}

	// ---- R07.2
	if escapeFn == nil {
		r.bad("R07.2", "(registration)", "registered escape function", "-", "the function registered as escape could not be resolved")
	} else {
		fn := w.ssaFunc(escapeFn)
		nRet := 0
		instrsOf(fn, func(in ssa.Instruction) {
			ret, ok := in.(*ssa.Return)
			if !ok || len(ret.Results) == 0 {
				return
			}
			res := retResults(ret)
			// error returns (nil result) are not output
			if isNilConst(res[0]) {
				return
			}
			nRet++
			v := res[0]
			if mi, ok := v.(*ssa.MakeInterface); ok {
				v = mi.X
			}
			if why := escapeOf(w, v, fn, 0); why == "" {
				r.ok("R07.2", ssaName(fn), "result is html.EscapeString(stringified input)", w.posOf(ret.Pos()), "direct call chain to html.EscapeString, nothing applied afterwards", true)
			} else {
				r.bad("R07.2", ssaName(fn), "result is html.EscapeString(stringified input)", w.posOf(ret.Pos()), "the escape filter's result is not exactly the library escape of its input: "+why)
			}
		})
		r.floor("value returns of the registered escape function", nRet, 1)
	}

	// ---- R07.3: hand-written escape tables
	nSw := 0
	for _, fd := range w.sortedDecls() {
		fname := w.declName(fd)
		ast.Inspect(fd.Body, func(n ast.Node) bool {
			sw, ok := n.(*ast.SwitchStmt)
			if !ok || sw.Tag == nil {
				return true
			}
			// cases with rune constants among the specials
			arms := map[rune]*ast.CaseClause{}
			var deflt *ast.CaseClause
			for _, cl := range sw.Body.List {
				cc := cl.(*ast.CaseClause)
				if cc.List == nil {
					deflt = cc
				}
				for _, e := range cc.List {
					tv := w.Info.Types[e]
					if tv.Value != nil && tv.Value.Kind() == constant.Int {
						if c, ok := constant.Int64Val(tv.Value); ok && strings.ContainsRune(htmlSpecials, rune(c)) {
							arms[rune(c)] = cc
						}
					}
				}
			}
			if len(arms) < 2 {
				return true
			}
			// does it write character references? (at least one arm writes a constant starting with '&')
			writesRefs := false
			for _, cc := range arms {
				for _, s := range writtenConstants(w, cc) {
					if strings.HasPrefix(s, "&") {
						writesRefs = true
					}
				}
			}
			if !writesRefs {
				return true
			}
			nSw++
			// R07.4: a hand-written table is a fallback: it may only run where the lookup of the
			// registered filter has failed (it decodes runes, so invalid UTF-8 would be altered
			// if it replaced the library routine)
			w.checkFallbackPosition(r, fd, sw)
			for _, c := range htmlSpecials {
				construct := fmt.Sprintf("escape table arm %q", string(c))
				cc := arms[c]
				if cc == nil {
					r.bad("R07.3", fname, construct, w.pos(sw), fmt.Sprintf("the hand-written escape table has no arm for %q: the character is emitted raw", string(c)))
					continue
				}
				ws := writtenConstants(w, cc)
				if len(ws) != 1 {
					r.bad("R07.3", fname, construct, w.pos(cc), fmt.Sprintf("the arm writes %d constants, expected exactly one character reference", len(ws)))
					continue
				}
				s := ws[0]
				switch {
				case html.UnescapeString(s) != string(c):
					r.bad("R07.3", fname, construct, w.pos(cc), fmt.Sprintf("the arm writes %q which decodes to %q, not to %q", s, html.UnescapeString(s), string(c)))
				case !strings.HasPrefix(s, "&") || !strings.HasSuffix(s, ";"):
					r.bad("R07.3", fname, construct, w.pos(cc), fmt.Sprintf("%q is not a well-formed character reference (&…;)", s))
				case strings.ContainsAny(s[1:], htmlSpecials):
					r.bad("R07.3", fname, construct, w.pos(cc), fmt.Sprintf("%q contains a raw special character", s))
				default:
					r.ok("R07.3", fname, construct, w.pos(cc), fmt.Sprintf("writes %q, decodes to %q", s, string(c)), true)
				}
			}
			// default arm writes the rune itself
			construct := "escape table default arm"
			if deflt == nil {
				r.bad("R07.3", fname, construct, w.pos(sw), "no default arm: all other characters are dropped")
			} else {
				tagObj := identObj(w, sw.Tag)
				okDefault := false
				if len(deflt.Body) == 1 {
					if es, ok := deflt.Body[0].(*ast.ExprStmt); ok {
						if call, ok := es.X.(*ast.CallExpr); ok && len(call.Args) == 1 && identObj(w, call.Args[0]) == tagObj && tagObj != nil {
							if sel, ok := call.Fun.(*ast.SelectorExpr); ok && (sel.Sel.Name == "WriteRune" || sel.Sel.Name == "WriteByte") {
								okDefault = true
							}
						}
					}
				}
				if okDefault {
					r.ok("R07.3", fname, construct, w.pos(deflt), "writes the switched rune unchanged", true)
				} else {
					r.bad("R07.3", fname, construct, w.pos(deflt), "the default arm does not simply write the rune it switched on: other characters are altered or dropped")
				}
			}
			return true
		})
	}
	r.Counts["hand-written HTML escape tables"] = nSw
	if nSw == 0 {
		r.note("no hand-written escape table found (only the library routine is used)")
	}
	checkChainsApplied(w, r)
	checkEscapeNeverRebound(w, r, escapeFn)
	checkApplyWritesFilterResult(w, r)
	checkApplyTagBuildsApplyNode(w, r)
	checkStringifyIdentityOnStrings(w, r)
	checkInterpolatorSeesOnlySource(w, r)
	checkPolicyQuestionsAgree(w, r, "R07.11")
}

func objName(o types.Object) string {
	if o == nil {
		return "<unresolved>"
	}
	return o.Name()
}

// writtenConstants: constant strings passed to Write*/Fprint* calls in the clause body.
func writtenConstants(w *World, cc *ast.CaseClause) []string {
	var out []string
	for _, st := range cc.Body {
		ast.Inspect(st, func(n ast.Node) bool {
			call, ok := n.(*ast.CallExpr)
			if !ok {
				return true
			}
			sel, ok := call.Fun.(*ast.SelectorExpr)
			if !ok || !strings.HasPrefix(sel.Sel.Name, "Write") {
				return true
			}
			for _, a := range call.Args {
				if tv := w.Info.Types[a]; tv.Value != nil && tv.Value.Kind() == constant.String {
					out = append(out, constant.StringVal(tv.Value))
				}
			}
			return true
		})
	}
	sort.Strings(out)
	return out
}

// escapeOf: is v exactly html.EscapeString(<stringification of the filter input>) — directly or
// through package helpers that do nothing but that?  Returns "" if so, else the reason.
func escapeOf(w *World, v ssa.Value, fn *ssa.Function, depth int) string {
	if depth > 4 {
		return "call chain too deep"
	}
	c, ok := v.(*ssa.Call)
	if !ok {
		return fmt.Sprintf("the returned value is not a call result (%T)", v)
	}
	f := c.Call.StaticCallee()
	if f == nil {
		return "the returned value comes from a dynamic call"
	}
	if f.Pkg != nil && f.Pkg.Pkg.Path() == "html" && f.Name() == "EscapeString" {
		// the argument must be the stringified input: derived from a parameter only through
		// conversion calls, no other string manipulation of package strings
		if why := pureStringOfParam(c.Call.Args[0], fn, 0); why != "" {
			return "the argument of html.EscapeString is " + why
		}
		return ""
	}
	if !w.inPkg(f) {
		return "the result of " + f.String() + " is returned instead of html.EscapeString's"
	}
	// helper: every return of f is escapeOf its own parameter, and our argument is the input
	okAll, n := true, 0
	var reason string
	instrsOf(f, func(in ssa.Instruction) {
		ret, isRet := in.(*ssa.Return)
		if !isRet || len(ret.Results) != 1 {
			return
		}
		n++
		if why := escapeOf(w, retResults(ret)[0], f, depth+1); why != "" {
			okAll, reason = false, why
		}
	})
	if !okAll || n == 0 {
		return "helper " + ssaName(f) + ": " + reason
	}
	for _, a := range c.Call.Args {
		if why := pureStringOfParam(a, fn, 0); why != "" {
			return "the argument of " + ssaName(f) + " is " + why
		}
	}
	return ""
}

// pureStringOfParam: v is a parameter, or a conversion (toString-like call, type assertion,
// string conversion) of a parameter — not the result of strings.* manipulation.
func pureStringOfParam(v ssa.Value, fn *ssa.Function, depth int) string {
	if depth > 5 {
		return "derived through too many steps"
	}
	switch x := v.(type) {
	case *ssa.Parameter:
		return ""
	case *ssa.TypeAssert:
		return pureStringOfParam(x.X, fn, depth+1)
	case *ssa.Extract:
		return pureStringOfParam(x.Tuple, fn, depth+1)
	case *ssa.Convert:
		return pureStringOfParam(x.X, fn, depth+1)
	case *ssa.Phi:
		for _, e := range x.Edges {
			if why := pureStringOfParam(e, fn, depth+1); why != "" {
				return why
			}
		}
		return ""
	case *ssa.Call:
		f := x.Call.StaticCallee()
		if f == nil {
			return "the result of a dynamic call"
		}
		name := f.Name()
		pkg := ""
		if f.Pkg != nil {
			pkg = f.Pkg.Pkg.Path()
		}
		// stringification helpers of the package (toString, ToString) and fmt.Sprint*
		isStringify := (pkg == twigPath && strings.EqualFold(name, "tostring")) || (pkg == "fmt" && strings.HasPrefix(name, "Sprint"))
		if !isStringify {
			return "the result of " + f.String() + " (the input is transformed before it is escaped)"
		}
		for _, a := range x.Call.Args {
			if _, isSlice := a.Type().Underlying().(*types.Slice); isSlice {
				continue
			}
			if isNamed(a.Type(), twigPath, "RenderContext") || isNamed(a.Type(), twigPath, "CoreExtension") {
				continue
			}
			if why := pureStringOfParam(a, fn, depth+1); why != "" {
				return why
			}
		}
		return ""
	}
	return fmt.Sprintf("a value of kind %T", v)
}

var _ = token.NoPos

// checkFallbackPosition: the switch lies in a function that looks the filter up in
// Environment.filters; the switch must not be reachable on the found-edge of that lookup and
// every path to it must cross the lookup's not-found edge (or the env == nil edge).
func (w *World) checkFallbackPosition(r *Report, fd *ast.FuncDecl, sw *ast.SwitchStmt) {
	obj := w.Info.Defs[fd.Name].(*types.Func)
	fn := w.ssaFunc(obj)
	// an instruction inside the switch: the first WriteString of a constant starting with '&'
	var probe ssa.Instruction
	instrsOf(fn, func(in ssa.Instruction) {
		c, ok := in.(ssa.CallInstruction)
		if !ok || probe != nil {
			return
		}
		for _, a := range c.Common().Args {
			if s, ok := constString(a); ok && strings.HasPrefix(s, "&") && strings.HasSuffix(s, ";") && in.Pos() >= sw.Pos() && in.Pos() <= sw.End() {
				probe = in
			}
		}
	})
	if probe == nil {
		return
	}
	hasLookup := false
	notFound := func(b *ssa.BasicBlock, i int) bool {
		return anyEdgeFact(b, i, func(v ssa.Value, trueIdx int) bool {
			if ex, ok := v.(*ssa.Extract); ok && ex.Index == 1 {
				if lk, ok := ex.Tuple.(*ssa.Lookup); ok {
					if _, ok := fieldLoad(lk.X, "Environment", "filters"); ok {
						hasLookup = true
						return i != trueIdx
					}
				}
			}
			// ctx.env == nil: no registered filters at all
			if bo, ok := v.(*ssa.BinOp); ok && isNilConst(bo.Y) && isNamed(bo.X.Type(), twigPath, "Environment") {
				isNil := (bo.Op == token.EQL) == (i == trueIdx)
				return isNil
			}
			return false
		})
	}
	for _, b := range fn.Blocks {
		for i := range b.Succs {
			notFound(b, i) // sets hasLookup
		}
	}
	bad, _ := existsPathAvoiding(fn, probe, nil, notFound)
	construct := "hand-written escape table is only a fallback"
	switch {
	case !hasLookup:
		r.ok("R07.4", w.declName(fd), construct, w.pos(sw), "the function does not look filters up (table used unconditionally is checked by R07.3 only)", false)
	case bad:
		r.bad("R07.4", w.declName(fd), construct, w.pos(sw), "the hand-written escape loop can run although the registered escape filter exists (it is reachable without the lookup having failed): it decodes the string rune by rune, so bytes that are not valid UTF-8 are replaced by U+FFFD instead of passing through unchanged, and a user-registered escape filter is bypassed")
	default:
		r.ok("R07.4", w.declName(fd), construct, w.pos(sw), "reachable only across the not-found edge of the lookup in Environment.filters", true)
	}
}

// checkChainsApplied — R07.5: `x|e|e` escapes twice.  A filter chain is applied item by item; in
// every function that walks a []FilterChainItem and reads its items, each pass of the loop
// either leaves the function or goes through the call that applies the item (ApplyFilter, or
// whatever function the item's name is handed to).  A path round the loop that avoids the
// call — "this filter directly follows itself, nothing left to do" — drops a filter the
// template asked for; for escape that is the difference between text that survives one more
// decoding step and text that does not.
func checkChainsApplied(w *World, r *Report) {
	itemT := w.named("FilterChainItem")
	n := 0
	for _, fn := range w.pkgFuncs() {
		// loop headers: the block of the index phi of an IndexAddr over []FilterChainItem whose
		// element is read
		type loop struct {
			header *ssa.BasicBlock
			elem   *ssa.IndexAddr
		}
		var loops []loop
		instrsOf(fn, func(in ssa.Instruction) {
			ia, ok := in.(*ssa.IndexAddr)
			if !ok {
				return
			}
			sl, ok := deref(ia.X.Type()).Underlying().(*types.Slice)
			if !ok || !types.Identical(sl.Elem(), itemT) {
				return
			}
			ph, ok := ia.Index.(*ssa.Phi)
			if !ok || ia.Referrers() == nil {
				// rotated range loops index with phi+1
				if bo, isBo := ia.Index.(*ssa.BinOp); isBo {
					if p2, isPhi := bo.X.(*ssa.Phi); isPhi {
						ph, ok = p2, true
					}
				}
				if !ok {
					return
				}
			}
			read := false
			for _, ref := range *ia.Referrers() {
				switch x := ref.(type) {
				case *ssa.UnOp:
					read = true
				case *ssa.FieldAddr:
					if x.Referrers() != nil {
						for _, r2 := range *x.Referrers() {
							if _, isLoad := r2.(*ssa.UnOp); isLoad {
								read = true
							}
						}
					}
				}
			}
			if read {
				loops = append(loops, loop{ph.Block(), ia})
			}
		})
		for _, lp := range loops {
			// the applying calls: calls that receive a value read from the element
			fromElem := map[ssa.Value]bool{}
			var mark func(v ssa.Value, d int)
			mark = func(v ssa.Value, d int) {
				if fromElem[v] || d > 6 || v.Referrers() == nil {
					return
				}
				fromElem[v] = true
				for _, ref := range *v.Referrers() {
					switch x := ref.(type) {
					case *ssa.UnOp, *ssa.FieldAddr, *ssa.Field, *ssa.Phi, *ssa.Slice, *ssa.MakeInterface, *ssa.ChangeType:
						mark(x.(ssa.Value), d+1)
					case *ssa.Store:
						if x.Val == v {
							if al, isAl := x.Addr.(*ssa.Alloc); isAl {
								mark(al, d+1)
							}
							// the one-element array of a variadic append(dst, item)
							if ia2, isIA := x.Addr.(*ssa.IndexAddr); isIA {
								if al, isAl := ia2.X.(*ssa.Alloc); isAl {
									mark(al, d+1)
								}
							}
						}
					}
				}
			}
			mark(lp.elem, 0)
			applyBlocks := map[*ssa.BasicBlock]bool{}
			var applyPos string
			instrsOf(fn, func(in ssa.Instruction) {
				c, ok := in.(ssa.CallInstruction)
				if !ok {
					return
				}
				if _, isDefer := in.(*ssa.Defer); isDefer {
					return
				}
				cc := c.Common()
				// a pass that copies the item into another chain hands it on (a pre-pass that
				// rebuilds the chain must keep every item: dropping one by name — an escape after
				// a raw, a repeated filter — drops a filter the template asked for)
				if b, isB := cc.Value.(*ssa.Builtin); isB && b.Name() == "append" && len(cc.Args) == 2 {
					if sl, ok := cc.Args[1].Type().Underlying().(*types.Slice); ok && types.Identical(sl.Elem(), itemT) && fromElem[cc.Args[1]] {
						applyBlocks[in.Block()] = true
						applyPos = w.posOf(in.Pos())
					}
					return
				}
				if f := calleeFunc(c); f != nil && (f.Pkg() == nil || f.Pkg().Path() != twigPath) {
					return // logging, fmt …
				}
				if g := cc.StaticCallee(); g != nil && strings.HasPrefix(g.Name(), "Log") {
					return
				}
				for _, a := range cc.Args {
					if fromElem[a] && types.Identical(a.Type().Underlying(), types.Typ[types.String]) {
						applyBlocks[in.Block()] = true
						applyPos = w.posOf(in.Pos())
					}
				}
			})
			if len(applyBlocks) == 0 {
				continue // the chain is only inspected here (DetectFilterChain, debugging)
			}
			n++
			construct := "every item of the filter chain is applied"
			// a cycle through the header that avoids every applying block
			seen := map[*ssa.BasicBlock]bool{}
			var skip bool
			var dfs func(b *ssa.BasicBlock)
			dfs = func(b *ssa.BasicBlock) {
				if skip || seen[b] || applyBlocks[b] {
					return
				}
				seen[b] = true
				for _, s := range b.Succs {
					if s == lp.header {
						skip = true
						return
					}
					dfs(s)
				}
			}
			// start in the block that reads the element (the loop body)
			dfs(lp.elem.Block())
			if skip {
				r.bad("R07.5", ssaName(fn), construct, w.posOf(lp.elem.Pos()), "the loop over the chain can go on to the next item without passing the call that applies this one ("+applyPos+"): a filter written in the template is silently dropped — `v|e|e` no longer escapes twice, so already-escaped text is not escaped again")
			} else {
				r.ok("R07.5", ssaName(fn), construct, w.posOf(lp.elem.Pos()), "each pass of the loop applies the item or leaves the function", true)
			}
		}
	}
	r.floor("loops applying a filter chain", n, 1)
}

// checkEscapeNeverRebound — R07.6: the names escape and e mean the registered escape routine in
// every environment the package builds.  Outside the registration table no code of the package
// stores anything under the constant key "escape" or "e" into a filter table (a per-template
// "view" of the environment in which escaping is switched off makes the same source — and the
// same included partial — escape or not depending on the name of the template that was asked
// for).  Users re-registering a filter through AddFilter use a non-constant key and are their own
// responsibility.
func checkEscapeNeverRebound(w *World, r *Report, escapeFn *types.Func) {
	filterT := w.named("FilterFunc")
	n, bad := 0, 0
	for _, fn := range w.pkgFuncs() {
		instrsOf(fn, func(in ssa.Instruction) {
			mu, ok := in.(*ssa.MapUpdate)
			if !ok {
				return
			}
			mt, ok := mu.Map.Type().Underlying().(*types.Map)
			if !ok || !types.Identical(mt.Elem(), filterT) {
				return
			}
			key, ok := constString(mu.Key)
			if !ok || (key != "escape" && key != "e") {
				return
			}
			n++
			// the registration table itself: the stored value is (a method value of) the registered function
			val := mu.Value
			if ct, ok := val.(*ssa.ChangeType); ok {
				val = ct.X
			}
			same := false
			switch x := val.(type) {
			case *ssa.MakeClosure:
				if bf, ok := x.Fn.(*ssa.Function); ok {
					if m, ok := bf.Object().(*types.Func); ok && m == escapeFn {
						same = true
					}
				}
			case *ssa.Function:
				if m, ok := x.Object().(*types.Func); ok && m == escapeFn {
					same = true
				}
			}
			if same {
				r.ok("R07.6", ssaName(fn), `filter table entry "`+key+`"`, w.posOf(in.Pos()), "bound to the registered escape routine", true)
			} else {
				bad++
				r.bad("R07.6", ssaName(fn), `filter table entry "`+key+`"`, w.posOf(in.Pos()), "a filter table gets another function under the name "+key+" than the registered escape routine: in environments built this way `|"+key+"` no longer neutralises < > & \" ', and the same template text escapes or not depending on which environment renders it")
			}
		})
	}
	r.Counts["stores under the names escape/e into filter tables"] = n
	if n == 0 {
		r.note("the escape names are only bound in the registration table literal")
	}
}

// checkApplyWritesFilterResult — R07.7: what an apply block writes is what its filter returned.
// In the Render method of every node type that names a filter and applies it (ApplyFilter with
// the node's filter field), every value written to the output parameter derives, on every
// incoming edge, from the result of that ApplyFilter call (through string conversions).  A
// branch that writes the unfiltered body instead — "already encoded", "nothing to do" — makes
// `{% apply escape %}` differ from `|escape` for the inputs that take it.
func checkApplyWritesFilterResult(w *World, r *Report) {
	applyFilter := w.method("RenderContext", "ApplyFilter")
	n := 0
	type cand struct {
		fn      *ssa.Function
		out     *ssa.Parameter
		applies []*ssa.Call
	}
	var cands []cand
	for _, nt := range w.nodeStructs() {
		m := w.tryMethod(nt.Obj().Name(), "Render")
		if m == nil {
			continue
		}
		fn := w.ssaFunc(m)
		if fn == nil || len(fn.Params) < 2 {
			continue
		}
		var applies []*ssa.Call
		instrsOf(fn, func(in ssa.Instruction) {
			if c, ok := in.(*ssa.Call); ok && calleeFunc(c) == applyFilter {
				if t, f := originField(callArgs(c)[0], 0); f == "filter" && t == nt.Obj().Name() {
					applies = append(applies, c)
				}
			}
		})
		if len(applies) > 0 {
			cands = append(cands, cand{fn, fn.Params[1], applies})
			continue
		}
		// the filter is applied, and its result written, by a helper the node hands its
		// writer and its filter name to
		instrsOf(fn, func(in ssa.Instruction) {
			c, ok := in.(*ssa.Call)
			if !ok {
				return
			}
			g := c.Call.StaticCallee()
			if g == nil || !isTwigFn(g) || len(g.Blocks) == 0 {
				return
			}
			passesFilter := false
			for _, a := range c.Call.Args {
				if t, f := originField(a, 0); f == "filter" && t == nt.Obj().Name() {
					passesFilter = true
				}
			}
			// (a constant filter name — the spaceless tag — counts as the node's filter too)
			var hout *ssa.Parameter
			for _, p := range g.Params {
				if isNamed(p.Type(), "io", "Writer") {
					hout = p
				}
			}
			if hout == nil {
				return
			}
			var happlies []*ssa.Call
			instrsOf(g, func(in2 ssa.Instruction) {
				if c2, ok := in2.(*ssa.Call); ok && calleeFunc(c2) == applyFilter {
					if _, isParam := unspill(callArgs(c2)[0]).(*ssa.Parameter); isParam {
						happlies = append(happlies, c2)
					}
				}
			})
			if len(happlies) == 0 || !(passesFilter || true) {
				return
			}
			for _, k := range cands {
				if k.fn == g {
					return
				}
			}
			cands = append(cands, cand{g, hout, happlies})
		})
	}
	for _, k := range cands {
		fn, out, applies := k.fn, k.out, k.applies
		var leafBad func(v ssa.Value, seen map[ssa.Value]bool, depth int) string
		leafBad = func(v ssa.Value, seen map[ssa.Value]bool, depth int) string {
			v = unspill(v)
			if seen[v] || depth > 12 {
				return ""
			}
			seen[v] = true
			switch x := v.(type) {
			case *ssa.Const:
				return ""
			case *ssa.Phi:
				for _, e := range x.Edges {
					if b := leafBad(e, seen, depth+1); b != "" {
						return b
					}
				}
				return ""
			case *ssa.Convert:
				return leafBad(x.X, seen, depth+1)
			case *ssa.ChangeType:
				return leafBad(x.X, seen, depth+1)
			case *ssa.MakeInterface:
				return leafBad(x.X, seen, depth+1)
			case *ssa.TypeAssert:
				return leafBad(x.X, seen, depth+1)
			case *ssa.Extract:
				if c, ok := x.Tuple.(*ssa.Call); ok {
					for _, a := range applies {
						if a == c && x.Index == 0 {
							return ""
						}
					}
				}
				return leafBad(x.Tuple, seen, depth+1)
			case *ssa.Call:
				// a conversion helper: every data argument must itself be the filter result
				args := callArgs(x)
				data := 0
				for _, a := range args {
					if isNamed(deref(a.Type()), twigPath, "RenderContext") {
						continue
					}
					data++
					if b := leafBad(a, seen, depth+1); b != "" {
						return b
					}
				}
				if data > 0 {
					return ""
				}
			}
			return v.Name() + " (" + v.String() + ")"
		}
		instrsOf(fn, func(in ssa.Instruction) {
			c, ok := in.(ssa.CallInstruction)
			if !ok {
				return
			}
			args := c.Common().Args
			if c.Common().IsInvoke() {
				args = append([]ssa.Value{c.Common().Value}, args...)
			}
			toOut := false
			for _, a := range args {
				if unspill(a) == ssa.Value(out) {
					toOut = true
				}
			}
			if !toOut {
				return
			}
			if g := c.Common().StaticCallee(); g != nil && isTwigFn(g) && isNodeRender(g) {
				return
			}
			if c.Common().IsInvoke() && c.Common().Method.Name() == "Render" {
				return // a child rendered straight to the output: not this rule's subject
			}
			n++
			construct := "the apply block writes the filter's result"
			bad := ""
			for _, a := range args {
				if unspill(a) == ssa.Value(out) {
					continue
				}
				switch a.Type().Underlying().(type) {
				case *types.Basic, *types.Slice, *types.Interface:
				default:
					continue
				}
				for _, e := range variadicElems(a) {
					if b := leafBad(e, map[ssa.Value]bool{}, 0); b != "" {
						bad = b
					}
				}
			}
			if bad == "" {
				r.ok("R07.7", ssaName(fn), construct, w.posOf(in.Pos()), "every written value is the ApplyFilter result, converted", true)
			} else {
				r.bad("R07.7", ssaName(fn), construct, w.posOf(in.Pos()), "the node writes "+bad+", which on some path is not the result of applying its filter: for the bodies that take that path `{% apply f %}` is not `|f` (with escape: text that is not escaped, or escaped text that no longer decodes to the original)")
			}
		})
	}
	r.floor("writes of an applied filter's result", n, 1)
}

func isNodeRender(g *ssa.Function) bool {
	return g.Name() == "Render" && g.Signature.Recv() != nil
}

// checkStringifyIdentityOnStrings — R07.8: turning a value into text leaves text alone.  Every
// function of the package that maps one interface{} value to a string and singles out the case
// "it is a string already" returns, for that case, the very string it was given — not something
// computed from it.  Escaping is applied to the stringified value; a stringifier that repairs,
// trims or normalises strings changes bytes that escape must pass through (or hides bytes from
// it).
func checkStringifyIdentityOnStrings(w *World, r *Report) {
	n := 0
	for _, fn := range w.pkgFuncs() {
		sig := fn.Signature
		if sig.Results().Len() != 1 || fn.Synthetic != "" {
			continue
		}
		if b, ok := sig.Results().At(0).Type().Underlying().(*types.Basic); !ok || b.Kind() != types.String {
			continue
		}
		var param *ssa.Parameter
		cnt := 0
		for i, p := range fn.Params {
			if i == 0 && sig.Recv() != nil {
				continue
			}
			cnt++
			if it, ok := p.Type().Underlying().(*types.Interface); ok && it.NumMethods() == 0 {
				param = p
			}
		}
		if param == nil || cnt != 1 {
			continue
		}
		instrsOf(fn, func(in ssa.Instruction) {
			ta, ok := in.(*ssa.TypeAssert)
			if !ok || unspill(ta.X) != ssa.Value(param) || !types.Identical(ta.AssertedType, types.Typ[types.String]) {
				return
			}
			var sv ssa.Value = ta
			if ta.CommaOk {
				sv = nil
				for _, ref := range *ta.Referrers() {
					if ex, ok := ref.(*ssa.Extract); ok && ex.Index == 0 {
						sv = ex
					}
				}
				if sv == nil {
					return
				}
			}
			n++
			derived := map[ssa.Value]bool{sv: true}
			for changed := true; changed; {
				changed = false
				instrsOf(fn, func(x ssa.Instruction) {
					v, ok := x.(ssa.Value)
					if !ok || derived[v] {
						return
					}
					for _, op := range x.Operands(nil) {
						if *op != nil && derived[*op] {
							switch x.(type) {
							case *ssa.Call, *ssa.BinOp, *ssa.Slice, *ssa.Convert, *ssa.Phi, *ssa.Extract, *ssa.ChangeType, *ssa.MakeInterface:
								derived[v] = true
								changed = true
							}
							return
						}
					}
				})
			}
			bad := ""
			instrsOf(fn, func(x ssa.Instruction) {
				ret, ok := x.(*ssa.Return)
				if !ok || bad != "" {
					return
				}
				res := ret.Results[0]
				if res == sv || !derived[res] {
					return
				}
				if ph, ok := res.(*ssa.Phi); ok {
					okAll := true
					for _, e := range ph.Edges {
						if derived[e] && e != sv {
							okAll = false
						}
					}
					if okAll {
						return
					}
				}
				bad = w.posOf(ret.Pos())
			})
			construct := "a string is stringified as itself"
			if bad == "" {
				r.ok("R07.8", ssaName(fn), construct, w.posOf(in.Pos()), "the string case returns the asserted value", true)
			} else {
				r.bad("R07.8", ssaName(fn), construct, w.posOf(in.Pos()), "for a value that is a string already the function returns (at "+bad+") something computed from it instead of the string itself: bytes of the input are changed or dropped before escape sees them, so the escaped output no longer decodes to the original text")
			}
		})
	}
	r.floor("stringifiers with a string case", n, 1)
}

// checkInterpolatorSeesOnlySource — R07.10: text that was rendered is never read as a template.
// The helper that resolves `{{ name }}` references inside a string (renderVariableString: the
// function the macro call hands literal text nodes to) is only ever given the content field of a
// TextNode — template source.  Given rendered output, it interprets data: a value that was
// escaped and happens to contain {{ … }} is interpolated a second time, and the raw argument is
// spliced into the output behind the escape filter's back.
func checkInterpolatorSeesOnlySource(w *World, r *Report) {
	// the interpolators: package functions (string, *RenderContext, io.Writer) called with
	// TextNode.content somewhere
	interp := map[*ssa.Function]bool{}
	for _, fn := range w.pkgFuncs() {
		instrsOf(fn, func(in ssa.Instruction) {
			c, ok := in.(*ssa.Call)
			if !ok {
				return
			}
			g := c.Call.StaticCallee()
			if g == nil || !isTwigFn(g) || len(c.Call.Args) < 2 {
				return
			}
			takesCtx, takesW := false, false
			for _, a := range c.Call.Args {
				if isNamed(deref(a.Type()), twigPath, "RenderContext") {
					takesCtx = true
				}
				if isNamed(a.Type(), "io", "Writer") {
					takesW = true
				}
			}
			if !takesCtx || !takesW || g.Signature.Recv() != nil {
				return
			}
			for _, a := range c.Call.Args {
				if isString(a.Type()) {
					if t, f := originField(a, 0); t == "TextNode" && f == "content" {
						interp[g] = true
					}
				}
			}
		})
	}
	// … and by what they do: a function taking (string, *RenderContext, io.Writer) that looks
	// for the print delimiters in its string and asks the context for values
	for _, g := range w.pkgFuncs() {
		if interp[g] || g.Signature.Recv() != nil || len(g.Params) < 3 {
			continue
		}
		hasStr, hasCtx, hasW := false, false, false
		for _, p := range g.Params {
			switch {
			case isString(p.Type()):
				hasStr = true
			case isNamed(deref(p.Type()), twigPath, "RenderContext"):
				hasCtx = true
			case isNamed(p.Type(), "io", "Writer"):
				hasW = true
			}
		}
		if !hasStr || !hasCtx || !hasW {
			continue
		}
		looksForDelims, asksCtx := false, false
		instrsOf(g, func(in ssa.Instruction) {
			c, ok := in.(*ssa.Call)
			if !ok {
				return
			}
			if f := calleeFunc(c); f != nil && f.Pkg() != nil && f.Pkg().Path() == "strings" {
				for _, a := range c.Call.Args {
					if k, ok := constString(a); ok && (k == "{{" || k == "}}") {
						looksForDelims = true
					}
				}
			}
			if f := calleeFunc(c); f != nil {
				if sig, ok := f.Type().(*types.Signature); ok && sig.Recv() != nil && isNamed(deref(sig.Recv().Type()), twigPath, "RenderContext") {
					asksCtx = true
				}
			}
		})
		if looksForDelims && asksCtx {
			interp[g] = true
		}
	}
	n := 0
	for _, fn := range w.pkgFuncs() {
		instrsOf(fn, func(in ssa.Instruction) {
			c, ok := in.(*ssa.Call)
			if !ok {
				return
			}
			g := c.Call.StaticCallee()
			if g == nil || !interp[g] || fn == g {
				return
			}
			for _, a := range c.Call.Args {
				if !isString(a.Type()) {
					continue
				}
				n++
				construct := "text handed to the interpolator " + g.Name()
				if t, f := originField(a, 0); t == "TextNode" && f == "content" {
					r.ok("R07.10", ssaName(fn), construct, w.posOf(in.Pos()), "the content of a text node", true)
				} else {
					r.bad("R07.10", ssaName(fn), construct, w.posOf(in.Pos()), "the string whose {{ … }} references are resolved here is not the content of a text node of the template (it is computed: rendered output, a buffer's text): values that were printed — and escaped — are scanned for references again, so data is evaluated as template text and raw arguments reach the output unescaped")
				}
			}
		})
	}
	r.Counts["calls of the in-text interpolator"] = n
}

// checkApplyTagBuildsApplyNode — R07.9: an apply block stays an apply block.  Every successful
// return of the handler registered for the `apply` tag yields an *ApplyNode: the node is what
// renders the body to text before the filter sees it.  A handler that rewrites the block into a
// filtered print hands the filter the value of the expression instead of the text it renders to
// (a macro call or parent() is a function value, not its output).
func checkApplyTagBuildsApplyNode(w *World, r *Report) {
	h := w.tagHandlers()["apply"]
	if h == nil {
		cannotDecide("no block handler is registered for the apply tag")
	}
	fn := w.ssaFunc(h)
	n := 0
	ei := errResultIndex(fn.Signature)
	instrsOf(fn, func(in ssa.Instruction) {
		ret, ok := in.(*ssa.Return)
		if !ok {
			return
		}
		res := retResults(ret)
		if ei < 0 || ei >= len(res) || !isNilConst(res[ei]) {
			return
		}
		for i, v := range res {
			if i == ei || !isNamed(v.Type(), twigPath, "Node") {
				continue
			}
			n++
			other := ""
			seen := map[ssa.Value]bool{}
			var walk func(v ssa.Value, d int)
			walk = func(v ssa.Value, d int) {
				v = unspill(v)
				if v == nil || seen[v] || d > 6 {
					return
				}
				seen[v] = true
				switch x := v.(type) {
				case *ssa.MakeInterface:
					if !isNamed(x.X.Type(), twigPath, "ApplyNode") {
						other = x.X.Type().String()
					}
				case *ssa.ChangeInterface:
					walk(x.X, d+1)
				case *ssa.Phi:
					for _, e := range x.Edges {
						walk(e, d+1)
					}
				case *ssa.Const:
				default:
					other = describe(v)
				}
			}
			walk(v, 0)
			construct := "the apply handler returns an ApplyNode"
			if other == "" {
				r.ok("R07.9", ssaName(fn), construct, w.posOf(ret.Pos()), "an *ApplyNode on every edge", true)
			} else {
				r.bad("R07.9", ssaName(fn), construct, w.posOf(ret.Pos()), "on this path the block becomes "+other+": the filter is applied to something other than the text the body renders to, so `{% apply escape %}` and `|escape` part ways for bodies that render themselves (macro calls, parent())")
			}
		}
	})
	r.floor("successful returns of the apply handler", n, 1)
}
