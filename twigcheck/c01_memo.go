package main

// R01.6 — package-level memo tables are functions of their key.
//
// Any map (or sync.Map) that lives in a package-level variable and is written outside package
// initialisation is shared by every engine, template and render of the process.  Whatever is
// stored under a key must be computed from that key alone (constants and pure reflect.Type
// methods allowed): then a hit returns what a miss would compute and the table is unobservable.
// A value that depends on anything else — a template source, an object, the clock — makes the
// result of a later call depend on which call filled the table first.  (The attribute cache has
// its own, finer rules in C20 and is only counted here.)

import (
	"fmt"
	"go/token"
	"go/types"

	"golang.org/x/tools/go/ssa"
)

// globalRoot: the package-level variable an address / value is reached from (through field
// addresses and loads), nil if none.
func globalRoot(v ssa.Value, depth int) *ssa.Global {
	if depth > 8 {
		return nil
	}
	switch x := v.(type) {
	case *ssa.Global:
		return x
	case *ssa.FieldAddr:
		return globalRoot(x.X, depth+1)
	case *ssa.UnOp:
		return globalRoot(x.X, depth+1)
	case *ssa.IndexAddr:
		return globalRoot(x.X, depth+1)
	}
	return nil
}

func checkGlobalMemos(w *World, r *Report, rule string, only func(*ssa.Function) bool) {
	_, sp := w.ssa()
	attr := sp.Var("attributeCache")
	n, nAttr := 0, 0
	keyParts := func(k ssa.Value) []ssa.Value {
		parts := []ssa.Value{k}
		if mi, ok := k.(*ssa.MakeInterface); ok {
			k = mi.X
			parts = append(parts, k)
		}
		if u, ok := k.(*ssa.UnOp); ok {
			if al, ok := u.X.(*ssa.Alloc); ok && al.Referrers() != nil {
				for _, ref := range *al.Referrers() {
					if fa, ok := ref.(*ssa.FieldAddr); ok && fa.Referrers() != nil {
						for _, r2 := range *fa.Referrers() {
							if st, ok := r2.(*ssa.Store); ok && st.Addr == fa {
								parts = append(parts, st.Val)
							}
						}
					}
				}
			}
		}
		return parts
	}
	check := func(fn *ssa.Function, in ssa.Instruction, g *ssa.Global, key, val ssa.Value) {
		if g == attr {
			nAttr++
			return
		}
		n++
		parts := keyParts(key)
		isPart := func(x ssa.Value) bool {
			for _, p := range parts {
				if sameValue(x, p) {
					return true
				}
			}
			return false
		}
		if mi, ok := val.(*ssa.MakeInterface); ok {
			val = mi.X
		}
		construct := "value stored in package-level table " + g.Name() + " is a function of its key"
		if why := impureSource(val, isPart, map[ssa.Value]bool{}, 0); why != "" {
			r.bad(rule, ssaName(fn), construct, w.posOf(in.Pos()), fmt.Sprintf("the stored value depends on %s, not on the key alone: every engine and render in the process shares this table, so a later lookup under the same key is answered with what an unrelated earlier call computed", why))
		} else {
			r.ok(rule, ssaName(fn), construct, w.posOf(in.Pos()), "computed from the key (and constants) only", true)
		}
	}
	for _, fn := range w.pkgFuncs() {
		root := fn
		for root.Parent() != nil {
			root = root.Parent()
		}
		if root.Name() == "init" || root.Synthetic != "" {
			continue
		}
		if only != nil && !only(fn) {
			continue
		}
		instrsOf(fn, func(in ssa.Instruction) {
			switch x := in.(type) {
			case *ssa.MapUpdate:
				if g := globalRoot(x.Map, 0); g != nil && g.Pkg == sp {
					check(fn, in, g, x.Key, x.Value)
				}
			case *ssa.Call:
				f := calleeFunc(x)
				if f == nil || f.Pkg() == nil || f.Pkg().Path() != "sync" {
					return
				}
				recv := f.Type().(*types.Signature).Recv()
				if recv == nil || !isNamed(recv.Type(), "sync", "Map") {
					return
				}
				if f.Name() != "Store" && f.Name() != "LoadOrStore" && f.Name() != "Swap" {
					return
				}
				if g := globalRoot(x.Call.Args[0], 0); g != nil && g.Pkg == sp && len(x.Call.Args) >= 3 {
					check(fn, in, g, x.Call.Args[1], x.Call.Args[2])
				}
			}
		})
	}
	r.Counts["writes to package-level tables outside init"] = n
	r.Counts["writes to the attribute cache (decided by C20)"] = nAttr
	if only == nil {
		r.floor("writes to package-level tables outside init (incl. attribute cache)", n+nAttr, 1)
	}
}

// R01.8 — package-level containers stay package-level.  A map or slice that lives in a
// package-level variable is one object for the whole process.  If a function stores it into a
// field of another object or returns it, every engine, policy or template built that way
// aliases the same container, and the documented way of customising one of them (writing to
// its exported map) silently changes all the others — the result of a render then depends on
// what was configured elsewhere in the process.  Obligation: every load of a package-level
// map/slice variable; it may be indexed, ranged over, measured and passed to calls, but never
// flows (through phis, conversions and interface boxing) into a field store or a return value.
func checkGlobalAliasing(w *World, r *Report, rule string) {
	_, sp := w.ssa()
	n := 0
	for _, fn := range w.pkgFuncs() {
		root := fn
		for root.Parent() != nil {
			root = root.Parent()
		}
		if root.Name() == "init" || root.Synthetic != "" {
			continue
		}
		instrsOf(fn, func(in ssa.Instruction) {
			u, ok := in.(*ssa.UnOp)
			if !ok || u.Op != token.MUL {
				return
			}
			g, ok := u.X.(*ssa.Global)
			if !ok || g.Pkg != sp {
				return
			}
			switch deref(g.Type()).Underlying().(type) {
			case *types.Map, *types.Slice:
			default:
				return
			}
			n++
			construct := "package-level container " + g.Name() + " is not handed out"
			seen := map[ssa.Value]bool{}
			var escape func(v ssa.Value) string
			escape = func(v ssa.Value) string {
				if seen[v] || v.Referrers() == nil {
					return ""
				}
				seen[v] = true
				for _, ref := range *v.Referrers() {
					switch x := ref.(type) {
					case *ssa.Phi, *ssa.MakeInterface, *ssa.ChangeType, *ssa.ChangeInterface:
						if why := escape(x.(ssa.Value)); why != "" {
							return why
						}
					case *ssa.Store:
						if x.Val != v {
							continue
						}
						switch a := x.Addr.(type) {
						case *ssa.FieldAddr:
							tn, f := fieldOfAddr(a)
							return "stored into field " + tn + "." + f + " at " + w.posOf(x.Pos())
						case *ssa.IndexAddr:
							return "stored into an element at " + w.posOf(x.Pos())
						case *ssa.Alloc:
							// a local: follow its loads
							if a.Referrers() != nil {
								for _, ar := range *a.Referrers() {
									if ld, ok := ar.(*ssa.UnOp); ok && ld.Op == token.MUL {
										if why := escape(ld); why != "" {
											return why
										}
									}
								}
							}
						}
					case *ssa.Return:
						return "returned at " + w.posOf(x.Pos())
					case *ssa.MapUpdate:
						if x.Value == v {
							return "stored into a map at " + w.posOf(x.Pos())
						}
					}
				}
				return ""
			}
			if why := escape(u); why != "" {
				r.bad(rule, ssaName(fn), construct, w.posOf(in.Pos()), "the process-wide "+deref(g.Type()).String()+" "+g.Name()+" is "+why+": every object built this way shares one container, so customising one (or a write by its owner) changes what all the others do — results depend on what else happened in the process")
			} else {
				r.ok(rule, ssaName(fn), construct, w.posOf(in.Pos()), "only indexed / ranged over / passed to calls", false)
			}
		})
	}
	r.Counts["loads of package-level map/slice variables"] = n
}
