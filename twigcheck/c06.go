package main

// C06 — a sandboxed include can never run a filter or function the policy forbids.
//
// R06.1 guarded choke points: every dynamic call of a FilterFunc / FunctionFunc value (and every
//       built-in arm selected by comparing the looked-up name with a constant) in a function
//       reachable from render roots is, on every path from the function entry, preceded by a
//       sandbox guard for the very name that selects the callee.
// R06.2 flag inheritance: a RenderContext acquired while another context is in scope has its
//       sandboxed flag set from that context before it is handed to anything that can evaluate.
// R06.3 the flag is monotone: no store of anything but true / an inherited value outside the
//       pool reset.
// R06.5 filter/function values are never smuggled through interface{} / reflect.

import (
	"fmt"
	"go/token"
	"go/types"
	"sort"
	"strings"

	"golang.org/x/tools/go/ssa"
)

func init() { register("C06", checkC06) }

type sandboxFacts struct {
	w *World
	// guard helper summaries: function -> parameter index whose policy check it performs
	filterGuards map[*ssa.Function]int
	funcGuards   map[*ssa.Function]int
	negGuards    map[string]map[*ssa.Function]int // "is blocked" helpers: false ⇒ checked
}

func isSandboxedLoad(v ssa.Value) (base ssa.Value, ok bool) {
	if b, ok := fieldLoad(v, "RenderContext", "sandboxed"); ok {
		return b, true
	}
	// ctx.IsSandboxed(): a method of RenderContext whose body just returns the field
	if c, ok := v.(*ssa.Call); ok {
		if f := c.Call.StaticCallee(); f != nil && f.Signature.Recv() != nil && isNamed(f.Signature.Recv().Type(), twigPath, "RenderContext") && len(f.Blocks) == 1 {
			if ret, ok := f.Blocks[0].Instrs[len(f.Blocks[0].Instrs)-1].(*ssa.Return); ok && len(ret.Results) == 1 {
				if b, ok := fieldLoad(ret.Results[0], "RenderContext", "sandboxed"); ok && b == f.Params[0] {
					return c.Call.Args[0], true
				}
			}
		}
	}
	return nil, false
}

// policyQuery recognises a call of SecurityPolicy.IsFilterAllowed / IsFunctionAllowed (interface
// invoke or a concrete implementation) and returns its name argument.
func policyQuery(v ssa.Value, method string) (ssa.Value, bool) {
	c, ok := v.(*ssa.Call)
	if !ok {
		return nil, false
	}
	f := calleeFunc(c)
	if f == nil || f.Name() != method || f.Pkg() == nil || f.Pkg().Path() != twigPath {
		return nil, false
	}
	args := callArgs(c)
	if len(args) != 1 {
		return nil, false
	}
	return args[0], true
}

func isPolicyTyped(v ssa.Value) bool { return isNamed(v.Type(), twigPath, "SecurityPolicy") }

// guardFlow computes where in fn "the policy has been consulted for `name` or the context is
// not sandboxed" holds.
func (s *sandboxFacts) guardFlow(fn *ssa.Function, name ssa.Value, method string, helpers map[*ssa.Function]int) *boolFlow {
	fl := &boolFlow{fn: fn, entry: false}
	fl.edge = func(b *ssa.BasicBlock, i int) bool {
		return anyEdgeFact(b, i, func(v ssa.Value, trueIdx int) bool {
			onTrue := i == trueIdx
			if _, ok := isSandboxedLoad(v); ok {
				return !onTrue // not sandboxed
			}
			if arg, ok := policyQuery(v, method); ok && sameValue(arg, name) {
				return onTrue // allowed
			}
			if bo, ok := v.(*ssa.BinOp); ok && (bo.Op == token.EQL || bo.Op == token.NEQ) {
				x, y := bo.X, bo.Y
				if isNilConst(x) {
					x, y = y, x
				}
				if isNilConst(y) {
					isNil := (bo.Op == token.EQL) == onTrue // edge on which x == nil
					// no policy configured at all: nothing is forbidden
					if isPolicyTyped(x) && isNil {
						return true
					}
					// err := guardHelper(name); err == nil
					if c, ok := x.(*ssa.Call); ok && isNil {
						if g := c.Call.StaticCallee(); g != nil {
							if pi, ok := helpers[g]; ok && pi < len(c.Call.Args) && sameValue(c.Call.Args[pi], name) {
								return true
							}
						}
					}
				}
			}
			// if guardHelper(name) { … } with a bool result
			if c, ok := v.(*ssa.Call); ok {
				if g := c.Call.StaticCallee(); g != nil {
					if pi, ok := helpers[g]; ok && pi < len(c.Call.Args) && sameValue(c.Call.Args[pi], name) {
						return onTrue
					}
					// if blocked(name) { return violation }: the helper answers false only where
					// the context is not sandboxed or the policy allowed the name
					if pi, ok := s.negGuards[method][g]; ok && helpers != nil && pi < len(c.Call.Args) && sameValue(c.Call.Args[pi], name) {
						return !onTrue
					}
				}
			}
			return false
		})
	}
	fl.solve()
	return fl
}

// summariseGuards finds helper functions G(… name string …) (error | bool) such that every
// return of a nil error / of true happens in the "checked or not sandboxed" state for that
// parameter.
func (s *sandboxFacts) summariseGuards(method string) map[*ssa.Function]int {
	out := map[*ssa.Function]int{}
	for _, fn := range s.w.pkgFuncs() {
		res := fn.Signature.Results()
		if res.Len() != 1 {
			continue
		}
		isErr := types.Identical(res.At(0).Type(), types.Universe.Lookup("error").Type())
		isBool := types.Identical(res.At(0).Type().Underlying(), types.Typ[types.Bool])
		if !isErr && !isBool {
			continue
		}
		// must mention the policy method at all
		mentions := false
		instrsOf(fn, func(in ssa.Instruction) {
			if v, ok := in.(ssa.Value); ok {
				if _, ok := policyQuery(v, method); ok {
					mentions = true
				}
			}
		})
		if !mentions {
			continue
		}
		for pi, p := range fn.Params {
			if !types.Identical(p.Type().Underlying(), types.Typ[types.String]) {
				continue
			}
			fl := s.guardFlow(fn, p, method, nil)
			good, nret := true, 0
			instrsOf(fn, func(in ssa.Instruction) {
				ret, ok := in.(*ssa.Return)
				if !ok {
					return
				}
				nret++
				r := retResults(ret)[0]
				passing := true // may this return signal "go ahead"?
				if isErr {
					if mi, ok := r.(*ssa.MakeInterface); ok {
						_ = mi
						passing = false // a concrete error value is never nil
					} else if c, ok := r.(*ssa.Call); ok {
						// NewFilterViolation(...) etc.: constructors returning a made interface
						if g := c.Call.StaticCallee(); g != nil && alwaysNonNilError(g) {
							passing = false
						}
					}
				} else if isConstBool(r, false) {
					passing = false
				} else if s.boolResultGuarded(r, p, method, fl, map[ssa.Value]bool{}) {
					// `return a && b && policy.IsXAllowed(name)`: a phi of false constants and
					// the query itself: true only when the policy allowed the name
					passing = false
				}
				if passing && !fl.at(in) {
					good = false
				}
			})
			if good && nret > 0 {
				out[fn] = pi
			}
		}
	}
	return out
}

// boolResultGuarded: the bool value is true only where the policy has been consulted for name
// (or the context is not sandboxed): a false constant, the policy query for the same name, or a
// phi of such values / of values arriving over edges on which the guard fact holds.
func (s *sandboxFacts) boolResultGuarded(v ssa.Value, name ssa.Value, method string, fl *boolFlow, seen map[ssa.Value]bool) bool {
	if seen[v] {
		return true
	}
	seen[v] = true
	if isConstBool(v, false) {
		return true
	}
	if arg, ok := policyQuery(v, method); ok && sameValue(arg, name) {
		return true
	}
	if ph, ok := v.(*ssa.Phi); ok {
		for i, e := range ph.Edges {
			if s.boolResultGuarded(e, name, method, fl, seen) {
				continue
			}
			pred := ph.Block().Preds[i]
			held := fl.out(pred, fl.in[pred])
			if !held {
				for si, sc := range pred.Succs {
					if sc == ph.Block() && fl.edge(pred, si) {
						held = true
					}
				}
			}
			if !held {
				return false
			}
		}
		return true
	}
	return false
}

// alwaysNonNilError: every return of g returns a MakeInterface (a concrete, hence non-nil, error).
func alwaysNonNilError(g *ssa.Function) bool {
	if g.Blocks == nil {
		return false
	}
	ok := true
	n := 0
	instrsOf(g, func(in ssa.Instruction) {
		if ret, isRet := in.(*ssa.Return); isRet {
			n++
			if len(ret.Results) != 1 {
				ok = false
				return
			}
			if _, isMI := ret.Results[0].(*ssa.MakeInterface); !isMI {
				ok = false
			}
		}
	})
	return ok && n > 0
}

// lookupKey: if v is the element of a map lookup (plain or comma-ok), return the key value.
// lookupHelper: g is `func (…, name string, …) (V, bool)` whose every return is either
// (m[name], ok) of one comma-ok lookup keyed by its parameter, or (zero, false).  Returns the
// struct field holding the map ("Environment.filters"), and the index of the key parameter.
func lookupHelper(g *ssa.Function) (owner, field string, keyParam int, ok bool) {
	if g == nil || !isTwigFn(g) || len(g.Blocks) == 0 || g.Signature.Results().Len() != 2 {
		return "", "", 0, false
	}
	if !types.Identical(g.Signature.Results().At(1).Type().Underlying(), types.Typ[types.Bool]) {
		return "", "", 0, false
	}
	var lk *ssa.Lookup
	good, n := true, 0
	instrsOf(g, func(in ssa.Instruction) {
		ret, isRet := in.(*ssa.Return)
		if !isRet || !good {
			return
		}
		res := retResults(ret)
		if len(res) != 2 {
			good = false
			return
		}
		if isConstBool(res[1], false) {
			return
		}
		e0, ok0 := res[0].(*ssa.Extract)
		e1, ok1 := res[1].(*ssa.Extract)
		if !ok0 || !ok1 || e0.Tuple != e1.Tuple || e0.Index != 0 || e1.Index != 1 {
			good = false
			return
		}
		l, isL := e0.Tuple.(*ssa.Lookup)
		if !isL || (lk != nil && lk != l) {
			good = false
			return
		}
		lk = l
		n++
	})
	if !good || lk == nil || n == 0 {
		return "", "", 0, false
	}
	p, isP := unspill(lk.Index).(*ssa.Parameter)
	if !isP {
		return "", "", 0, false
	}
	for i, gp := range g.Params {
		if gp == p {
			keyParam = i
		}
	}
	u, isU := lk.X.(*ssa.UnOp)
	if !isU {
		return "", "", 0, false
	}
	fa, isFA := u.X.(*ssa.FieldAddr)
	if !isFA {
		return "", "", 0, false
	}
	owner, field = fieldOfAddr(fa)
	return owner, field, keyParam, true
}

func lookupKey(v ssa.Value) (ssa.Value, bool) {
	switch x := v.(type) {
	case *ssa.Extract:
		if l, ok := x.Tuple.(*ssa.Lookup); ok && x.Index == 0 {
			return l.Index, true
		}
		// fn, ok := ctx.lookupFilter(name): a lookup helper keyed by its argument
		if c, ok := x.Tuple.(*ssa.Call); ok && x.Index == 0 {
			if _, _, kp, ok := lookupHelper(c.Call.StaticCallee()); ok && kp < len(c.Call.Args) {
				return c.Call.Args[kp], true
			}
		}
	case *ssa.Lookup:
		return x.Index, true
	case *ssa.Phi:
		var key ssa.Value
		for _, e := range x.Edges {
			k, ok := lookupKey(e)
			if !ok {
				return nil, false
			}
			if key != nil && !sameValue(key, k) {
				return nil, false
			}
			key = k
		}
		return key, key != nil
	}
	return nil, false
}

func checkC06(w *World, r *Report) {
	r.Explanation = "Decides the confinement clause of C06 on every path of the current source: (R06.1) in every function reachable from a render root, every dynamic call of a FilterFunc/FunctionFunc value, and every built-in arm selected by the same name, is dominated by a sandbox guard (flag test + SecurityPolicy query for the same name value, failing side returns) ; (R06.2) every RenderContext acquired while another context is in scope inherits that context's sandboxed flag before it can reach an evaluating call; (R06.3) the flag is only ever set to true or to an inherited value outside the pool reset; (R06.5) no filter/function value is converted to interface{} in render-reachable code. R06.1 ∧ R06.2 ∧ R06.3 imply that below a sandboxed include every invocation is preceded by a policy query for exactly the invoked name, for every template, nesting and policy. Not decided: liveness (allowed constructs keep working), correctness of a user's SecurityPolicy."
	r.Explanation += " Rules added in later rounds: (R06.6) policy queries are pure; (R06.7) nested renders use derived contexts; (R06.8) every filter written becomes a node that applies it; (R06.9) a sandboxed include sets the flag on every path. (R06.10) the package's policy answers with the list's value, never key presence."
	r.Explanation += " Round 9: (R06.11) evaluation on behalf of a context stays in that context."
	r.Explanation += " Round 10: (R06.12) nested contexts keep the environment of the render; (R06.13) all questions put to the policy are formed alike."
	r.RuleText = "obligation = (rule, function, call site or store); non-trivial = needed a dominance/dataflow argument (all of them)"
	r.Trusted = []string{"go/types, go/ssa, VTA∪CHA call graph over-approximate calls", "reflect.Value.Call on user methods is outside the property's subject"}
	r.Assumptions = []string{"every dynamic call of a filter/function goes through a value of the named types FilterFunc/FunctionFunc (R06.5 checks no conversion to interface{} occurs)"}

	s := &sandboxFacts{w: w}
	s.negGuards = map[string]map[*ssa.Function]int{
		"IsFilterAllowed":   s.summariseNegGuards("IsFilterAllowed"),
		"IsFunctionAllowed": s.summariseNegGuards("IsFunctionAllowed"),
	}
	s.filterGuards = s.summariseGuards("IsFilterAllowed")
	s.funcGuards = s.summariseGuards("IsFunctionAllowed")
	reach := w.renderReachable()
	filterT := w.named("FilterFunc")
	funcT := w.named("FunctionFunc")

	// ---- R06.1
	nFilter, nFunc := 0, 0
	choke := map[*ssa.Function]bool{}
	for _, fn := range w.pkgFuncs() {
		if !reach[fn] {
			continue
		}
		type site struct {
			in     ssa.Instruction
			kind   string
			name   ssa.Value
			method string
			what   string
		}
		var sites []site
		names := map[ssa.Value]string{} // name value -> policy method
		armPos := map[ssa.Instruction]token.Pos{}
		instrsOf(fn, func(in ssa.Instruction) {
			c, ok := in.(ssa.CallInstruction)
			if !ok {
				return
			}
			cc := c.Common()
			if cc.IsInvoke() || cc.StaticCallee() != nil {
				return
			}
			var method, kind string
			switch {
			case types.Identical(cc.Value.Type(), filterT):
				method, kind = "IsFilterAllowed", "FilterFunc"
				nFilter++
			case types.Identical(cc.Value.Type(), funcT):
				method, kind = "IsFunctionAllowed", "FunctionFunc"
				nFunc++
			default:
				return
			}
			choke[fn] = true
			key, ok := lookupKey(cc.Value)
			if !ok {
				sites = append(sites, site{in, kind, nil, method, "dyncall " + kind})
				return
			}
			names[key] = method
			sites = append(sites, site{in, kind, key, method, "dyncall " + kind})
		})
		if len(sites) == 0 {
			continue
		}
		// built-in arms: `name == "const"` comparisons on a looked-up name
		for _, b := range fn.Blocks {
			v, _, ok := ifCond(b)
			if !ok {
				continue
			}
			bo, ok := v.(*ssa.BinOp)
			if !ok || bo.Op != token.EQL {
				continue
			}
			for nm, method := range names {
				var cs string
				var isC bool
				if sameValue(bo.X, nm) {
					cs, isC = constString(bo.Y)
				} else if sameValue(bo.Y, nm) {
					cs, isC = constString(bo.X)
				}
				if isC {
					sites = append(sites, site{b.Instrs[len(b.Instrs)-1], "builtin", nm, method, fmt.Sprintf("builtin arm %q", cs)})
					armPos[b.Instrs[len(b.Instrs)-1]] = bo.Pos()
				}
			}
		}
		flows := map[ssa.Value]*boolFlow{}
		for _, st := range sites {
			stPos := st.in.Pos()
			if p, ok := armPos[st.in]; ok {
				stPos = p
			}
			if st.name == nil {
				r.bad("R06.1", ssaName(fn), st.what, w.posOf(stPos), "dynamic call of a "+st.kind+" whose name cannot be identified (callee is not the element of a map lookup): no policy query can be matched to it")
				continue
			}
			fl := flows[st.name]
			if fl == nil {
				helpers := s.filterGuards
				if st.method == "IsFunctionAllowed" {
					helpers = s.funcGuards
				}
				fl = s.guardFlow(fn, st.name, st.method, helpers)
				flows[st.name] = fl
			}
			if fl.at(st.in) {
				r.ok("R06.1", ssaName(fn), st.what, w.posOf(stPos), "dominated by sandbox guard querying "+st.method+" for the same name", true)
			} else {
				r.bad("R06.1", ssaName(fn), st.what, w.posOf(stPos), "a path from the function entry reaches this site without `!ctx.sandboxed` or a successful SecurityPolicy."+st.method+"(<same name>)")
			}
		}
	}
	r.floor("dynamic FilterFunc call sites (render-reachable)", nFilter, 1)
	r.floor("dynamic FunctionFunc call sites (render-reachable)", nFunc, 1)
	r.Counts["guard helper summaries"] = len(s.filterGuards) + len(s.funcGuards)

	// ---- R06.2 / R06.3
	s.checkInheritance(r, choke)
	checkPolicyQueriesPure(w, r)
	checkPolicyAnswersFromValues(w, r)
	checkEvaluationStaysInContext(w, r)
	checkNestedContextsKeepEnvironment(w, r)
	checkPolicyQuestionsAgree(w, r, "R06.13")
	checkNoNestedTopLevelRender(w, r, reach)
	checkEveryFilterBecomesANode(w, r)
	checkSandboxedIncludeSetsFlag(w, r)

	// ---- R06.5: conversions of FilterFunc/FunctionFunc values to interfaces in render-reachable code
	n65 := 0
	for _, fn := range w.pkgFuncs() {
		if !reach[fn] {
			continue
		}
		instrsOf(fn, func(in ssa.Instruction) {
			mi, ok := in.(*ssa.MakeInterface)
			if !ok {
				return
			}
			if types.Identical(mi.X.Type(), filterT) || types.Identical(mi.X.Type(), funcT) {
				n65++
				r.bad("R06.5", ssaName(fn), "MakeInterface "+mi.X.Type().String(), w.posOf(in.Pos()), "a filter/function value is converted to an interface in render-reachable code; a later call through it would evade the choke-point rule")
			}
		})
	}
	if n65 == 0 {
		r.ok("R06.5", "(package)", "no FilterFunc/FunctionFunc → interface conversion on render paths", "-", "enumeration", false)
	}
}

// goodFlag: does v carry (at least) the sandboxed flag of another context than self?
func goodFlag(v ssa.Value, self ssa.Value, seen map[ssa.Value]bool) bool {
	if seen[v] {
		return false
	}
	seen[v] = true
	if isConstBool(v, true) {
		return true
	}
	if base, ok := isSandboxedLoad(v); ok {
		return base != self
	}
	switch x := v.(type) {
	case *ssa.BinOp:
		if x.Op == token.OR || x.Op == token.LOR {
			return goodFlag(x.X, self, seen) || goodFlag(x.Y, self, seen)
		}
	case *ssa.Phi:
		// a || b  ==> phi(true [a's true edge], b): good if every edge is good/true or comes
		// from the region where a good condition was false
		for i, e := range x.Edges {
			if isConstBool(e, true) || goodFlag(e, self, seen) {
				continue
			}
			if !underFalseOfGood(x.Block().Preds[i], self) {
				return false
			}
		}
		return true
	}
	return false
}

// underFalseOfGood: block b is (dominated by) the false successor of an If on a parent's flag.
func underFalseOfGood(b *ssa.BasicBlock, self ssa.Value) bool {
	for _, blk := range b.Parent().Blocks {
		v, trueIdx, ok := ifCond(blk)
		if !ok {
			continue
		}
		base, ok := isSandboxedLoad(v)
		if !ok || base == self {
			continue
		}
		f := blk.Succs[1-trueIdx]
		if len(f.Preds) == 1 && (f == b || f.Dominates(b)) {
			return true
		}
	}
	return false
}

func (s *sandboxFacts) checkInheritance(r *Report, choke map[*ssa.Function]bool) {
	w := s.w
	_, sp := w.ssa()
	pool := sp.Var("renderContextPool")
	if pool == nil {
		cannotDecide("anchor renderContextPool not found")
	}
	ctxT := types.NewPointer(w.named("RenderContext"))
	isCtx := func(v ssa.Value) bool { return types.Identical(v.Type(), ctxT) }

	// functions that can reach a choke point ("evaluating" callees)
	g := w.callgraph()
	evaluating := map[*ssa.Function]bool{}
	for f := range choke {
		evaluating[f] = true
	}
	for changed := true; changed; {
		changed = false
		for fn, node := range g.Nodes {
			if fn == nil || evaluating[fn] {
				continue
			}
			for _, e := range node.Out {
				if evaluating[e.Callee.Func] {
					evaluating[fn] = true
					changed = true
					break
				}
			}
		}
	}

	// acquisitions: direct pool.Get().(*RenderContext) and calls of constructors
	directAcq := func(v ssa.Value) bool {
		ta, ok := v.(*ssa.TypeAssert)
		if !ok || !isCtx(ta) {
			return false
		}
		c, ok := ta.X.(*ssa.Call)
		if !ok {
			return false
		}
		f := calleeFunc(c)
		if !isFunc(f, "sync", "Pool", "Get") {
			return false
		}
		return globalOf(c.Call.Args[0]) == pool
	}
	constructors := map[*ssa.Function]bool{}
	acqFuncs := map[*ssa.Function]bool{} // functions touching the pool directly (reset/zeroing allowed)
	for _, fn := range w.pkgFuncs() {
		instrsOf(fn, func(in ssa.Instruction) {
			if c, ok := in.(ssa.CallInstruction); ok {
				f := calleeFunc(c)
				if (isFunc(f, "sync", "Pool", "Get") || isFunc(f, "sync", "Pool", "Put")) && globalOf(c.Common().Args[0]) == pool {
					acqFuncs[fn] = true
				}
			}
			if ret, ok := in.(*ssa.Return); ok {
				for _, rv := range ret.Results {
					if directAcq(rv) {
						constructors[fn] = true
					}
				}
			}
		})
	}
	for changed := true; changed; {
		changed = false
		for _, fn := range w.pkgFuncs() {
			if constructors[fn] {
				continue
			}
			instrsOf(fn, func(in ssa.Instruction) {
				c, ok := in.(*ssa.Call)
				if !ok || constructors[fn] {
					return
				}
				if f := c.Call.StaticCallee(); f != nil && constructors[f] && isCtx(c) && flowsToReturn(c) {
					constructors[fn] = true
					changed = true
				}
			})
		}
	}
	// the pool's New function literal also initialises
	r.floor("RenderContext constructors (functions returning renderContextPool.Get())", len(constructors), 1)

	// setter summaries: methods that store `true` into the receiver's flag
	enables := func(c ssa.CallInstruction, self ssa.Value) bool {
		f := c.Common().StaticCallee()
		if f == nil || f.Signature.Recv() == nil || len(f.Blocks) != 1 || len(c.Common().Args) == 0 || c.Common().Args[0] != self {
			return false
		}
		found := false
		for _, in := range f.Blocks[0].Instrs {
			if st, ok := in.(*ssa.Store); ok {
				if base, ok := fieldAddr(st.Addr, "RenderContext", "sandboxed"); ok && base == f.Params[0] && isConstBool(st.Val, true) {
					found = true
				}
			}
		}
		return found
	}

	nSites := 0
	for _, fn := range w.pkgFuncs() {
		// does the function have another context in scope?
		var others []ssa.Value
		for _, p := range fn.Params {
			if isCtx(p) {
				others = append(others, p)
			}
		}
		for _, fv := range fn.FreeVars {
			if isCtx(fv) || types.Identical(fv.Type(), types.NewPointer(ctxT)) {
				others = append(others, fv)
			}
		}
		var acqs []ssa.Value
		instrsOf(fn, func(in ssa.Instruction) {
			v, ok := in.(ssa.Value)
			if !ok {
				return
			}
			if directAcq(v) {
				acqs = append(acqs, v)
				return
			}
			if c, ok := v.(*ssa.Call); ok {
				if f := c.Call.StaticCallee(); f != nil && constructors[f] {
					// a constructor that itself has a parent in scope (Clone) is checked on its own
					hasParent := false
					for _, p := range f.Params {
						if isCtx(p) {
							hasParent = true
						}
					}
					if !hasParent {
						acqs = append(acqs, v)
					}
				}
			}
			if ta, ok := v.(*ssa.TypeAssert); ok && isCtx(ta) && !directAcq(ta) {
				others = append(others, ta)
			}
			if ex, ok := v.(*ssa.Extract); ok && isCtx(ex) {
				others = append(others, ex)
			}
		})
		if len(acqs) == 0 || len(others) == 0 {
			continue
		}
		for _, acq := range acqs {
			nSites++
			self := acq
			fl := &boolFlow{fn: fn, entry: false}
			fl.step = func(in ssa.Instruction, st bool) bool {
				switch x := in.(type) {
				case *ssa.Store:
					if base, ok := fieldAddr(x.Addr, "RenderContext", "sandboxed"); ok && base == self {
						return goodFlag(x.Val, self, map[ssa.Value]bool{})
					}
				case ssa.CallInstruction:
					if enables(x, self) {
						return true
					}
				}
				return st
			}
			fl.edge = func(b *ssa.BasicBlock, i int) bool {
				v, trueIdx, ok := ifCond(b)
				if !ok {
					return false
				}
				if base, ok := isSandboxedLoad(v); ok && base != self {
					return i != trueIdx // the parent is not sandboxed: nothing to inherit
				}
				return false
			}
			fl.solve()
			bad := false
			var badUses []string
			nUses := 0
			// critical uses: (checkpoint, description)
			type use struct {
				ok   bool
				what string
				ref  ssa.Instruction
			}
			// path-sensitive second opinion: no feasible path from the acquisition to the use
			// avoids a good store of the flag into the acquired context (or a value it was
			// merged into); two tests of one immutable value are taken consistently
			aliases := map[ssa.Value]bool{acq: true}
			for changed := true; changed; {
				changed = false
				for a := range aliases {
					if a.Referrers() == nil {
						continue
					}
					for _, ref := range *a.Referrers() {
						if ph, ok := ref.(*ssa.Phi); ok && !aliases[ph] {
							aliases[ph] = true
							changed = true
						}
					}
				}
			}
			acqInstr, _ := acq.(ssa.Instruction)
			pathSafe := func(ref ssa.Instruction) bool {
				if acqInstr == nil || ref == nil {
					return false
				}
				found, _ := existsPathFromAvoiding(fn, acqInstr, ref, func(in ssa.Instruction) bool {
					switch x := in.(type) {
					case *ssa.Store:
						if base, ok := fieldAddr(x.Addr, "RenderContext", "sandboxed"); ok && aliases[base] {
							return goodFlag(x.Val, base, map[ssa.Value]bool{})
						}
					case ssa.CallInstruction:
						for a := range aliases {
							if enables(x, a) {
								return true
							}
						}
					}
					return false
				}, fl.edge)
				return !found
			}
			var collect func(v ssa.Value, seen map[ssa.Value]bool) []use
			collect = func(v ssa.Value, seen map[ssa.Value]bool) []use {
				var uses []use
				if seen[v] || v.Referrers() == nil {
					return nil
				}
				seen[v] = true
				for _, ref := range *v.Referrers() {
					what := ""
					switch x := ref.(type) {
					case *ssa.Phi:
						// merged with another context value: what happens after the merge is
						// decided at the end of the predecessor that carries our value
						if inner := collect(x, seen); len(inner) > 0 {
							for i, e := range x.Edges {
								if e != v {
									continue
								}
								p := x.Block().Preds[i]
								st := fl.out(p, fl.in[p])
								if !st {
									all := true
									for si, s := range p.Succs {
										if s == x.Block() && !fl.edge(p, si) {
											all = false
										}
									}
									st = all
								}
								if !st {
									all := true
									for _, iu := range inner {
										if !iu.ok && !pathSafe(iu.ref) {
											all = false
										}
									}
									st = all
								}
								uses = append(uses, use{st, inner[0].what + " (after merging with another context at " + w.posOf(x.Pos()) + ")", inner[0].ref})
							}
						}
						continue
					case *ssa.MakeInterface:
						uses = append(uses, collect(x, seen)...)
						continue
					case *ssa.Return:
						what = "returned to the caller"
					case *ssa.MakeClosure:
						what = "captured by a closure"
					case *ssa.Store:
						if x.Val != v {
							continue
						}
						if al, isAlloc := x.Addr.(*ssa.Alloc); isAlloc {
							// spilled local (captured variable): follow loads and captures
							for _, ar := range *al.Referrers() {
								if ld, ok := ar.(*ssa.UnOp); ok {
									uses = append(uses, collect(ld, seen)...)
								}
								if _, ok := ar.(*ssa.MakeClosure); ok {
									uses = append(uses, use{fl.at(ar) || pathSafe(ar), "captured by a closure at " + w.posOf(ar.Pos()), ar})
								}
							}
							continue
						}
						what = "stored into the heap"
					case ssa.CallInstruction:
						cc := x.Common()
						var callees []*ssa.Function
						if f := cc.StaticCallee(); f != nil {
							callees = []*ssa.Function{f}
						} else if n := g.Nodes[fn]; n != nil {
							for _, e := range n.Out {
								if e.Site == x {
									callees = append(callees, e.Callee.Func)
								}
							}
						}
						if len(callees) == 0 {
							what = "passed to an unresolved dynamic call"
						}
						for _, f := range callees {
							if evaluating[f] {
								if cc.StaticCallee() != nil {
									what = "passed to " + ssaName(f)
								} else if cc.IsInvoke() {
									what = "passed to " + cc.Method.Name() + " (interface call)"
								} else {
									what = "passed to a dynamic call"
								}
								break
							}
						}
					}
					if what != "" {
						uses = append(uses, use{fl.at(ref) || pathSafe(ref), what + " at " + w.posOf(ref.Pos()), ref})
					}
				}
				return uses
			}
			for _, u := range collect(acq, map[ssa.Value]bool{}) {
				nUses++
				if !u.ok {
					bad = true
					badUses = append(badUses, u.what)
				}
			}
			if bad {
				sort.Strings(badUses)
				r.bad("R06.2", ssaName(fn), "new RenderContext inherits sandboxed", w.posOf(acq.Pos()), "the context acquired here can reach an evaluating use on a path on which its sandboxed flag has not been set from the context in scope (sandbox escapes through this derived context): "+strings.Join(badUses, "; "))
			} else {
				r.ok("R06.2", ssaName(fn), "new RenderContext inherits sandboxed", w.posOf(acq.Pos()), fmt.Sprintf("flag assigned from the context in scope before each of %d evaluating uses", nUses), true)
			}
		}
	}
	r.floor("derived-context construction sites", nSites, 1)

	// R06.3
	nStores := 0
	for _, fn := range w.pkgFuncs() {
		instrsOf(fn, func(in ssa.Instruction) {
			st, ok := in.(*ssa.Store)
			if !ok {
				return
			}
			base, ok := fieldAddr(st.Addr, "RenderContext", "sandboxed")
			if !ok {
				return
			}
			nStores++
			switch {
			case goodFlag(st.Val, base, map[ssa.Value]bool{}):
				r.ok("R06.3", ssaName(fn), "store sandboxed", w.posOf(in.Pos()), "true or inherited", false)
			case isConstBool(st.Val, false) && acqFuncs[fn]:
				r.ok("R06.3", ssaName(fn), "store sandboxed", w.posOf(in.Pos()), "pool reset in an acquire/release function", false)
			default:
				r.bad("R06.3", ssaName(fn), "store sandboxed", w.posOf(in.Pos()), "the sandboxed flag is assigned something other than true / a parent's flag outside the pool reset: a sandboxed context could be un-sandboxed")
			}
		})
	}
	r.floor("stores to RenderContext.sandboxed", nStores, 2)
}

// checkPolicyQueriesPure — R06.6: asking the policy changes nothing.  Every SecurityPolicy
// implementation of the package answers IsFilterAllowed / IsFunctionAllowed / IsTagAllowed
// without writing memory that outlives the call (no store through a pointer, no map update, no
// sync.Map / atomic write, here or in the package functions it calls).  A policy object that
// remembers earlier answers ("this name was cleared before") makes what is permitted depend on
// what was asked first — a filter name that was allowed clears the function of the same name,
// and a policy that is narrowed later is not obeyed.
func checkPolicyQueriesPure(w *World, r *Report) {
	iface, ok := w.named("SecurityPolicy").Underlying().(*types.Interface)
	if !ok {
		cannotDecide("anchor SecurityPolicy is not an interface")
	}
	query := map[string]bool{}
	for i := 0; i < iface.NumMethods(); i++ {
		query[iface.Method(i).Name()] = true
	}
	n := 0
	for _, fn := range w.pkgFuncs() {
		recv := fn.Signature.Recv()
		if recv == nil || fn.Synthetic != "" || !query[fn.Name()] {
			continue
		}
		rt := deref(recv.Type())
		if _, isI := rt.Underlying().(*types.Interface); isI {
			continue
		}
		if !types.Implements(rt, iface) && !types.Implements(types.NewPointer(rt), iface) {
			continue
		}
		n++
		construct := "policy query has no side effect"
		why := ""
		seen := map[*ssa.Function]bool{}
		var scan func(g *ssa.Function, d int)
		scan = func(g *ssa.Function, d int) {
			if g == nil || seen[g] || d > 4 || why != "" || len(g.Blocks) == 0 {
				return
			}
			seen[g] = true
			instrsOf(g, func(in ssa.Instruction) {
				if why != "" {
					return
				}
				switch x := in.(type) {
				case *ssa.Store:
					root := x.Addr
					for k := 0; k < 8; k++ {
						switch a := root.(type) {
						case *ssa.FieldAddr:
							root = a.X
							continue
						case *ssa.IndexAddr:
							root = a.X
							continue
						}
						break
					}
					if _, isLocal := root.(*ssa.Alloc); !isLocal {
						why = "a store to memory that outlives the call (" + w.posOf(x.Pos()) + ")"
					}
				case *ssa.MapUpdate:
					if _, isLocal := x.Map.(*ssa.MakeMap); !isLocal {
						why = "a map update (" + w.posOf(x.Pos()) + ")"
					}
				case ssa.CallInstruction:
					f := calleeFunc(x)
					if f != nil && f.Pkg() != nil {
						full := f.FullName()
						if f.Pkg().Path() == "sync/atomic" && !strings.Contains(f.Name(), "Load") {
							why = "an atomic write " + full + " (" + w.posOf(in.Pos()) + ")"
							return
						}
						switch full {
						case "(*sync.Map).Store", "(*sync.Map).LoadOrStore", "(*sync.Map).Swap", "(*sync.Map).Delete", "(*sync.Map).LoadAndDelete", "(*sync.Map).CompareAndSwap", "(*sync.Map).Range":
							if full != "(*sync.Map).Range" {
								why = "a write to a sync.Map, " + full + " (" + w.posOf(in.Pos()) + ")"
								return
							}
						}
					}
					if h := x.Common().StaticCallee(); h != nil && isTwigFn(h) {
						scan(h, d+1)
					}
					// function literals passed along
					for _, a := range x.Common().Args {
						if mc, ok := a.(*ssa.MakeClosure); ok {
							if h, ok := mc.Fn.(*ssa.Function); ok {
								scan(h, d+1)
							}
						}
					}
				}
			})
		}
		scan(fn, 0)
		if why == "" {
			r.ok("R06.6", ssaName(fn), construct, w.posOf(fn.Pos()), "no write to non-local memory in the method or the package functions it calls", true)
		} else {
			r.bad("R06.6", ssaName(fn), construct, w.posOf(fn.Pos()), "answering the query performs "+why+": the policy object carries state from one query to the next, so whether a filter or function is permitted can depend on what was asked before (a name cleared as a filter clears the function of that name; a policy narrowed later is not obeyed)")
		}
	}
	r.floor("policy query methods of the package's SecurityPolicy implementations", n, 2)
}

// checkNoNestedTopLevelRender — R06.7: below a render, templates are rendered in a context derived
// from the current one.  A render-reachable function that has a *RenderContext in scope never
// calls the top-level entry points (Template.Render/RenderTo, Engine.Render/RenderTo): those start
// from a brand-new context, which is not sandboxed and has no link to the including scope, so a
// template reached that way escapes the sandbox of the render that asked for it.
func checkNoNestedTopLevelRender(w *World, r *Report, reach map[*ssa.Function]bool) {
	top := map[*types.Func]bool{}
	for _, pair := range [][2]string{{"Template", "Render"}, {"Template", "RenderTo"}, {"Engine", "Render"}, {"Engine", "RenderTo"}} {
		if m := w.tryMethod(pair[0], pair[1]); m != nil {
			top[m] = true
		}
	}
	ctxT := types.NewPointer(w.named("RenderContext"))
	n, bad := 0, 0
	// "inside a render": reachable from a node's Render or from the evaluator (the top-level entry
	// points and their debug wrapper start renders, they are not inside one)
	var inner []*ssa.Function
	for _, nd := range w.nodeStructs() {
		if m := w.tryMethod(nd.Obj().Name(), "Render"); m != nil {
			inner = append(inner, w.ssaFunc(m))
		}
	}
	inner = append(inner, w.ssaFunc(w.method("RenderContext", "EvaluateExpression")))
	reach = w.reachableFrom(inner)
	for _, fn := range w.pkgFuncs() {
		if !reach[fn] {
			continue
		}
		hasCtx := false
		for _, p := range fn.Params {
			if types.Identical(p.Type(), ctxT) {
				hasCtx = true
			}
		}
		for _, fv := range fn.FreeVars {
			if types.Identical(fv.Type(), ctxT) || types.Identical(fv.Type(), types.NewPointer(ctxT)) {
				hasCtx = true
			}
		}
		if !hasCtx {
			continue
		}
		n++
		instrsOf(fn, func(in ssa.Instruction) {
			c, ok := in.(ssa.CallInstruction)
			if !ok {
				return
			}
			if f := calleeFunc(c); f != nil && top[f] {
				bad++
				r.bad("R06.7", ssaName(fn), "nested rendering derives its context from the current one", w.posOf(in.Pos()), "a function that runs inside a render (it has a render context in scope) calls the top-level entry point "+f.FullName()+": the template is rendered in a brand-new context — not sandboxed, whatever the current context is — so filters and functions the policy forbids run below a sandboxed include")
			}
		})
	}
	if bad == 0 {
		r.ok("R06.7", "(package)", "nested rendering derives its context from the current one", "-", fmt.Sprintf("none of the %d render-reachable functions with a render context in scope calls Template.Render/RenderTo or Engine.Render/RenderTo", n), true)
	}
}

// checkEveryFilterBecomesANode — R06.8: a filter written in a template is applied when the
// template renders — through ApplyFilter, where the sandbox is consulted.  In the parser function
// that builds FilterNodes, every pass of the loop that consumes `| name` either leaves the
// function or builds the node; a pass that resolves the filter on the spot (constant folding of
// upper/lower/trim on a literal) applies a filter the policy was never asked about.
func checkEveryFilterBecomesANode(w *World, r *Report) {
	filterNodeT := w.named("FilterNode")
	parseReach := w.parseReachable()
	n := 0
	for _, fn := range w.pkgFuncs() {
		if !parseReach[fn] {
			continue
		}
		var allocBlocks = map[*ssa.BasicBlock]bool{}
		var first ssa.Instruction
		instrsOf(fn, func(in ssa.Instruction) {
			switch x := in.(type) {
			case *ssa.Alloc:
				if types.Identical(deref(x.Type()), filterNodeT) {
					allocBlocks[in.Block()] = true
					if first == nil {
						first = in
					}
				}
			case *ssa.Call:
				if g := x.Call.StaticCallee(); g != nil && w.inPkg(g) && g.Signature.Results().Len() >= 1 && types.Identical(deref(g.Signature.Results().At(0).Type()), filterNodeT) {
					allocBlocks[in.Block()] = true
					if first == nil {
						first = in
					}
				}
			}
		})
		if first == nil {
			continue
		}
		// the loop around the construction: blocks on a cycle with it
		ab := first.Block()
		reachFrom := func(start *ssa.BasicBlock, avoid map[*ssa.BasicBlock]bool) map[*ssa.BasicBlock]bool {
			seen := map[*ssa.BasicBlock]bool{}
			var dfs func(b *ssa.BasicBlock)
			dfs = func(b *ssa.BasicBlock) {
				for _, s := range b.Succs {
					if !seen[s] && !avoid[s] {
						seen[s] = true
						dfs(s)
					}
				}
			}
			dfs(start)
			return seen
		}
		fwd := reachFrom(ab, nil)
		if !fwd[ab] {
			continue // not in a loop: a single filter is parsed here
		}
		// header: the block of the cycle that dominates the construction and every block of the cycle
		var header *ssa.BasicBlock
		for b := ab; b != nil; b = b.Idom() {
			if fwd[b] && reachFrom(b, nil)[ab] {
				header = b
			}
		}
		if header == nil {
			continue
		}
		n++
		after := reachFrom(header, allocBlocks)
		construct := "every `| filter` parsed becomes a FilterNode"
		if after[header] {
			r.bad("R06.8", ssaName(fn), construct, w.posOf(first.Pos()), "the loop that consumes filters can go round without building a FilterNode for the filter it just read: that filter is dropped or resolved while parsing, so it is never applied through ApplyFilter at render time — where a sandbox policy that forbids it would have been consulted")
		} else {
			r.ok("R06.8", ssaName(fn), construct, w.posOf(first.Pos()), "each pass of the loop builds the node or leaves the function", true)
		}
	}
	r.floor("filter-parsing loops", n, 1)
}

// checkSandboxedIncludeSetsFlag — R06.9: `include … sandboxed` always turns the sandbox on.  In
// IncludeNode.Render (and the helpers it is split into) every nested Render of the included
// template is reached only on paths on which either the node's sandboxed flag was found false or
// `true` was stored into the sandboxed flag of a render context.  An arm ordering that handles
// `only` first and never looks at `sandboxed` renders `include … only sandboxed` unconfined.
func checkSandboxedIncludeSetsFlag(w *World, r *Report) {
	inc := w.ssaFunc(w.method("IncludeNode", "Render"))
	isFlagTrueStore := func(in ssa.Instruction) bool {
		st, ok := in.(*ssa.Store)
		if !ok {
			return false
		}
		if _, ok := fieldAddr(st.Addr, "RenderContext", "sandboxed"); !ok {
			return false
		}
		if isConstBool(st.Val, true) {
			return true
		}
		// ctx.sandboxed || n.sandboxed : true whenever the node's flag is
		var facts []condFact
		expandCond(st.Val, false, &facts, 0)
		for _, cf := range facts {
			if _, ok := fieldLoad(origin(cf.v), "IncludeNode", "sandboxed"); ok && !cf.truth {
				return true
			}
		}
		if bo, ok := st.Val.(*ssa.BinOp); ok && (bo.Op == token.OR || bo.Op == token.LOR) {
			for _, o := range []ssa.Value{bo.X, bo.Y} {
				if _, ok := fieldLoad(origin(o), "IncludeNode", "sandboxed"); ok {
					return true
				}
			}
		}
		// the flag itself copied
		if _, ok := fieldLoad(origin(st.Val), "IncludeNode", "sandboxed"); ok {
			return true
		}
		return false
	}
	flagFalseEdge := func(b *ssa.BasicBlock, i int) bool {
		for _, cf := range edgeFacts(b, i) {
			if condImplies(cf.v, cf.truth, func(v ssa.Value, truth bool, resolve func(ssa.Value) ssa.Value) bool {
				if truth {
					return false
				}
				_, ok := fieldLoad(origin(resolve(v)), "IncludeNode", "sandboxed")
				return ok
			}) {
				return true
			}
		}
		return false
	}
	n := 0
	instrsOf(inc, func(in ssa.Instruction) {
		c, ok := in.(ssa.CallInstruction)
		if !ok {
			return
		}
		if !c.Common().IsInvoke() || c.Common().Method.Name() != "Render" {
			// … or a helper of the package that renders what it is handed (the template, its nodes)
			g := c.Common().StaticCallee()
			if g == nil || !isTwigFn(g) || len(g.Blocks) == 0 {
				return
			}
			renders := false
			for i, p := range g.Params {
				if i < len(c.Common().Args) && rendersParam(g, p) {
					renders = true
				}
			}
			if !renders {
				return
			}
		}
		if _, isDefer := in.(*ssa.Defer); isDefer {
			return
		}
		n++
		construct := "a sandboxed include renders in a sandboxed context"
		if found, path := existsPathAvoiding(inc, in, isFlagTrueStore, flagFalseEdge); found {
			r.bad("R06.9", ssaName(inc), construct, w.posOf(in.Pos()), "the included template can be rendered on a path on which the node's `sandboxed` flag was never found false and no context was put into sandbox mode (path "+strings.Join(path, " → ")+"): for that combination of tag options `include … sandboxed` runs unconfined")
		} else {
			r.ok("R06.9", ssaName(inc), construct, w.posOf(in.Pos()), "every path tests n.sandboxed (false) or stores true into the context's flag", true)
		}
	})
	r.floor("nested renders in IncludeNode.Render", n, 1)
}

// checkPolicyAnswersFromValues — R06.10: the package's own policy answers "allowed" only with the
// boolean its list holds for the name.  In every query method of a SecurityPolicy implementation
// of the package (and the helpers it returns the result of) the returned bool never derives from
// the PRESENCE of a key (the comma-ok result of a lookup, a length) and is never the constant
// true: a name entered with the value false — switched off explicitly — must stay forbidden.
func checkPolicyAnswersFromValues(w *World, r *Report) {
	iface, ok := w.named("SecurityPolicy").Underlying().(*types.Interface)
	if !ok {
		return
	}
	query := map[string]bool{}
	for i := 0; i < iface.NumMethods(); i++ {
		if sig, ok := iface.Method(i).Type().(*types.Signature); ok && sig.Results().Len() == 1 {
			if b, ok := sig.Results().At(0).Type().Underlying().(*types.Basic); ok && b.Kind() == types.Bool {
				query[iface.Method(i).Name()] = true
			}
		}
	}
	n := 0
	for _, fn := range w.pkgFuncs() {
		recv := fn.Signature.Recv()
		if recv == nil || fn.Synthetic != "" || !query[fn.Name()] {
			continue
		}
		rt := deref(recv.Type())
		if _, isI := rt.Underlying().(*types.Interface); isI {
			continue
		}
		if !types.Implements(rt, iface) && !types.Implements(types.NewPointer(rt), iface) {
			continue
		}
		n++
		var why string
		var where ssa.Instruction
		seenF := map[*ssa.Function]bool{}
		var scanFn func(g *ssa.Function, d int)
		var trace func(v ssa.Value, g *ssa.Function, seen map[ssa.Value]bool, d int)
		trace = func(v ssa.Value, g *ssa.Function, seen map[ssa.Value]bool, d int) {
			v = unspill(v)
			if seen[v] || why != "" || d > 12 {
				return
			}
			seen[v] = true
			switch x := v.(type) {
			case *ssa.Const:
				if isConstBool(x, true) {
					why = "the constant true"
				}
			case *ssa.Phi:
				for _, e := range x.Edges {
					trace(e, g, seen, d+1)
				}
			case *ssa.UnOp:
				if x.Op == token.NOT {
					trace(x.X, g, seen, d+1)
				}
			case *ssa.BinOp:
				// len(list) > 0, name == "*" and the like: not the list's answer for this name
				if _, isB := x.X.Type().Underlying().(*types.Basic); isB && x.Op != token.LAND && x.Op != token.LOR {
					for _, o := range []ssa.Value{x.X, x.Y} {
						if c, ok := o.(*ssa.Call); ok {
							if b, ok := c.Call.Value.(*ssa.Builtin); ok && b.Name() == "len" {
								why = "a length test"
								where, _ = v.(ssa.Instruction)
							}
						}
					}
				}
			case *ssa.Extract:
				if lk, ok := x.Tuple.(*ssa.Lookup); ok && lk.CommaOk && x.Index == 1 {
					why = "the presence of a key (comma-ok result of a lookup)"
					where = lk
					return
				}
				if c, ok := x.Tuple.(*ssa.Call); ok {
					trace(c, g, seen, d+1)
				}
			case *ssa.Call:
				if h := x.Call.StaticCallee(); h != nil && isTwigFn(h) {
					scanFn(h, d+1)
				}
			}
		}
		scanFn = func(g *ssa.Function, d int) {
			if g == nil || seenF[g] || len(g.Blocks) == 0 || d > 6 {
				return
			}
			seenF[g] = true
			instrsOf(g, func(in ssa.Instruction) {
				if ret, ok := in.(*ssa.Return); ok && why == "" {
					for _, res := range ret.Results {
						if b, ok := res.Type().Underlying().(*types.Basic); ok && b.Kind() == types.Bool {
							trace(res, g, map[ssa.Value]bool{}, d)
							if why != "" && where == nil {
								where = in
							}
						}
					}
				}
			})
		}
		scanFn(fn, 0)
		construct := "the answer is the value the list holds for the name"
		if why == "" {
			r.ok("R06.10", ssaName(fn), construct, w.posOf(fn.Pos()), "no returned value derives from key presence, a length or the constant true", true)
		} else {
			pos := w.posOf(fn.Pos())
			if where != nil {
				pos = w.posOf(where.Pos())
			}
			r.bad("R06.10", ssaName(fn), construct, pos, "the policy can answer \"allowed\" from "+why+": a name that is on the list with the value false — forbidden explicitly — is reported as allowed, and a sandboxed template may use it")
		}
	}
	r.floor("bool query methods of the package's policy implementations", n, 2)
}

// summariseNegGuards finds bool helpers B(… name string …) ("is this name blocked?") whose
// every result that can be false is produced where the context is not sandboxed or the policy
// allowed the name: a false constant returned in that state, or the negation of the policy query
// for the same name (possibly as an operand of ||).
func (s *sandboxFacts) summariseNegGuards(method string) map[*ssa.Function]int {
	out := map[*ssa.Function]int{}
	for _, fn := range s.w.pkgFuncs() {
		res := fn.Signature.Results()
		if res.Len() != 1 || !types.Identical(res.At(0).Type().Underlying(), types.Typ[types.Bool]) {
			continue
		}
		mentions := false
		instrsOf(fn, func(in ssa.Instruction) {
			if v, ok := in.(ssa.Value); ok {
				if _, ok := policyQuery(v, method); ok {
					mentions = true
				}
			}
		})
		if !mentions {
			continue
		}
		for pi, p := range fn.Params {
			if !types.Identical(p.Type().Underlying(), types.Typ[types.String]) {
				continue
			}
			fl := s.guardFlow(fn, p, method, nil)
			var falseOnlyGuarded func(v ssa.Value, at *ssa.BasicBlock, seen map[ssa.Value]bool) bool
			falseOnlyGuarded = func(v ssa.Value, at *ssa.BasicBlock, seen map[ssa.Value]bool) bool {
				if seen[v] {
					return true
				}
				seen[v] = true
				if isConstBool(v, true) {
					return true
				}
				if u, ok := v.(*ssa.UnOp); ok && u.Op == token.NOT {
					if arg, ok := policyQuery(u.X, method); ok && sameValue(arg, p) {
						return true // false iff the policy allowed the name
					}
				}
				if ph, ok := v.(*ssa.Phi); ok {
					for i, e := range ph.Edges {
						if falseOnlyGuarded(e, ph.Block().Preds[i], seen) {
							continue
						}
						pred := ph.Block().Preds[i]
						if !fl.out(pred, fl.in[pred]) {
							return false
						}
					}
					return true
				}
				return false
			}
			good, nret := true, 0
			instrsOf(fn, func(in ssa.Instruction) {
				ret, ok := in.(*ssa.Return)
				if !ok {
					return
				}
				nret++
				rv := retResults(ret)[0]
				if falseOnlyGuarded(rv, ret.Block(), map[ssa.Value]bool{}) {
					return
				}
				if !fl.at(in) {
					good = false
				}
			})
			if good && nret > 0 {
				out[fn] = pi
			}
		}
	}
	return out
}

// checkEvaluationStaysInContext — R06.11: what a template does is done in the context it runs in.
// No evaluating call — a Node's Render, EvaluateExpression, ApplyFilter, CallFunction, a macro
// call, or the call of a function value — is handed a render context that was reached by walking
// .parent links: the sandbox flag lives on the context, and an ancestor of a sandboxed include's
// context is by construction not sandboxed, so whatever runs "in the nearest enclosing context
// that …" runs outside the sandbox.  (Reading variables and macros up the chain is not evaluation.)
func checkEvaluationStaysInContext(w *World, r *Report) {
	viaParent := func(v ssa.Value) bool {
		seen := map[ssa.Value]bool{}
		var walk func(v ssa.Value, d int) bool
		walk = func(v ssa.Value, d int) bool {
			v = unspill(v)
			if seen[v] || d > 8 {
				return false
			}
			seen[v] = true
			if _, ok := fieldLoad(v, "RenderContext", "parent"); ok {
				return true
			}
			if ph, ok := v.(*ssa.Phi); ok {
				for _, e := range ph.Edges {
					if walk(e, d+1) {
						return true
					}
				}
			}
			return false
		}
		return walk(v, 0)
	}
	evaluating := map[string]bool{"EvaluateExpression": true, "ApplyFilter": true, "CallFunction": true, "CallMacro": true, "Render": true, "RenderTo": true, "ApplyFilterChain": true}
	n := 0
	for _, fn := range w.pkgFuncs() {
		instrsOf(fn, func(in ssa.Instruction) {
			c, ok := in.(ssa.CallInstruction)
			if !ok {
				return
			}
			cc := c.Common()
			isEval := false
			switch {
			case cc.IsInvoke():
				isEval = cc.Method.Name() == "Render"
			case cc.StaticCallee() == nil:
				isEval = true // a function value (a filter, a function, parent())
			default:
				g := cc.StaticCallee()
				isEval = isTwigFn(g) && evaluating[g.Name()]
			}
			if !isEval {
				return
			}
			args := cc.Args
			if cc.IsInvoke() {
				args = append([]ssa.Value{}, cc.Args...)
			}
			for _, a := range args {
				if !isNamed(a.Type(), twigPath, "RenderContext") {
					continue
				}
				n++
				if viaParent(a) {
					r.bad("R06.11", ssaName(fn), "evaluation in an ancestor context", w.posOf(in.Pos()), "the call is handed a render context obtained by following .parent links: an enclosing context of a sandboxed include is not sandboxed, so the filters and functions run there are not checked against the policy")
				}
			}
		})
	}
	r.ok("R06.11", "(package)", "evaluating calls receive the context at hand", "-", fmt.Sprintf("%d context arguments of evaluating calls examined, none reached through .parent", n), true)
	r.floor("context arguments of evaluating calls", n, 20)
}

// checkNestedContextsKeepEnvironment — R06.12: a context made during a render belongs to the
// environment of the render.  In every function that is handed a *RenderContext, each call that
// passes an *Environment (NewRenderContext and its wrappers) passes the env field of a render
// context — never the environment a template, a node or another engine carries.  The security
// policy, the sandbox switch and the filter tables live in the environment: a layout or partial
// that "brings its own" is judged by the policy of the engine that built it, not by the one the
// sandboxed include runs under.
func checkNestedContextsKeepEnvironment(w *World, r *Report) {
	envT := w.named("Environment")
	isEnvPtr := func(t types.Type) bool {
		p, ok := t.(*types.Pointer)
		return ok && types.Identical(p.Elem(), envT)
	}
	n := 0
	reach := w.renderOnlyReachable()
	for _, fn := range w.pkgFuncs() {
		if !reach[fn] {
			continue
		}
		hasCtx := false
		for _, p := range fn.Params {
			if isNamed(p.Type(), twigPath, "RenderContext") {
				hasCtx = true
			}
		}
		if !hasCtx {
			continue
		}
		instrsOf(fn, func(in ssa.Instruction) {
			c, ok := in.(ssa.CallInstruction)
			if !ok {
				return
			}
			g := c.Common().StaticCallee()
			if g == nil || !isTwigFn(g) {
				return
			}
			args := c.Common().Args
			for i, a := range args {
				if !isEnvPtr(a.Type()) {
					continue
				}
				if g.Signature.Recv() != nil && i == 0 {
					continue // a method of Environment called on some environment: not a hand-over
				}
				n++
				construct := fmt.Sprintf("environment passed to %s", g.Name())
				bad := ""
				seen := map[ssa.Value]bool{}
				var walk func(v ssa.Value, d int)
				walk = func(v ssa.Value, d int) {
					v = unspill(v)
					if seen[v] || d > 8 || bad != "" {
						return
					}
					seen[v] = true
					switch x := v.(type) {
					case *ssa.Const:
						return
					case *ssa.Phi:
						for _, e := range x.Edges {
							walk(e, d+1)
						}
						return
					case *ssa.UnOp:
						if fa, ok := x.X.(*ssa.FieldAddr); ok && x.Op == token.MUL {
							if t, f := fieldOfAddr(fa); t == "RenderContext" && f == "env" {
								return
							}
							t, f := fieldOfAddr(fa)
							bad = t + "." + f
							return
						}
					case *ssa.Parameter:
						return // the caller's choice: examined at the caller
					}
					bad = describe(v)
				}
				walk(a, 0)
				if bad == "" {
					r.ok("R06.12", ssaName(fn), construct, w.posOf(in.Pos()), "the env field of a render context (or a parameter) on every edge", true)
				} else {
					r.bad("R06.12", ssaName(fn), construct, w.posOf(in.Pos()), "the nested context is given "+bad+" as its environment instead of the environment of the running render: the security policy and sandbox setting that apply to the nested template are those of whoever built it, so a filter or function the current policy forbids can run under a sandboxed include")
				}
			}
		})
	}
	r.floor("environments handed to nested contexts", n, 1)
}

// checkPolicyQuestionsAgree — R06.13: every place that asks the security policy about a filter
// (a function) asks about the same thing.  The package consults the policy twice for one use —
// when the expression is evaluated and again where the filter is applied — and the two answers
// must be about the same name: at all call sites of one policy method the argument is formed the
// same way (the name as written, or the same helper applied to it).  A site that translates the
// name (alias → canonical) while its sibling does not makes one spelling of a filter pass the
// first gate and fail the second, or the reverse: `e` and `escape` stop behaving alike, and a
// name the policy forbids in one spelling runs in the other.
func checkPolicyQuestionsAgree(w *World, r *Report, rule string) {
	type site struct {
		fn    *ssa.Function
		in    ssa.Instruction
		shape string
	}
	sites := map[string][]site{}
	for _, fn := range w.pkgFuncs() {
		instrsOf(fn, func(in ssa.Instruction) {
			c, ok := in.(ssa.CallInstruction)
			if !ok || !c.Common().IsInvoke() || !isNamed(c.Common().Value.Type(), twigPath, "SecurityPolicy") || len(c.Common().Args) != 1 {
				return
			}
			m := c.Common().Method.Name()
			// how the argument is formed
			var shape func(v ssa.Value, d int) string
			shape = func(v ssa.Value, d int) string {
				v = unspill(v)
				if d > 6 {
					return "?"
				}
				switch x := v.(type) {
				case *ssa.Call:
					if g := x.Call.StaticCallee(); g != nil {
						inner := ""
						for _, a := range x.Call.Args {
							if b, ok := a.Type().Underlying().(*types.Basic); ok && b.Info()&types.IsString != 0 {
								inner = shape(a, d+1)
							}
						}
						return g.Name() + "(" + inner + ")"
					}
					return "call"
				case *ssa.Phi:
					var parts []string
					for _, e := range x.Edges {
						parts = append(parts, shape(e, d+1))
					}
					sort.Strings(parts)
					return "phi[" + strings.Join(parts, ",") + "]"
				case *ssa.BinOp:
					return "concat"
				case *ssa.Slice:
					return "slice"
				}
				return "name"
			}
			sites[m] = append(sites[m], site{fn, in, shape(c.Common().Args[0], 0)})
		})
	}
	n := 0
	var methods []string
	for m := range sites {
		methods = append(methods, m)
	}
	sort.Strings(methods)
	for _, m := range methods {
		ss := sites[m]
		count := map[string]int{}
		for _, s := range ss {
			count[s.shape]++
		}
		// the reference: the most common shape ("name" wins ties)
		ref := "name"
		for sh, c := range count {
			if c > count[ref] {
				ref = sh
			}
		}
		for _, s := range ss {
			n++
			construct := "argument of " + m + " formed like at the sibling sites"
			if s.shape == ref {
				r.ok(rule, ssaName(s.fn), construct, w.posOf(s.in.Pos()), "asked about: "+s.shape, len(ss) > 1)
			} else {
				r.bad(rule, ssaName(s.fn), construct, w.posOf(s.in.Pos()), fmt.Sprintf("this site asks the policy about %s while %d other site(s) ask about %s: the two gates of one filter use disagree for every name the translation changes, so spellings of one filter (e / escape) are treated differently under a sandbox", s.shape, count[ref], ref))
			}
		}
	}
	r.floor("questions put to the security policy", n, 1)
}
