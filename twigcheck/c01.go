package main

// C01 — rendering is repeatable and independent of history.
//
// R01.1 render never releases parse-time structure: no call path from a render root (not
//       entering the parser) reaches a Put into a pool whose elements are parse-tree objects.
// R01.2 render never writes a field of a parse-tree object or of a Template.
// R01.3 pooled objects are fully re-initialised: every field of a pooled struct that is read
//       anywhere is definitely assigned on every path of every acquiring constructor, or
//       definitely zeroed before every Put.
// R01.4 pool typestate in the parser: the token slice borrowed from a pooled tokenizer is not
//       used after the tokenizer has been released, and is not put into a second pool.

import (
	"fmt"
	"go/token"
	"go/types"
	"sort"
	"strings"

	"golang.org/x/tools/go/ssa"
)

func init() { register("C01", checkC01) }

func checkC01(w *World, r *Report) {
	r.Explanation = "Decides the ownership clauses of C01 for every history: (R01.1) no call path from a render root that does not enter the parser reaches a sync.Pool.Put into a pool of parse-tree objects, and (R01.2) no such function stores into a field of a Node implementation or of Template — so a render can never consume, alter or recycle the cached template it used; (R01.3) every field of every pooled struct that is read anywhere is definitely (re)assigned on all paths of every acquiring function or definitely zeroed before every Put, so a recycled object is indistinguishable from a fresh one whatever the previous owner left in it; (R01.4) in Parser.Parse the token slice borrowed from the pooled tokenizer is never used after the tokenizer's release and never handed to a second pool. (R01.5) no use of an object after it was released to a pool, through helpers and parameters; (R01.6) package-level tables written outside init store only functions of their key; (R01.7) no string/slice header over live buffer memory. Not decided: byte equality of output with a pristine process (no oracle is run); garbage-collector interaction. (R01.8) a package-level map or slice is never stored into a field or returned, so no two engines/policies alias one process-wide container."
	r.Explanation += " Rules added in later rounds: (R01.9) no parse-tree object reachable from a registered Template is released; (R01.3, library buffers) a pooled bytes.Buffer/strings.Builder is reset before first use at every Get, or reset and untouched on every path to every Put. (R01.10) no process-wide scalar written on parse/render paths reaches a result or decides a return. (R01.5) nothing a function returns aliases what its deferred release puts back into a pool."
	r.Explanation += " Round 9: (R01.2) sync/atomic writes into tree fields count as writes; (R01.11) the identity fields of a *Template parameter are written only while the template is built."
	r.Explanation += " Round 10: (R01.12) containers of a pool that become template values are never recycled."
	r.Explanation += " Round 11: (R01.2) pointer-receiver calls on the address of a tree field are writes."
	r.Explanation += " Round 12: (R01.13) loaders are not picked by remembered positions."
	r.RuleText = "obligation = (pool, Put site) for R01.1, (function, store) for R01.2, (pool, field) for R01.3, (function, borrowed value) for R01.4; non-trivial = needed call-graph reachability or a must-assign dataflow"
	r.Trusted = []string{"call graph over-approximates calls (sound for 'never reaches')", "unsafe container-of in ReleaseTokenizer is summarised as 'releases its argument'"}
	r.Assumptions = []string{"user callbacks do not call the package's exported Release*/pool functions on engine-owned objects"}

	pools := w.pools()
	r.floor("sync.Pool variables/fields found", len(pools), 20)
	// ---- R01.10: a process-wide counter or flag that parse/render paths write never decides a
	// result (the value is a fact about the process's history, not about this render)
	{
		var roots10 []*ssa.Function
		for _, m := range []string{"Render", "RenderTo", "Load", "ParseTemplate", "RegisterString"} {
			roots10 = append(roots10, w.ssaFunc(w.method("Engine", m)))
		}
		reach10 := w.reachableFrom(roots10)
		checkPooledContainersNotData(w, r, "R01.12")
		checkLoadersAskedInOrder(w, r, "R01.13")
		checkSharedCounters(w, r, "R01.10", w.pkgFuncs(), reach10, func(owner string, root ssa.Value) bool {
			g, isG := root.(*ssa.Global)
			return isG && !isSyncPool(deref(g.Type()))
		}, roots10)
	}
	ro := w.renderOnlyReachable()
	roots := w.renderRoots()
	cut := map[*ssa.Function]bool{w.ssaFunc(w.method("Parser", "Parse")): true}

	// ---- R01.1
	nNodePools, nPuts := 0, 0
	for _, p := range pools {
		if !w.holdsNodes(p) {
			continue
		}
		nNodePools++
		for _, s := range p.puts {
			nPuts++
			construct := "Put into " + p.name
			if ro[s.fn] {
				path := w.pathToCut(roots, s.fn, cut)
				r.bad("R01.1", ssaName(s.fn), construct, w.posOf(s.call.Pos()), "a render can reach this release of a parse-tree object (the cached template is recycled while still registered): "+strings.Join(path, " → "))
			} else {
				r.ok("R01.1", ssaName(s.fn), construct, w.posOf(s.call.Pos()), "not reachable from any render root without entering the parser", true)
			}
		}
	}
	r.floor("pools of parse-tree objects", nNodePools, 20)
	r.floor("Put sites into parse-tree pools", nPuts, 20)

	// ---- R01.2
	treeType := func(t types.Type) (string, bool) {
		t = deref(t)
		n, ok := t.(*types.Named)
		if !ok || n.Obj().Pkg() == nil || n.Obj().Pkg().Path() != twigPath {
			return "", false
		}
		if _, ok := n.Underlying().(*types.Struct); !ok {
			return "", false
		}
		if n.Obj().Name() == "Template" || w.implementsNode(types.NewPointer(n)) {
			return n.Obj().Name(), true
		}
		return "", false
	}
	nStores := 0
	for _, fn := range w.pkgFuncs() {
		if !ro[fn] {
			continue
		}
		instrsOf(fn, func(in ssa.Instruction) {
			var addr ssa.Value
			kind := ""
			switch x := in.(type) {
			case *ssa.Store:
				addr, kind = x.Addr, "store"
			case *ssa.MapUpdate:
				// map loaded from a tree field
				if u, ok := x.Map.(*ssa.UnOp); ok && u.Op == token.MUL {
					addr, kind = u.X, "map update"
				}
			case *ssa.Call:
				// sync/atomic writes through the address of a field
				if f := calleeFunc(x); f != nil && f.Pkg() != nil && f.Pkg().Path() == "sync/atomic" && len(x.Call.Args) > 0 {
					nm := f.Name()
					if strings.HasPrefix(nm, "Store") || strings.HasPrefix(nm, "Add") || strings.HasPrefix(nm, "Swap") || strings.HasPrefix(nm, "CompareAndSwap") || strings.HasPrefix(nm, "Or") || strings.HasPrefix(nm, "And") || nm == "Store" || nm == "Add" || nm == "Swap" || nm == "CompareAndSwap" {
						addr, kind = x.Call.Args[0], "atomic write"
					}
				}
				// a pointer-receiver method of a foreign type called on the address of a field
				// (n.buf.Reset(), n.buf.Write…, n.once.Do): the field's memory is the method's
				// to write — except for the methods that only read
				if addr == nil && len(x.Call.Args) > 0 && !x.Call.IsInvoke() {
					if f := calleeFunc(x); f != nil && f.Pkg() != nil && f.Pkg().Path() != twigPath {
						if sig, ok := f.Type().(*types.Signature); ok && sig.Recv() != nil {
							if _, isPtr := sig.Recv().Type().(*types.Pointer); isPtr {
								if fa, isFA := x.Call.Args[0].(*ssa.FieldAddr); isFA {
									switch f.Name() {
									case "Len", "Cap", "String", "Bytes", "Load", "RLock", "RUnlock", "Lock", "Unlock", "Available":
									default:
										addr, kind = fa, "call of "+f.Name()+" on"
									}
								}
							}
						}
					}
				}
				if addr == nil {
					return
				}
			default:
				return
			}
			if addr == nil {
				return
			}
			root, path, ok := addrPath(addr)
			if !ok {
				// element of a slice loaded from a tree field: n.children[i] = …
				if ia, isIA := addr.(*ssa.IndexAddr); isIA {
					if u, isU := ia.X.(*ssa.UnOp); isU && u.Op == token.MUL {
						if rt, p2, ok2 := addrPath(u.X); ok2 {
							root, path, ok, kind = rt, p2+"[i]", true, "element store"
						}
					}
				}
				if !ok {
					return
				}
			}
			tn, isTree := treeType(root.Type())
			if !isTree {
				return
			}
			// fresh object of this very function?
			switch rv := root.(type) {
			case *ssa.Alloc:
				return
			case *ssa.TypeAssert:
				if c, ok := rv.X.(*ssa.Call); ok && isFunc(calleeFunc(c), "sync", "Pool", "Get") {
					return
				}
			}
			nStores++
			r.bad("R01.2", ssaName(fn), fmt.Sprintf("%s %s.%s", kind, tn, path), w.posOf(in.Pos()), "a function reachable from a render root writes a field of a parse-tree object / Template (the cached template is altered by rendering it): "+strings.Join(w.pathToCut(roots, fn, cut), " → "))
		})
	}
	if nStores == 0 {
		r.ok("R01.2", "(render-reachable functions)", "no store into Node/Template fields", "-", fmt.Sprintf("%d functions scanned", len(ro)), true)
	}
	r.Counts["render-only reachable functions"] = len(ro)

	// ---- R01.11: a Template is finished when it is handed out.  Outside render paths too, no
	// function stores into a field of a *Template it did not create itself (a parameter, a table
	// entry): a registered or shared template that one engine re-binds (engine, env, loader) changes
	// under every other holder — what a render of it does then depends on who registered it last.
	n11 := 0
	for _, fn := range w.pkgFuncs() {
		instrsOf(fn, func(in ssa.Instruction) {
			st, ok := in.(*ssa.Store)
			if !ok {
				return
			}
			fa, ok := st.Addr.(*ssa.FieldAddr)
			if !ok {
				return
			}
			if t, _ := fieldOfAddr(fa); t != "Template" {
				return
			}
			n11++
			switch base := unspill(fa.X).(type) {
			case *ssa.Alloc:
				return // &Template{…} under construction
			case *ssa.Parameter:
				_, f := fieldOfAddr(fa)
				// a method of Template maintaining its own bookkeeping under its own lock is not
				// re-binding; what is reported is a foreign function writing identity fields
				if fn.Signature.Recv() != nil && fn.Params[0] == base {
					return
				}
				// what decides how the template renders: its tree, its source, and the engine,
				// environment and loader it resolves names through (timestamps are bookkeeping)
				switch f {
				case "engine", "env", "nodes", "source", "name", "loader":
				default:
					return
				}
				r.bad("R01.11", ssaName(fn), "store Template."+f+" on a template handed in", w.posOf(in.Pos()), "the function writes a field of a *Template it received as an argument: the template may be registered with, cached by or shared between other engines, whose renders of it change from then on (another environment's globals, filters and loaders)")
			}
		})
	}
	r.ok("R01.11", "(package)", "templates are written only while they are built", "-", fmt.Sprintf("%d stores into Template fields examined", n11), true)
	checkR01_3(w, r, pools)
	checkR01_4(w, r)
	checkUseAfterRelease(w, r)
	checkGlobalMemos(w, r, "R01.6", nil)
	checkGlobalAliasing(w, r, "R01.8")
	checkTemplateTreeNeverReleased(w, r, "R01.9")
	checkNoAliasedHeaders(w, r, "R01.7")
}

// ---------------------------------------------------------------- R01.3

type fieldLeaf struct {
	path string
	typ  types.Type
}

// leafFields enumerates the fields of a struct, descending into embedded/nested struct values.
func leafFields(st *types.Struct, prefix string, depth int) []fieldLeaf {
	var out []fieldLeaf
	for i := 0; i < st.NumFields(); i++ {
		f := st.Field(i)
		p := f.Name()
		if prefix != "" {
			p = prefix + "." + p
		}
		if inner, ok := f.Type().Underlying().(*types.Struct); ok && depth < 2 && !isSyncPool(f.Type()) {
			if n, isNamed := f.Type().(*types.Named); !isNamed || (n.Obj().Pkg() != nil && n.Obj().Pkg().Path() == twigPath) {
				out = append(out, leafFields(inner, p, depth+1)...)
				continue
			}
		}
		out = append(out, fieldLeaf{p, f.Type()})
	}
	return out
}

type assignMode int

const (
	modeAssign assignMode = iota // any assignment counts
	modeZero                     // only zeroing counts
	modeNonNil                   // only the assignment of a container that is not nil counts
)

type resetAnalysis struct {
	w    *World
	memo map[string]map[string]bool
	busy map[string]bool
}

// rootsTo: does addr denote field path `path` (or a prefix of it) of object obj?
func coversPath(addr ssa.Value, obj ssa.Value, path string) bool {
	root, p, ok := addrPath(addr)
	if !ok {
		return false
	}
	if !sameObject(root, obj) {
		return false
	}
	return p == path || strings.HasPrefix(path, p+".")
}

// sameObject: the same SSA value, possibly through a pointer to a nested struct taken earlier
// (tokenizer := &pooled.tokenizer is handled by addrPath because FieldAddr chains compose).
func sameObject(a, b ssa.Value) bool { return a == b }

// genInstr: does instruction `in` (re)initialise obj.path under the given mode?
func (ra *resetAnalysis) genInstr(in ssa.Instruction, obj ssa.Value, path string, mode assignMode) bool {
	switch x := in.(type) {
	case *ssa.Store:
		if coversPath(x.Addr, obj, path) {
			if mode == modeAssign {
				return true
			}
			if mode == modeNonNil {
				return nonNilContainer(x.Val, 0)
			}
			if isZeroValue(x.Val) {
				return true
			}
			// x.f = x.f[:0]
			return false
		}
		// *obj = T{…} whole-object store
		if x.Addr == obj {
			return mode != modeNonNil
		}
	case *ssa.Range:
		// for k := range obj.path { delete(obj.path, k) }
		if mode == modeNonNil {
			return false
		}
		if u, ok := x.X.(*ssa.UnOp); ok && u.Op == token.MUL && coversPath(u.X, obj, path) && rangeDeletesAll(x) {
			return true
		}
	case ssa.CallInstruction:
		cc := x.Common()
		if mode == modeNonNil {
			f := cc.StaticCallee()
			if f == nil || f.Blocks == nil || !ra.w.inPkg(f) {
				return false
			}
			for i, a := range cc.Args {
				if i < len(f.Params) && a == obj && ra.summary(f, i, mode)[path] {
					return true
				}
			}
			return false
		}
		if b, ok := cc.Value.(*ssa.Builtin); ok && b.Name() == "clear" && len(cc.Args) == 1 {
			if u, ok := cc.Args[0].(*ssa.UnOp); ok && u.Op == token.MUL && coversPath(u.X, obj, path) {
				return true
			}
		}
		f := cc.StaticCallee()
		if f != nil && f.Name() == "Reset" && f.Signature.Recv() != nil && len(cc.Args) == 1 && f.Pkg != nil && (f.Pkg.Pkg.Path() == "bytes" || f.Pkg.Pkg.Path() == "strings") {
			// obj.buf.Reset() on a bytes.Buffer / strings.Builder field (trusted stdlib semantics)
			if coversPath(cc.Args[0], obj, path) {
				return true
			}
		}
		if f == nil || f.Blocks == nil || !ra.w.inPkg(f) {
			return false
		}
		for i, a := range cc.Args {
			if i >= len(f.Params) {
				break
			}
			// obj itself, or the address of a nested struct of obj that is a prefix of path
			rel := ""
			if a == obj {
				rel = path
			} else if root, p, ok := addrPath(a); ok && root == obj && strings.HasPrefix(path, p+".") {
				rel = strings.TrimPrefix(path, p+".")
			} else {
				continue
			}
			if ra.summary(f, i, mode)[rel] {
				return true
			}
		}
	}
	return false
}

// rangeDeletesAll: the loop over the Range instruction deletes the current key from the
// ranged map in the block entered when Next succeeds.
func rangeDeletesAll(rg *ssa.Range) bool {
	if rg.Referrers() == nil {
		return false
	}
	for _, r := range *rg.Referrers() {
		nx, ok := r.(*ssa.Next)
		if !ok || nx.Referrers() == nil {
			continue
		}
		var key ssa.Value
		var okv ssa.Value
		for _, r2 := range *nx.Referrers() {
			if ex, ok := r2.(*ssa.Extract); ok {
				if ex.Index == 0 {
					okv = ex
				} else if ex.Index == 1 {
					key = ex
				}
			}
		}
		if key == nil || okv == nil {
			continue
		}
		v, trueIdx, ok := ifCond(nx.Block())
		if !ok || v != okv {
			continue
		}
		body := nx.Block().Succs[trueIdx]
		for _, in := range body.Instrs {
			if c, ok := in.(*ssa.Call); ok {
				if b, ok := c.Call.Value.(*ssa.Builtin); ok && b.Name() == "delete" && len(c.Call.Args) == 2 && c.Call.Args[1] == key {
					if sameValue(c.Call.Args[0], rg.X) {
						return true
					}
				}
			}
		}
	}
	return false
}

// summary: the set of field paths of parameter #pi that fn definitely (re)initialises on
// every path to every return.
func (ra *resetAnalysis) summary(fn *ssa.Function, pi int, mode assignMode) map[string]bool {
	key := fmt.Sprintf("%p/%d/%d", fn, pi, mode)
	if m, ok := ra.memo[key]; ok {
		return m
	}
	if ra.busy[key] {
		return nil
	}
	ra.busy[key] = true
	defer delete(ra.busy, key)
	out := map[string]bool{}
	p := fn.Params[pi]
	st, ok := deref(p.Type()).Underlying().(*types.Struct)
	if ok {
		if _, isPtr := p.Type().Underlying().(*types.Pointer); isPtr {
			for _, lf := range leafFields(st, "", 0) {
				if ra.mustAt(fn, p, lf.path, mode, nil) {
					out[lf.path] = true
				}
			}
		}
	}
	ra.memo[key] = out
	return out
}

// mustAt: is obj.path definitely (re)initialised at every Return of fn (points == nil) or at
// every given instruction?
func (ra *resetAnalysis) mustAt(fn *ssa.Function, obj ssa.Value, path string, mode assignMode, points []ssa.Instruction) bool {
	fl := &boolFlow{fn: fn, entry: false}
	fl.step = func(in ssa.Instruction, st bool) bool {
		if oi, ok := obj.(ssa.Instruction); ok && in == oi {
			return false // (re)acquired here: whatever a previous owner left is in the object
		}
		if ra.genInstr(in, obj, path, mode) {
			return true
		}
		return st
	}
	fl.edge = func(b *ssa.BasicBlock, i int) bool {
		// `if obj.flag { … } else { … }`: on either edge the flag's value is known, i.e. it
		// does not depend on what the previous owner left
		v, _, ok := ifCond(b)
		if !ok {
			return false
		}
		if u, isU := v.(*ssa.UnOp); isU && u.Op == token.MUL && coversPath(u.X, obj, path) && mode == modeAssign {
			if types.Identical(u.Type().Underlying(), types.Typ[types.Bool]) {
				return true
			}
		}
		// `if obj.m == nil { obj.m = make(…) }`: on the other edge the container is known not to be nil
		if mode == modeNonNil {
			if bo, isBo := v.(*ssa.BinOp); isBo && (bo.Op == token.EQL || bo.Op == token.NEQ) {
				var side ssa.Value
				if isNilConst(bo.Y) {
					side = bo.X
				} else if isNilConst(bo.X) {
					side = bo.Y
				}
				if u, isU := side.(*ssa.UnOp); isU && u.Op == token.MUL && coversPath(u.X, obj, path) {
					_, trueIdx, _ := ifCond(b)
					nonNilEdge := trueIdx
					if bo.Op == token.EQL {
						nonNilEdge = 1 - trueIdx
					}
					return i == nonNilEdge
				}
			}
		}
		return false
	}
	fl.solve()
	if points == nil {
		instrsOf(fn, func(in ssa.Instruction) {
			if _, ok := in.(*ssa.Return); ok {
				points = append(points, in)
			}
		})
	}
	reach := reachableBlocks(fn)
	for _, pt := range points {
		if !reach[pt.Block()] {
			continue
		}
		if !fl.at(pt) {
			return false
		}
	}
	return true
}

// fieldsRead computes, per struct type name, the set of leaf field paths that are read
// somewhere in the package (a load through a FieldAddr chain, a Field extraction, or the
// address being passed on).
func (w *World) fieldsRead() map[string]map[string]bool {
	out := map[string]map[string]bool{}
	mark := func(root ssa.Value, path string) {
		n, ok := deref(root.Type()).(*types.Named)
		if !ok {
			return
		}
		m := out[n.Obj().Name()]
		if m == nil {
			m = map[string]bool{}
			out[n.Obj().Name()] = m
		}
		m[path] = true
	}
	for _, fn := range w.pkgFuncs() {
		instrsOf(fn, func(in ssa.Instruction) {
			switch x := in.(type) {
			case *ssa.FieldAddr:
				root, path, ok := addrPath(x)
				if !ok || x.Referrers() == nil {
					return
				}
				for _, r := range *x.Referrers() {
					switch y := r.(type) {
					case *ssa.Store:
						if y.Addr == x {
							continue // pure write
						}
						mark(root, path)
					case *ssa.FieldAddr, *ssa.DebugRef:
						// nested: handled when the inner FieldAddr is visited
					case *ssa.UnOp:
						// a load that is only copied into the same field of another object of
						// the same type is not an observation (Clone copying a parent's field)
						copyOnly := y.Referrers() != nil && len(*y.Referrers()) > 0
						if copyOnly {
							for _, r2 := range *y.Referrers() {
								st, ok := r2.(*ssa.Store)
								if !ok || st.Val != y {
									copyOnly = false
									break
								}
								_, p2, ok2 := addrPath(st.Addr)
								if !ok2 || p2 != path || !types.Identical(deref(st.Addr.(*ssa.FieldAddr).X.Type()), deref(x.X.Type())) {
									copyOnly = false
									break
								}
							}
						}
						if !copyOnly {
							mark(root, path)
						}
					default:
						mark(root, path)
					}
				}
			case *ssa.Field:
				if n, ok := x.X.Type().(*types.Named); ok {
					st := n.Underlying().(*types.Struct)
					m := out[n.Obj().Name()]
					if m == nil {
						m = map[string]bool{}
						out[n.Obj().Name()] = m
					}
					m[st.Field(x.Field).Name()] = true
				}
			}
		})
	}
	return out
}

func checkR01_3(w *World, r *Report, pools []*poolInfo) {
	ra := &resetAnalysis{w: w, memo: map[string]map[string]bool{}, busy: map[string]bool{}}
	read := w.fieldsRead()
	nPools, nFields := 0, 0
	for _, p := range pools {
		if p.elem == nil {
			if len(p.gets)+len(p.puts) > 0 {
				r.note("pool %s: element type could not be determined from its New function; not covered by R01.3", p.name)
			}
			continue
		}
		if len(p.gets) == 0 || len(p.puts) == 0 {
			// nothing is ever recycled through this pool (dead or write-only)
			r.ok("R01.3", "(pool "+p.name+")", "never recycles", "-", fmt.Sprintf("gets=%d puts=%d: no object can travel from one owner to the next", len(p.gets), len(p.puts)), false)
			continue
		}
		elemPtr, isPtr := p.elem.Underlying().(*types.Pointer)
		// ---- pools of maps: cleared before Put or after Get
		if mp, ok := p.elem.Underlying().(*types.Map); ok {
			_ = mp
			nPools++
			for _, s := range p.puts {
				fl := &boolFlow{fn: s.fn, entry: false}
				v := s.val
				fl.step = func(in ssa.Instruction, st bool) bool {
					if rg, ok := in.(*ssa.Range); ok && sameValue(rg.X, v) && rangeDeletesAll(rg) {
						return true
					}
					if c, ok := in.(ssa.CallInstruction); ok {
						if b, ok := c.Common().Value.(*ssa.Builtin); ok && b.Name() == "clear" && sameValue(c.Common().Args[0], v) {
							return true
						}
					}
					return st
				}
				fl.solve()
				if fl.at(s.call) {
					r.ok("R01.3", ssaName(s.fn), "map cleared before Put into "+p.name, w.posOf(s.call.Pos()), "range/delete loop over the same map on every path", true)
				} else if ra.mapClearedAfterEveryGet(p) {
					r.ok("R01.3", ssaName(s.fn), "map cleared before Put into "+p.name, w.posOf(s.call.Pos()), "every Get site clears the map instead", true)
				} else {
					r.bad("R01.3", ssaName(s.fn), "map cleared before Put into "+p.name, w.posOf(s.call.Pos()), "a map is returned to the pool on a path on which it has not been emptied, and the acquiring side does not clear it either: entries of one render/parse become visible to the next owner")
				}
			}
			continue
		}
		if !isPtr {
			continue
		}
		if fn, isForeign := foreignResettable(elemPtr); isForeign {
			nPools++
			checkForeignBufferPool(w, r, p, fn)
			continue
		}
		named, ok := elemPtr.Elem().(*types.Named)
		st, isStruct := elemPtr.Elem().Underlying().(*types.Struct)
		if !ok || !isStruct || named.Obj().Pkg() == nil || named.Obj().Pkg().Path() != twigPath {
			continue
		}
		nPools++
		tname := named.Obj().Name()
		for _, lf := range leafFields(st, "", 0) {
			construct := fmt.Sprintf("%s: field %s.%s", p.name, tname, lf.path)
			// liveness: is the field (through this type or the nested type) ever read?
			isRead := read[tname][lf.path]
			if !isRead {
				// nested struct fields are read through their own type name
				parts := strings.Split(lf.path, ".")
				if len(parts) > 1 {
					cur := st
					for i := 0; i < len(parts)-1; i++ {
						for j := 0; j < cur.NumFields(); j++ {
							if cur.Field(j).Name() == parts[i] {
								if nn, ok := cur.Field(j).Type().(*types.Named); ok {
									if read[nn.Obj().Name()][strings.Join(parts[i+1:], ".")] {
										isRead = true
									}
									cur, _ = nn.Underlying().(*types.Struct)
								}
							}
						}
						if cur == nil {
							break
						}
					}
				}
			}
			if !isRead {
				r.ok("R01.3", "(pool "+p.name+")", construct, "-", "field is never read: its stale content is unobservable", false)
				continue
			}
			nFields++
			// acquire side
			acqOK := true
			var acqFail []string
			for _, s := range p.gets {
				if s.val == nil {
					acqOK = false
					acqFail = append(acqFail, ssaName(s.fn)+" (untyped use)")
					continue
				}
				// points: returns of the function if it returns the object; otherwise every
				// instruction that hands the object to another function
				var points []ssa.Instruction
				returnsObj := false
				if s.val.Referrers() != nil {
					for _, ref := range *s.val.Referrers() {
						if _, ok := ref.(*ssa.Return); ok {
							returnsObj = true
						}
					}
				}
				if returnsObj || flowsToReturn(s.val) {
					points = nil
				} else {
					instrsOf(s.fn, func(in ssa.Instruction) {
						if c, ok := in.(ssa.CallInstruction); ok {
							if isFunc(calleeFunc(c), "sync", "Pool", "Put") {
								return
							}
							for _, a := range c.Common().Args {
								if a == s.val {
									if f := c.Common().StaticCallee(); f != nil && w.inPkg(f) && len(ra.summary(f, argIndex(c, a), modeAssign)) > 0 {
										return // an initialiser helper
									}
									points = append(points, in)
								}
							}
						}
					})
					if len(points) == 0 {
						continue // acquired and never handed on: nothing to observe
					}
				}
				if !ra.mustAt(s.fn, s.val, lf.path, modeAssign, points) {
					acqOK = false
					acqFail = append(acqFail, ssaName(s.fn))
				}
			}
			relOK := true
			var relFail []string
			for _, s := range p.puts {
				if !ra.mustAt(s.fn, s.val, lf.path, modeZero, []ssa.Instruction{s.call}) {
					relOK = false
					relFail = append(relFail, ssaName(s.fn))
				}
			}
			sort.Strings(acqFail)
			sort.Strings(relFail)
			switch {
			case acqOK:
				r.ok("R01.3", "(pool "+p.name+")", construct, "-", fmt.Sprintf("definitely assigned on every path of all %d acquiring functions", len(p.gets)), true)
			case relOK:
				r.ok("R01.3", "(pool "+p.name+")", construct, "-", fmt.Sprintf("definitely zeroed before all %d Put sites", len(p.puts)), true)
			case internTransparent(w, tname, lf.path) != "":
				r.except("R01.3", "(pool "+p.name+")", construct, "-", "interning table that deliberately survives reuse; transparency sub-obligation holds: "+internTransparent(w, tname, lf.path))
			default:
				r.bad("R01.3", "(pool "+p.name+")", construct, w.posOf(p.gets[0].call.Pos()), fmt.Sprintf("the field survives recycling: not assigned on every path in acquiring function(s) %s and not zeroed before Put in %s — a recycled object shows the next owner what the previous one left", strings.Join(uniq(acqFail), ", "), strings.Join(uniq(relFail), ", ")))
			}
		}
	}
	// ---- no double ownership: a value loaded from a field of a pooled object and put into a
	// pool of its own must be detached from that object before the object itself is pooled
	// (otherwise two later owners share it)
	nDouble := 0
	for _, p := range pools {
		for _, s := range p.puts {
			u, ok := s.val.(*ssa.UnOp)
			if !ok || u.Op != token.MUL {
				continue
			}
			owner, path, ok := addrPath(u.X)
			if !ok {
				continue
			}
			for _, p2 := range pools {
				for _, s2 := range p2.puts {
					if s2.fn != s.fn || s2.val != owner {
						continue
					}
					nDouble++
					construct := fmt.Sprintf("%s detached from %s before both are pooled", path, p2.name)
					if ra.mustAt(s.fn, owner, path, modeZero, []ssa.Instruction{s2.call}) {
						r.ok("R01.3", ssaName(s.fn), construct, w.posOf(s2.call.Pos()), "field zeroed on every path before the owner's Put", true)
					} else {
						r.bad("R01.3", ssaName(s.fn), construct, w.posOf(s2.call.Pos()), "the object is put into "+p2.name+" while its field "+path+" still refers to a value that is also put into "+p.name+": two later owners can share it")
					}
				}
			}
		}
	}
	r.Counts["double-ownership sites"] = nDouble
	r.floor("pools with struct/map elements checked for full reset", nPools, 25)
	r.floor("live pooled fields", nFields, 60)
}

func uniq(s []string) []string {
	var out []string
	for i, x := range s {
		if i == 0 || x != s[i-1] {
			out = append(out, x)
		}
	}
	return out
}

func argIndex(c ssa.CallInstruction, a ssa.Value) int {
	for i, x := range c.Common().Args {
		if x == a {
			return i
		}
	}
	return 0
}

func flowsToReturn(v ssa.Value) bool {
	seen := map[ssa.Value]bool{}
	var walk func(v ssa.Value) bool
	walk = func(v ssa.Value) bool {
		if seen[v] || v.Referrers() == nil {
			return false
		}
		seen[v] = true
		for _, r := range *v.Referrers() {
			switch x := r.(type) {
			case *ssa.Return:
				return true
			case *ssa.Phi:
				if walk(x) {
					return true
				}
			case *ssa.FieldAddr:
				// &obj.inner returned (GetTokenizer returns &pooled.tokenizer)
				if walk(x) {
					return true
				}
			case *ssa.MakeInterface:
				if walk(x) {
					return true
				}
			}
		}
		return false
	}
	return walk(v)
}

func (ra *resetAnalysis) mapClearedAfterEveryGet(p *poolInfo) bool {
	for _, s := range p.gets {
		if s.val == nil {
			return false
		}
		cleared := false
		instrsOf(s.fn, func(in ssa.Instruction) {
			if rg, ok := in.(*ssa.Range); ok && sameValue(rg.X, s.val) && rangeDeletesAll(rg) {
				cleared = true
			}
		})
		if !cleared {
			return false
		}
	}
	return true
}

// ---------------------------------------------------------------- R01.4

// derivesFromParam: does v derive from a parameter of its function (through conversions,
// unsafe pointer arithmetic, or a local copy whose address is taken)?  Returns the index.
func derivesFromParam(v ssa.Value, seen map[ssa.Value]bool) (int, bool) {
	if seen[v] {
		return 0, false
	}
	seen[v] = true
	switch x := v.(type) {
	case *ssa.Parameter:
		for i, p := range x.Parent().Params {
			if p == x {
				return i, true
			}
		}
	case *ssa.Convert:
		return derivesFromParam(x.X, seen)
	case *ssa.ChangeType:
		return derivesFromParam(x.X, seen)
	case *ssa.MakeInterface:
		return derivesFromParam(x.X, seen)
	case *ssa.BinOp:
		if i, ok := derivesFromParam(x.X, seen); ok {
			return i, true
		}
		return derivesFromParam(x.Y, seen)
	case *ssa.Alloc:
		if x.Referrers() != nil {
			for _, r := range *x.Referrers() {
				if st, ok := r.(*ssa.Store); ok && st.Addr == x {
					if i, ok := derivesFromParam(st.Val, seen); ok {
						return i, true
					}
				}
			}
		}
	case *ssa.Slice:
		return derivesFromParam(x.X, seen)
	case *ssa.UnOp:
		return derivesFromParam(x.X, seen)
	}
	return 0, false
}

func checkR01_4(w *World, r *Report) {
	pools := w.pools()
	g := w.callgraph()
	// acquire functions: return an object taken from a pool
	acquire := map[*ssa.Function]string{}
	for _, p := range pools {
		for _, s := range p.gets {
			if s.val != nil && flowsToReturn(s.val) {
				acquire[s.fn] = p.name
			}
		}
	}
	// functions returning the result of an acquire function acquire too (GetBuffer → pool.Get)
	for changed := true; changed; {
		changed = false
		for _, fn := range w.pkgFuncs() {
			if acquire[fn] != "" {
				continue
			}
			instrsOf(fn, func(in ssa.Instruction) {
				c, ok := in.(*ssa.Call)
				if !ok || acquire[fn] != "" {
					return
				}
				if f := c.Call.StaticCallee(); f != nil && acquire[f] != "" && flowsToReturn(c) {
					acquire[fn] = acquire[f]
					changed = true
				}
			})
		}
	}
	// releasers: Put a value derived from a parameter
	releaser := map[*ssa.Function]int{}
	for _, p := range pools {
		for _, s := range p.puts {
			if i, ok := derivesFromParam(s.val, map[ssa.Value]bool{}); ok {
				releaser[s.fn] = i
			}
		}
	}
	// one level of wrapping: methods that pass their receiver/param to a releaser (node.Release())
	for _, fn := range w.pkgFuncs() {
		if _, ok := releaser[fn]; ok {
			continue
		}
		instrsOf(fn, func(in ssa.Instruction) {
			c, ok := in.(*ssa.Call)
			if !ok {
				return
			}
			f := c.Call.StaticCallee()
			if f == nil {
				return
			}
			if ri, ok := releaser[f]; ok && ri < len(c.Call.Args) {
				if pi, ok := derivesFromParam(c.Call.Args[ri], map[ssa.Value]bool{}); ok {
					releaser[fn] = pi
				}
			}
		})
	}
	// borrow methods: return (a slice of) a field of their receiver
	borrow := map[*ssa.Function]bool{}
	for _, fn := range w.pkgFuncs() {
		if fn.Signature.Recv() == nil || len(fn.Params) == 0 {
			continue
		}
		recv := fn.Params[0]
		instrsOf(fn, func(in ssa.Instruction) {
			ret, ok := in.(*ssa.Return)
			if !ok {
				return
			}
			for _, rv := range ret.Results {
				switch rv.Type().Underlying().(type) {
				case *types.Slice, *types.Map:
				default:
					continue
				}
				v := rv
				if sl, ok := v.(*ssa.Slice); ok {
					v = sl.X
				}
				if u, ok := v.(*ssa.UnOp); ok && u.Op == token.MUL {
					if root, _, ok := addrPath(u.X); ok && root == recv {
						borrow[fn] = true
					}
				}
			}
		})
	}
	r.Counts["acquire functions"] = len(acquire)
	r.Counts["release functions"] = len(releaser)
	r.Counts["borrow methods"] = len(borrow)
	r.floor("acquire functions (return a pooled object)", len(acquire), 10)
	r.floor("release functions (Put a parameter-derived value)", len(releaser), 10)
	r.floor("borrow methods (return a receiver field)", len(borrow), 1)

	type loc struct{ typ, field string }
	// transitive readers of a struct field
	readersOf := func(l loc) map[*ssa.Function]bool {
		out := map[*ssa.Function]bool{}
		for _, fn := range w.pkgFuncs() {
			instrsOf(fn, func(in ssa.Instruction) {
				if fa, ok := in.(*ssa.FieldAddr); ok {
					if tn, f := fieldOfAddr(fa); tn == l.typ && f == l.field && fa.Referrers() != nil {
						for _, ref := range *fa.Referrers() {
							if _, isStore := ref.(*ssa.Store); !isStore {
								out[fn] = true
							}
						}
					}
				}
			})
		}
		for changed := true; changed; {
			changed = false
			for fn, node := range g.Nodes {
				if fn == nil || out[fn] {
					continue
				}
				for _, e := range node.Out {
					if out[e.Callee.Func] {
						out[fn] = true
						changed = true
						break
					}
				}
			}
		}
		return out
	}

	nSites := 0
	for _, fn := range w.pkgFuncs() {
		var objs []ssa.Value
		instrsOf(fn, func(in ssa.Instruction) {
			if c, ok := in.(*ssa.Call); ok {
				if f := c.Call.StaticCallee(); f != nil && acquire[f] != "" {
					objs = append(objs, c)
				}
			}
		})
		for _, obj := range objs {
			// borrowed values
			var borrowed []ssa.Value
			if obj.Referrers() == nil {
				continue
			}
			for _, ref := range *obj.Referrers() {
				c, ok := ref.(*ssa.Call)
				if !ok {
					continue
				}
				f := c.Call.StaticCallee()
				if f == nil || !borrow[f] || len(c.Call.Args) == 0 || c.Call.Args[0] != obj {
					continue
				}
				if _, isTuple := c.Type().(*types.Tuple); isTuple {
					for _, r2 := range *c.Referrers() {
						if ex, ok := r2.(*ssa.Extract); ok {
							switch ex.Type().Underlying().(type) {
							case *types.Slice, *types.Map:
								borrowed = append(borrowed, ex)
							}
						}
					}
				} else {
					borrowed = append(borrowed, c)
				}
			}
			if len(borrowed) == 0 {
				continue
			}
			nSites++
			isBorrowed := map[ssa.Value]bool{}
			var markB func(v ssa.Value)
			markB = func(v ssa.Value) {
				if isBorrowed[v] {
					return
				}
				isBorrowed[v] = true
				if v.Referrers() == nil {
					return
				}
				for _, ref := range *v.Referrers() {
					switch x := ref.(type) {
					case *ssa.Phi:
						markB(x)
					case *ssa.Slice:
						markB(x)
					}
				}
			}
			for _, b := range borrowed {
				markB(b)
			}
			// heap locations holding the borrow
			locs := map[loc]bool{}
			instrsOf(fn, func(in ssa.Instruction) {
				if st, ok := in.(*ssa.Store); ok && isBorrowed[st.Val] {
					if fa, ok := st.Addr.(*ssa.FieldAddr); ok {
						tn, f := fieldOfAddr(fa)
						locs[loc{tn, f}] = true
					}
				}
			})
			readers := map[*ssa.Function]bool{}
			for l := range locs {
				for f := range readersOf(l) {
					readers[f] = true
				}
			}
			usesBorrow := func(in ssa.Instruction) string {
				if _, isDbg := in.(*ssa.DebugRef); isDbg {
					return ""
				}
				for _, op := range in.Operands(nil) {
					if *op != nil && isBorrowed[*op] {
						return "uses the borrowed value"
					}
				}
				if fa, ok := in.(*ssa.FieldAddr); ok {
					tn, f := fieldOfAddr(fa)
					if locs[loc{tn, f}] && fa.Referrers() != nil {
						for _, ref := range *fa.Referrers() {
							if _, isStore := ref.(*ssa.Store); !isStore {
								return "reads " + tn + "." + f + " which holds the borrowed value"
							}
						}
					}
				}
				if c, ok := in.(*ssa.Call); ok {
					if f := c.Call.StaticCallee(); f != nil && readers[f] {
						return "calls " + ssaName(f) + " which reads the borrowed value"
					}
				}
				return ""
			}
			// release points of obj in this function (not deferred)
			bad := false
			instrsOf(fn, func(in ssa.Instruction) {
				c, ok := in.(*ssa.Call)
				if !ok {
					return
				}
				f := c.Call.StaticCallee()
				if f == nil {
					return
				}
				ri, isRel := releaser[f]
				if !isRel || ri >= len(c.Call.Args) {
					return
				}
				arg := c.Call.Args[ri]
				if arg == obj {
					// anything using the borrow after this point?
					var offender string
					var offPos token.Pos
					seen := map[*ssa.BasicBlock]bool{}
					var scan func(b *ssa.BasicBlock, from int)
					scan = func(b *ssa.BasicBlock, from int) {
						for i := from; i < len(b.Instrs) && offender == ""; i++ {
							if wht := usesBorrow(b.Instrs[i]); wht != "" {
								offender, offPos = wht, b.Instrs[i].Pos()
							}
						}
						if offender != "" {
							return
						}
						for _, s := range b.Succs {
							if !seen[s] {
								seen[s] = true
								scan(s, 0)
							}
						}
					}
					blk := in.Block()
					for i, x := range blk.Instrs {
						if x == in {
							scan(blk, i+1)
						}
					}
					if offender != "" {
						bad = true
						r.bad("R01.4", ssaName(fn), "use of memory borrowed from a pooled object after its release", w.posOf(in.Pos()), fmt.Sprintf("%s released here, but afterwards the function %s (%s): the next owner of the pooled object overwrites memory this function is still reading", ssaName(f), offender, w.posOf(offPos)))
					}
				}
				// borrowed memory handed to a second pool
				hand := isBorrowed[arg]
				if u, ok := arg.(*ssa.UnOp); ok && u.Op == token.MUL && !hand {
					if fa, ok := u.X.(*ssa.FieldAddr); ok {
						tn, fld := fieldOfAddr(fa)
						hand = locs[loc{tn, fld}]
					}
				}
				if hand && arg != obj {
					bad = true
					r.bad("R01.4", ssaName(fn), "borrowed memory handed to a second pool", w.posOf(in.Pos()), "memory that belongs to the pooled object acquired at "+w.posOf(obj.Pos())+" is passed to "+ssaName(f)+", which puts it into a pool of its own: two owners")
				}
			})
			if !bad {
				r.ok("R01.4", ssaName(fn), "borrow from pooled object stays within its lifetime", w.posOf(obj.Pos()), fmt.Sprintf("%d borrowed value(s); no use after a release, none handed to another pool", len(borrowed)), true)
			}
		}
	}
	r.floor("functions borrowing from a pooled object", nSites, 1)
}

// internTransparent: the only frozen exception of R01.3.  ZeroAllocTokenizer.tempStrings is an
// interning table that grows across parses by design.  It is accepted only while every function
// that reads it returns, on every path, either one of its own parameters or a value that was
// compared equal to a parameter on the dominating branch — so history can change pointer
// identity and speed, never content.  Returns "" when the field is not that exception or the
// sub-obligation fails.
func internTransparent(w *World, tname, path string) string {
	if !(tname == "TokenizerPooled" && path == "tokenizer.tempStrings") {
		return ""
	}
	var readers []string
	for _, fn := range w.pkgFuncs() {
		reads := false
		instrsOf(fn, func(in ssa.Instruction) {
			if fa, ok := in.(*ssa.FieldAddr); ok {
				if tn, f := fieldOfAddr(fa); tn == "ZeroAllocTokenizer" && f == "tempStrings" {
					// a constructor (the pool's New function, literal or named) only stores into it
					onlyStores := fa.Referrers() != nil
					if fa.Referrers() != nil {
						for _, ref := range *fa.Referrers() {
							if st, isSt := ref.(*ssa.Store); !isSt || st.Addr != ssa.Value(fa) {
								if _, isDbg := ref.(*ssa.DebugRef); !isDbg {
									onlyStores = false
								}
							}
						}
					}
					if !onlyStores {
						reads = true
					}
				}
			}
		})
		if !reads {
			continue
		}
		readers = append(readers, ssaName(fn))
		okAll := true
		instrsOf(fn, func(in ssa.Instruction) {
			ret, isRet := in.(*ssa.Return)
			if !isRet {
				return
			}
			for _, rv := range ret.Results {
				if _, isParam := rv.(*ssa.Parameter); isParam {
					continue
				}
				// dominated by the true edge of `rv == param`
				good := false
				for _, b := range fn.Blocks {
					v, trueIdx, ok := ifCond(b)
					if !ok {
						continue
					}
					bo, ok := v.(*ssa.BinOp)
					if !ok || bo.Op != token.EQL {
						continue
					}
					_, px := bo.X.(*ssa.Parameter)
					_, py := bo.Y.(*ssa.Parameter)
					if !((bo.X == rv && py) || (bo.Y == rv && px)) {
						continue
					}
					t := b.Succs[trueIdx]
					if len(t.Preds) == 1 && (t == ret.Block() || t.Dominates(ret.Block())) {
						good = true
					}
				}
				// … or rv = tbl[i] with i = slices.Index(tbl, param): equal to the parameter by the
				// definition of slices.Index (i == -1 would panic, not answer)
				if !good {
					if u, ok := rv.(*ssa.UnOp); ok {
						if ia, ok := u.X.(*ssa.IndexAddr); ok {
							if c, ok := unspill(ia.Index).(*ssa.Call); ok {
								if f := calleeFunc(c); f != nil && f.Pkg() != nil && f.Pkg().Path() == "slices" && f.Name() == "Index" && len(c.Call.Args) == 2 {
									if _, isP := unspill(c.Call.Args[1]).(*ssa.Parameter); isP && sameValue(unspill(c.Call.Args[0]), unspill(ia.X)) {
										good = true
									}
								}
							}
						}
					}
				}
				if !good {
					okAll = false
				}
			}
		})
		if !okAll {
			return ""
		}
	}
	if len(readers) == 0 {
		return ""
	}
	sort.Strings(readers)
	return "every reader (" + strings.Join(readers, ", ") + ") returns its argument or a value tested equal to it"
}

// foreignResettable: *T for a named type T of another package that has a Reset() method
// (bytes.Buffer, strings.Builder, bufio.Writer …): the content of such an object is its state.
func foreignResettable(pt *types.Pointer) (string, bool) {
	named, ok := pt.Elem().(*types.Named)
	if !ok || named.Obj().Pkg() == nil || named.Obj().Pkg().Path() == twigPath {
		return "", false
	}
	ms := types.NewMethodSet(pt)
	for i := 0; i < ms.Len(); i++ {
		if ms.At(i).Obj().Name() == "Reset" {
			if sig, ok := ms.At(i).Type().(*types.Signature); ok && sig.Params().Len() == 0 {
				return named.Obj().Pkg().Name() + "." + named.Obj().Name(), true
			}
		}
	}
	return "", false
}

// checkForeignBufferPool — R01.3 for pools of library buffers: a buffer never travels from one
// owner to the next with content.  Either every Get site resets the buffer before anything
// else touches it, or every Put site is reached only with the buffer reset and untouched since.
func checkForeignBufferPool(w *World, r *Report, p *poolInfo, tname string) {
	isResetOf := func(in ssa.Instruction, v ssa.Value) bool {
		c, ok := in.(ssa.CallInstruction)
		if !ok {
			return false
		}
		g := c.Common().StaticCallee()
		if g == nil || g.Name() != "Reset" || len(c.Common().Args) != 1 {
			return false
		}
		return sameValue(unspill(c.Common().Args[0]), unspill(v))
	}
	usesVal := func(in ssa.Instruction, v ssa.Value) bool {
		for _, op := range in.Operands(nil) {
			if op != nil && *op != nil && sameValue(unspill(*op), unspill(v)) {
				return true
			}
		}
		return false
	}
	getOK, getWhy := true, ""
	for _, s := range p.gets {
		if s.val == nil {
			getOK, getWhy = false, ssaName(s.fn)+" uses the pooled object untyped"
			continue
		}
		instrsOf(s.fn, func(in ssa.Instruction) {
			if !getOK || in == ssa.Instruction(s.call) || !usesVal(in, s.val) || isResetOf(in, s.val) {
				return
			}
			if _, isTA := in.(*ssa.TypeAssert); isTA {
				return
			}
			if found, _ := existsPathFromAvoiding(s.fn, s.call, in, func(x ssa.Instruction) bool { return isResetOf(x, s.val) }, nil); found {
				getOK, getWhy = false, ssaName(s.fn)+" uses the buffer at "+w.posOf(in.Pos())+" without having reset it"
			}
		})
	}
	for _, s := range p.puts {
		construct := fmt.Sprintf("%s buffer is empty when it changes owner (%s)", tname, p.name)
		if getOK {
			r.ok("R01.3", ssaName(s.fn), construct, w.posOf(s.call.Pos()), "every Get site resets the buffer before its first use", true)
			continue
		}
		fl := &boolFlow{fn: s.fn, entry: false}
		v := s.val
		fl.step = func(in ssa.Instruction, st bool) bool {
			if isResetOf(in, v) {
				return true
			}
			if in == ssa.Instruction(s.call) {
				return st
			}
			if _, isMI := in.(*ssa.MakeInterface); isMI {
				return st
			}
			if usesVal(in, v) {
				if c, ok := in.(ssa.CallInstruction); ok {
					if g := c.Common().StaticCallee(); g != nil && (g.Name() == "Len" || g.Name() == "Cap") {
						return st
					}
				}
				return false
			}
			return st
		}
		fl.solve()
		if fl.at(s.call) {
			r.ok("R01.3", ssaName(s.fn), construct, w.posOf(s.call.Pos()), "Reset on every path to the Put, untouched since", true)
		} else {
			r.bad("R01.3", ssaName(s.fn), construct, w.posOf(s.call.Pos()), "the buffer can be returned to the pool with content (no Reset on some path to this Put — an early error return, typically), and the acquiring side does not reset it either ("+getWhy+"): the next owner's output starts with what the previous one wrote before it failed")
		}
	}
}

// nonNilContainer: v is a map/slice that cannot be nil — made here, taken from a pool (pools of
// the package hand out made containers), or returned by a package function all of whose returns are.
func nonNilContainer(v ssa.Value, depth int) bool {
	v = unspill(v)
	if depth > 3 {
		return false
	}
	switch x := v.(type) {
	case *ssa.MakeMap, *ssa.MakeSlice:
		return true
	case *ssa.TypeAssert:
		if c, ok := x.X.(*ssa.Call); ok && isFunc(calleeFunc(c), "sync", "Pool", "Get") {
			return true
		}
	case *ssa.Phi:
		for _, e := range x.Edges {
			if !nonNilContainer(e, depth+1) {
				return false
			}
		}
		return true
	case *ssa.Call:
		g := x.Call.StaticCallee()
		if g == nil || !isTwigFn(g) || len(g.Blocks) == 0 || g.Signature.Results().Len() != 1 {
			return false
		}
		all, n := true, 0
		instrsOf(g, func(in ssa.Instruction) {
			if ret, ok := in.(*ssa.Return); ok {
				n++
				rv := retResults(ret)[0]
				if !nonNilContainer(rv, depth+1) && !knownNonNilAt(rv, ret) {
					all = false
				}
			}
		})
		return all && n > 0
	}
	return false
}

// checkContextMapsAllocated — R05.19: a table of a render context is there when it is written.
// For every store m[k] = v into a map that is a field of a pooled context object: either the
// function establishes, on every path to the store, that the map is not nil (it assigns a made
// or pooled map, or stands behind a nil test), or every function that takes such an object out of
// the pool assigns the field a non-nil map on every path before handing the object on.  A
// constructor that leaves the allocation "to the first writer" must have told every writer.
func checkContextMapsAllocated(w *World, r *Report) {
	ra := &resetAnalysis{w: w, memo: map[string]map[string]bool{}, busy: map[string]bool{}}
	ctxT := w.named("RenderContext")
	var pool *poolInfo
	for _, p := range w.pools() {
		et := p.elem
		if et == nil {
			for _, g := range p.gets {
				if g.val != nil {
					et = g.val.Type()
				}
			}
		}
		if et != nil && types.Identical(deref(et), ctxT) {
			pool = p
		}
	}
	if pool == nil {
		cannotDecide("R05.19: the pool of render contexts was not found")
	}
	acquireOK := map[string]string{} // field -> "" if every acquiring site establishes it, else where not
	established := func(field string) string {
		if s, ok := acquireOK[field]; ok {
			return s
		}
		where := ""
		for _, g := range pool.gets {
			if g.val == nil {
				where = ssaName(g.fn) + " (untyped use)"
				continue
			}
			if !ra.mustAt(g.fn, g.val, field, modeNonNil, nil) {
				where = ssaName(g.fn)
			}
		}
		acquireOK[field] = where
		return where
	}
	n := 0
	for _, fn := range w.pkgFuncs() {
		instrsOf(fn, func(in ssa.Instruction) {
			mu, ok := in.(*ssa.MapUpdate)
			if !ok {
				return
			}
			u, ok := mu.Map.(*ssa.UnOp)
			if !ok || u.Op != token.MUL {
				return
			}
			fa, ok := u.X.(*ssa.FieldAddr)
			if !ok {
				return
			}
			tn, field := fieldOfAddr(fa)
			if tn != "RenderContext" {
				return
			}
			n++
			construct := "RenderContext." + field + " is allocated when it is written"
			if ra.mustAt(fn, fa.X, field, modeNonNil, []ssa.Instruction{in}) {
				r.ok("R05.19", ssaName(fn), construct, w.posOf(in.Pos()), "the function assigns or tests the map on every path to the store", true)
				return
			}
			if where := established(field); where == "" {
				r.ok("R05.19", ssaName(fn), construct, w.posOf(in.Pos()), "every function that takes a context out of the pool gives it a map", true)
			} else {
				r.bad("R05.19", ssaName(fn), construct, w.posOf(in.Pos()), "nothing on the way to this store makes sure the map exists, and "+where+" can hand out a context whose "+field+" is nil (a recycled context has its tables taken away on release): the store panics with `assignment to entry in nil map`")
			}
		})
	}
	r.floor("stores into tables of a render context", n, 3)
}

// knownNonNilAt: the instruction is reached only over the non-nil edge of a test `v == nil` / `v != nil`
func knownNonNilAt(v ssa.Value, at ssa.Instruction) bool {
	v = unspill(v)
	b := at.Block()
	for d := b.Idom(); d != nil; d = d.Idom() {
		c, trueIdx, ok := ifCond(d)
		if !ok {
			continue
		}
		bo, ok := c.(*ssa.BinOp)
		if !ok || (bo.Op != token.EQL && bo.Op != token.NEQ) {
			continue
		}
		var side ssa.Value
		if isNilConst(bo.Y) {
			side = bo.X
		} else if isNilConst(bo.X) {
			side = bo.Y
		}
		if side == nil || unspill(side) != v {
			continue
		}
		nonNil := trueIdx
		if bo.Op == token.EQL {
			nonNil = 1 - trueIdx
		}
		s := d.Succs[nonNil]
		if len(s.Preds) == 1 && (s == b || s.Dominates(b)) {
			return true
		}
		// `if v == nil { return … }` — the other successor is the join everything else flows through
		other := d.Succs[1-nonNil]
		if len(other.Instrs) > 0 {
			if _, isRet := other.Instrs[len(other.Instrs)-1].(*ssa.Return); isRet && other != b && (s == b || s.Dominates(b) || blockReaches(s, b)) && !blockReaches(other, b) {
				return true
			}
		}
	}
	return false
}
