// twigcheck: repository-specific static checker for semihalev/twig.
//
//	twigcheck -prop C06 -tier quick|thorough [-repo /repo] [-verif /verif] [-v] [-only key]
//
// Exit status: 0 = every obligation of the property discharged (or a listed known finding),
// 1 = a violation was found (a "VIOLATION property=… replay=…" line is printed),
// 2 = the checker could not decide (load error, missing anchor, vacuity floor, internal error).
package main

import (
	"flag"
	"fmt"
	"os"
	"path/filepath"
	"runtime/debug"
	"sort"
	"strconv"
	"strings"
)

type ruleFunc func(w *World, r *Report)

var registry = map[string]ruleFunc{}

func register(prop string, f ruleFunc) { registry[prop] = f }

func main() {
	prop := flag.String("prop", "", "property id (C01…C20) or 'all'")
	tier := flag.String("tier", "quick", "quick | thorough")
	repo := flag.String("repo", "/repo", "repository working tree to analyse")
	verif := flag.String("verif", "/verif", "verification directory (known_findings.json, evidence/)")
	evidence := flag.String("evidence", "", "evidence file (default <verif>/evidence/<prop>.json)")
	verbose := flag.Bool("v", false, "print every obligation")
	only := flag.String("only", "", "print only obligations whose key contains this text (implies -v)")
	noEvidence := flag.Bool("no-evidence", false, "do not write evidence (used by the self-test on scratch copies)")
	tags := flag.String("tags", "", "build tags for loading")
	goarch := flag.String("goarch", "", "GOARCH for loading")
	flag.Parse()
	// scratch copies are analysed from other directories: relative paths would not survive
	if a, err := filepath.Abs(*repo); err == nil {
		*repo = a
	}
	if a, err := filepath.Abs(*verif); err == nil {
		*verif = a
	}
	if t := os.Getenv("VERIF_TIER"); t != "" && *tier == "" {
		*tier = t
	}
	var seed int64
	if s := os.Getenv("VERIF_SEED"); s != "" {
		seed, _ = strconv.ParseInt(s, 10, 64)
	}
	props := []string{*prop}
	if *prop == "all" {
		props = nil
		for p := range registry {
			props = append(props, p)
		}
		sort.Strings(props)
	}
	status := 0
	var w *World
	for _, p := range props {
		f, ok := registry[p]
		if !ok {
			fmt.Fprintf(os.Stderr, "unknown property %q\n", p)
			os.Exit(2)
		}
		st := runOne(&w, p, f, *tier, seed, *repo, *verif, *evidence, *verbose, *only, *noEvidence, *tags, *goarch)
		if st > status {
			status = st
		}
	}
	os.Exit(status)
}

func runOne(wp **World, prop string, f ruleFunc, tier string, seed int64, repo, verif, evidence string, verbose bool, only string, noEvidence bool, tags, goarch string) (status int) {
	var r *Report
	defer func() {
		if x := recover(); x != nil {
			if u, ok := x.(undecided); ok {
				fmt.Fprintf(os.Stderr, "CANNOT-DECIDE property=%s: %s\n", prop, u.msg)
			} else {
				fmt.Fprintf(os.Stderr, "CANNOT-DECIDE property=%s: internal error: %v\n%s\n", prop, x, debug.Stack())
			}
			status = 2
			// violations found before the rule set gave up are still reported (never on an
			// evidence file: the run is not a verdict)
			if r != nil && r.hasViolations() {
				func() {
					defer func() { recover() }()
					tmp := filepath.Join(os.TempDir(), fmt.Sprintf("twigcheck-ev-%d-%s-partial.json", os.Getpid(), prop))
					defer os.Remove(tmp)
					if r.finish(verif, tmp, false) == 1 {
						status = 1
					}
				}()
			}
		}
	}()
	if *wp == nil {
		*wp = loadWorld(repo, tags, goarch)
		curWorld = *wp
	}
	w := *wp
	r = newReport(prop, tier, seed)
	r.Counts["files"] = len(w.Files)
	f(w, r)
	if evidence == "" {
		evidence = filepath.Join(verif, "evidence", prop+".json")
	}
	if noEvidence {
		evidence = filepath.Join(os.TempDir(), fmt.Sprintf("twigcheck-ev-%d-%s.json", os.Getpid(), prop))
		defer os.Remove(evidence)
		defer os.RemoveAll(strings.TrimSuffix(evidence, ".json") + ".violations")
	}
	if only != "" {
		var keep []*Oblig
		for _, o := range r.Obligs {
			if strings.Contains(o.key(), only) {
				keep = append(keep, o)
			}
		}
		for _, o := range keep {
			fmt.Printf("  %-10s %-9s %-40s %-50s %s %s%s\n", o.Verdict, o.Rule, o.Func, o.Construct, o.Pos, o.By, o.Detail)
		}
	}
	st := r.finish(verif, evidence, verbose)
	if len(r.Undecided) > 0 {
		for _, u := range r.Undecided {
			fmt.Fprintf(os.Stderr, "CANNOT-DECIDE property=%s: %s\n", prop, u)
		}
		if st == 0 {
			st = 2
		}
		if !noEvidence {
			os.Remove(evidence) // an undecided run leaves no evidence of a pass
		}
	}
	if tier == "thorough" {
		if st2 := thorough(w, prop, repo, verif); st2 > st {
			st = st2
		}
	}
	return st
}
