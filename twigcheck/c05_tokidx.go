package main

func checkTokenIndex(w *World, r *Report) {}
