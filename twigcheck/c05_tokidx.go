package main

// R05.1 — token-index safety: interval analysis over (Parser.tokens, Parser.tokenIndex) on go/cfg.
//
// Facts per (slice, index-base) pair:  ub = c  means  base + c < len(slice);  lb = k  means
// base >= k.  Branch conditions refine facts in evaluation order (go/cfg does not split && / ||);
// `tok.Type == K` with K != TOKEN_EOF proves one more token (the tokenizers end every stream with
// the TOKEN_EOF sentinel: checked separately); token copies are tracked as aliases; callee
// summaries: "preserves idx < len" (greatest fixed point) and "never lowers tokenIndex"
// (monotone); entry facts of functions are the meet over their call sites; block handlers get
// the facts proved at their single dynamic call site.

import (
	"fmt"
	"go/ast"
	"go/constant"
	"go/token"
	"go/types"
	"os"
	"sort"
	"strings"

	"golang.org/x/tools/go/cfg"
	"golang.org/x/tools/go/ssa"
)

const NEG = -1 << 30
const POS = 1 << 30

type tfact struct{ ub, lb int } // idx+ub < len ; idx >= lb
type talias struct {
	pair string
	c    int
}
type tstate struct {
	f   map[string]tfact
	a   map[types.Object]talias
	top bool
}

func bottomFact() tfact { return tfact{NEG, 0} }

func (s *tstate) clone() *tstate {
	n := &tstate{f: map[string]tfact{}, a: map[types.Object]talias{}, top: s.top}
	for k, v := range s.f {
		n.f[k] = v
	}
	for k, v := range s.a {
		n.a[k] = v
	}
	return n
}
func (s *tstate) get(k string) tfact {
	if v, ok := s.f[k]; ok {
		return v
	}
	return bottomFact()
}
func tiMin(a, b int) int {
	if a < b {
		return a
	}
	return b
}
func tiMax(a, b int) int {
	if a > b {
		return a
	}
	return b
}
func tiJoin(a, b *tstate) *tstate {
	if a == nil || a.top {
		return b.clone()
	}
	if b.top {
		return a.clone()
	}
	n := &tstate{f: map[string]tfact{}, a: map[types.Object]talias{}}
	for k, v := range a.f {
		w := b.get(k)
		n.f[k] = tfact{tiMin(v.ub, w.ub), tiMin(v.lb, w.lb)}
	}
	for k, v := range a.a {
		if w, ok := b.a[k]; ok && w == v {
			n.a[k] = v
		}
	}
	return n
}
func tiEq(a, b *tstate) bool {
	if a.top != b.top || len(a.a) != len(b.a) {
		return false
	}
	keys := map[string]bool{}
	for k := range a.f {
		keys[k] = true
	}
	for k := range b.f {
		keys[k] = true
	}
	for k := range keys {
		if a.get(k) != b.get(k) {
			return false
		}
	}
	for k, v := range a.a {
		if b.a[k] != v {
			return false
		}
	}
	return true
}

type analyzer struct {
	w            *World
	info         *types.Info
	tokenT       types.Type
	parserT      types.Type
	eofVal       constant.Value
	funcs        map[*types.Func]*ast.FuncDecl
	preserve     map[*types.Func]bool
	entry        map[*types.Func]*tstate
	handlers     map[*types.Func]bool
	parents      map[ast.Node]ast.Node
	report       map[string]string
	sites        map[string]bool
	collectEntry bool
	changedEntry bool
	mono         map[*types.Func]bool
	leq          map[*types.Func]bool
	weak         map[*types.Func]bool // idx < len at entry ⇒ idx <= len at every successful exit
	exitNeed     int
	nonEOFPred   map[*types.Func]bool
	monoFail     bool
	monoProbe    int
	decrOK       map[string]bool
	decrBad      map[string]string
	siteInfo     map[string]tsite
	// cursorParam: int parameters that every call site fills with <parser>.tokenIndex + c
	// (offset c); -1<<20 marks a parameter that some call site fills with something else
	cursorParam map[*types.Func]map[int]int
	// tiny parser methods, inlined at the abstract level
	bind       map[types.Object]ast.Expr // parameters of the tiny method being expanded -> caller's arguments
	collectNow bool                      // checkSites collects callee entry facts (short-circuit aware)
	pure       map[*types.Func]bool      // never assigns a cursor or token slice (transitively)
	shift      map[*types.Func]int       // body is exactly `recv.tokenIndex += k`
	inlining   int
}

const notCursor = -1 << 20

func (an *analyzer) isTokSlice(e ast.Expr) bool {
	t := an.info.TypeOf(e)
	if t == nil {
		return false
	}
	sl, ok := t.Underlying().(*types.Slice)
	return ok && types.Identical(sl.Elem(), an.tokenT)
}
func (an *analyzer) isParserExpr(e ast.Expr) bool {
	t := an.info.TypeOf(e)
	if t == nil {
		return false
	}
	if p, ok := t.(*types.Pointer); ok {
		return types.Identical(p.Elem(), an.parserT)
	}
	return false
}
func tiEs(e ast.Expr) string { return types.ExprString(e) }

// decompose index expr into base string and const offset
func (an *analyzer) decomp(e ast.Expr) (string, int) {
	e = ast.Unparen(e)
	if b, ok := e.(*ast.BinaryExpr); ok && (b.Op == token.ADD || b.Op == token.SUB) {
		if tv, ok := an.info.Types[b.Y]; ok && tv.Value != nil && tv.Value.Kind() == constant.Int {
			c, _ := constant.Int64Val(tv.Value)
			base, c0 := an.decomp(b.X)
			if b.Op == token.SUB {
				return base, c0 - int(c)
			}
			return base, c0 + int(c)
		}
	}
	return tiEs(e), 0
}
func tiPairkey(s, b string) string { return s + "|" + b }

// find slice for base: we key facts by pair; when idx base changes we update all pairs with that base
func (an *analyzer) shiftBase(st *tstate, base string, k int) {
	for key, f := range st.f {
		if strings.HasSuffix(key, "|"+base) {
			nf := f
			if nf.ub > NEG {
				nf.ub -= k
				if nf.ub < -4 {
					nf.ub = NEG
				}
			}
			nf.lb += k
			if nf.lb > 8 {
				nf.lb = 8
			}
			st.f[key] = nf
		}
	}
	for o, a := range st.a {
		if strings.HasSuffix(a.pair, "|"+base) {
			a.c -= k
			st.a[o] = a
		}
	}
}
func (an *analyzer) killBase(st *tstate, base string, lb int) {
	if lb == NEG && strings.HasSuffix(base, ".tokenIndex") {
		lb = 0 // the parser cursor is never negative (R05.1m)
	}
	for key := range st.f {
		if strings.HasSuffix(key, "|"+base) {
			st.f[key] = tfact{NEG, lb}
		}
	}
	for o, a := range st.a {
		if strings.HasSuffix(a.pair, "|"+base) {
			delete(st.a, o)
		}
	}
}
func (an *analyzer) killSlice(st *tstate, sl string) {
	for key := range st.f {
		if strings.HasPrefix(key, sl+"|") {
			f := st.f[key]
			f.ub = NEG
			st.f[key] = f
		}
	}
	for o, a := range st.a {
		if strings.HasPrefix(a.pair, sl+"|") {
			delete(st.a, o)
		}
	}
}

// tokenRef: expression denotes a token S[I] or alias ident; returns pair, c
func (an *analyzer) tokenRef(st *tstate, e ast.Expr) (string, int, bool) {
	e = ast.Unparen(e)
	switch x := e.(type) {
	case *ast.IndexExpr:
		if an.isTokSlice(x.X) {
			b, c := an.decomp(x.Index)
			return tiPairkey(tiEs(x.X), b), c, true
		}
	case *ast.Ident:
		if o := an.info.ObjectOf(x); o != nil {
			if a, ok := st.a[o]; ok {
				return a.pair, a.c, true
			}
		}
	case *ast.CallExpr:
		return an.tinyTokenRef(x)
	}
	return "", 0, false
}

func (an *analyzer) nonEOFConst(e ast.Expr) bool {
	e = an.resolveBound(e)
	tv, ok := an.info.Types[e]
	if !ok || tv.Value == nil {
		return false
	}
	id, ok := ast.Unparen(e).(*ast.Ident)
	if !ok || !strings.HasPrefix(id.Name, "TOKEN_") {
		return false
	}
	return !constant.Compare(tv.Value, token.EQL, an.eofVal)
}
func (an *analyzer) isEOFConst(e ast.Expr) bool {
	e = an.resolveBound(e)
	tv, ok := an.info.Types[e]
	if !ok || tv.Value == nil {
		return false
	}
	id, ok := ast.Unparen(e).(*ast.Ident)
	return ok && id.Name == "TOKEN_EOF"
}

func (an *analyzer) learnUB(st *tstate, pair string, c int) {
	f := st.get(pair)
	f.ub = tiMax(f.ub, c)
	st.f[pair] = f
}
func (an *analyzer) learnLB(st *tstate, pair string, k int) {
	f := st.get(pair)
	f.lb = tiMax(f.lb, k)
	st.f[pair] = f
}

// refineEither: the state after one of two alternatives — what both refinements establish
func (an *analyzer) refineEither(st *tstate, a, b func(*tstate)) {
	s1, s2 := st.clone(), st.clone()
	a(s1)
	b(s2)
	j := tiJoin(s1, s2)
	st.f, st.a, st.top = j.f, j.a, j.top
}

// refine state by condition cond being `val`
func (an *analyzer) refine(st *tstate, cond ast.Expr, val bool) {
	cond = ast.Unparen(cond)
	switch x := cond.(type) {
	case *ast.UnaryExpr:
		if x.Op == token.NOT {
			an.refine(st, x.X, !val)
		}
	case *ast.BinaryExpr:
		switch x.Op {
		case token.LAND:
			if val {
				an.refine(st, x.X, true)
				an.refine(st, x.Y, true)
			} else {
				// !(A && B): A is false, or A is true and B is false — what both cases establish
				an.refineEither(st, func(s *tstate) { an.refine(s, x.X, false) }, func(s *tstate) {
					an.refine(s, x.X, true)
					an.refine(s, x.Y, false)
				})
			}
		case token.LOR:
			if !val {
				an.refine(st, x.X, false)
				an.refine(st, x.Y, false)
			} else {
				// A || B: A is true, or A is false and B is true
				an.refineEither(st, func(s *tstate) { an.refine(s, x.X, true) }, func(s *tstate) {
					an.refine(s, x.X, false)
					an.refine(s, x.Y, true)
				})
			}
		case token.LSS, token.GEQ, token.GTR, token.LEQ:
			// normalize to A < len(S)
			op := x.Op
			l, r := x.X, x.Y
			if !val {
				switch op {
				case token.LSS:
					op = token.GEQ
				case token.GEQ:
					op = token.LSS
				case token.GTR:
					op = token.LEQ
				case token.LEQ:
					op = token.GTR
				}
			}
			// forms true: A < len(S) ; len(S) > A
			if op == token.GTR {
				l, r = r, l
				op = token.LSS
			} else if op == token.LEQ { // A <= B  => B >= A
				l, r = r, l
				op = token.GEQ
			}
			if op == token.LSS {
				if s, ok := an.lenOf(r); ok {
					b, c := an.decomp(l)
					an.learnUB(st, tiPairkey(s, b), c)
				}
				// const < idx  => idx >= const+1 ; handle i > 0 i.e. 0 < i
				if tv, ok := an.info.Types[l]; ok && tv.Value != nil {
					if k, ok2 := constant.Int64Val(tv.Value); ok2 {
						b, c := an.decomp(r)
						for key := range st.f {
							if strings.HasSuffix(key, "|"+b) {
								an.learnLB(st, key, int(k)+1-c)
							}
						}
						_ = c
					}
				}
			} else if op == token.GEQ { // l >= r
				if tv, ok := an.info.Types[r]; ok && tv.Value != nil {
					if k, ok2 := constant.Int64Val(tv.Value); ok2 {
						b, c := an.decomp(l)
						for key := range st.f {
							if strings.HasSuffix(key, "|"+b) {
								an.learnLB(st, key, int(k)-c)
							}
						}
					}
				}
			}
		case token.EQL, token.NEQ:
			isEq := (x.Op == token.EQL) == val
			// X.Type == K
			for _, pr := range [][2]ast.Expr{{x.X, x.Y}, {x.Y, x.X}} {
				sel, ok := ast.Unparen(pr[0]).(*ast.SelectorExpr)
				if !ok || sel.Sel.Name != "Type" {
					continue
				}
				pair, c, ok := an.tokenRef(st, sel.X)
				if !ok {
					continue
				}
				if isEq && an.nonEOFConst(pr[1]) {
					an.learnUB(st, pair, c+1)
				}
				if !isEq && an.isEOFConst(pr[1]) {
					an.learnUB(st, pair, c+1)
				}
			}
		}
	case *ast.CallExpr:
		// p.atEnd(), p.at(kind), …: expand the method's single returned expression
		if an.refineThroughTiny(st, x, val) {
			return
		}
		// kind predicates
		if f := an.w.callee(x); f != nil && val && an.nonEOFPred[f] && len(x.Args) == 1 {
			if sel, ok := ast.Unparen(x.Args[0]).(*ast.SelectorExpr); ok && sel.Sel.Name == "Type" {
				if pair, c, ok := an.tokenRef(st, sel.X); ok {
					an.learnUB(st, pair, c+1)
				}
			}
		}
	}
}
func (an *analyzer) lenOf(e ast.Expr) (string, bool) {
	c, ok := ast.Unparen(e).(*ast.CallExpr)
	if !ok || len(c.Args) != 1 {
		return "", false
	}
	if id, ok := c.Fun.(*ast.Ident); !ok || id.Name != "len" {
		return "", false
	}
	if !an.isTokSlice(c.Args[0]) {
		return "", false
	}
	return tiEs(c.Args[0]), true
}

func (an *analyzer) pos(n ast.Node) string {
	p := an.w.Fset.Position(n.Pos())
	return fmt.Sprintf("%s:%d", p.Filename[strings.LastIndex(p.Filename, "/")+1:], p.Line)
}

// check sites in node (not descending into FuncLit), short-circuit aware
func (an *analyzer) checkSites(st *tstate, n ast.Node, fn string, doReport bool) {
	ast.Inspect(n, func(m ast.Node) bool {
		if _, ok := m.(*ast.FuncLit); ok {
			return false
		}
		if be, ok := m.(*ast.BinaryExpr); ok && (be.Op == token.LAND || be.Op == token.LOR) {
			an.checkSites(st, be.X, fn, doReport)
			st2 := st.clone()
			an.refine(st2, be.X, be.Op == token.LAND)
			an.checkSites(st2, be.Y, fn, doReport)
			return false
		}
		if c, ok := m.(*ast.CallExpr); ok && an.collectNow {
			an.collectEntryAt(st, c)
		}
		var sl, idx ast.Expr
		switch x := m.(type) {
		case *ast.IndexExpr:
			if an.isTokSlice(x.X) {
				sl, idx = x.X, x.Index
			}
		}
		if sl == nil {
			return true
		}
		b, c := an.decomp(idx)
		f := st.get(tiPairkey(tiEs(sl), b))
		key := fmt.Sprintf("%s %s: %s[%s]", an.pos(m), fn, tiEs(sl), tiEs(idx))
		if doReport {
			an.sites[key] = true
			if an.siteInfo != nil {
				ctx := ""
				for p := an.parents[m]; p != nil; p = an.parents[p] {
					if c, ok := p.(*ast.CallExpr); ok && an.w.calleeIs(c, "fmt", "", "Errorf") {
						ctx = "argument of fmt.Errorf"
						break
					}
					if _, ok := p.(ast.Stmt); ok {
						break
					}
				}
				an.siteInfo[key] = tsite{fn, fmt.Sprintf("%s[%s]", tiEs(sl), tiEs(idx)), m.Pos(), ctx}
			}
			if !(f.ub >= c && f.lb+c >= 0) {
				an.report[key] = fmt.Sprintf("need ub>=%d lb>=%d have ub=%d lb=%d", c, -c, f.ub, f.lb)
			}
		}
		return true
	})
}

func (an *analyzer) calleeOf(c *ast.CallExpr) *types.Func {
	var id *ast.Ident
	switch f := ast.Unparen(c.Fun).(type) {
	case *ast.Ident:
		id = f
	case *ast.SelectorExpr:
		id = f.Sel
	}
	if id == nil {
		return nil
	}
	fn, _ := an.info.Uses[id].(*types.Func)
	return fn
}

// apply effects of node
func (an *analyzer) effects(st *tstate, n ast.Node) {
	// calls with parser args
	var calls []*ast.CallExpr
	ast.Inspect(n, func(m ast.Node) bool {
		if _, ok := m.(*ast.FuncLit); ok {
			return false
		}
		if c, ok := m.(*ast.CallExpr); ok {
			calls = append(calls, c)
		}
		return true
	})
	for _, c := range calls {
		touches := false
		if sel, ok := ast.Unparen(c.Fun).(*ast.SelectorExpr); ok && an.isParserExpr(sel.X) {
			touches = true
		}
		for _, a := range c.Args {
			if an.isParserExpr(a) {
				touches = true
			}
		}
		if !touches {
			continue
		}
		callee := an.calleeOf(c)
		// pure callees change nothing; exact shifts move the facts exactly
		if callee != nil && an.pure[callee] {
			continue
		}
		if callee != nil {
			if k, ok := an.shift[callee]; ok {
				if cr, _, ok := an.callReceiver(c); ok {
					an.shiftBase(st, cr+".tokenIndex", k)
					for o, a := range st.a {
						if strings.Contains(a.pair, ".tokenIndex") {
							delete(st.a, o)
						}
					}
					continue
				}
			}
		}
		pres := callee != nil && an.preserve[callee]
		mono := callee != nil && an.mono[callee]
		leq := callee != nil && an.leq[callee]
		weak := callee != nil && an.weak[callee]
		if callee == nil {
			// dynamic call of a block handler: all handlers must agree
			pres, mono, leq, weak = true, true, true, true
			for h := range an.handlers {
				pres = pres && an.preserve[h]
				mono = mono && an.mono[h]
				leq = leq && an.leq[h]
				weak = weak && an.weak[h]
			}
		}
		for key, f := range st.f {
			if strings.Contains(key, ".tokenIndex") {
				lb := 0
				if mono && f.lb > 0 {
					lb = f.lb
				}
				if pres && f.ub >= 0 {
					st.f[key] = tfact{0, lb}
				} else if weak && f.ub >= 0 {
					st.f[key] = tfact{-1, lb} // at most the one guaranteed token was consumed
				} else if leq && f.ub >= -1 {
					st.f[key] = tfact{-1, lb} // idx <= len survives the call
				} else {
					st.f[key] = tfact{NEG, lb}
				}
			}
		}
		for o, a := range st.a {
			if strings.Contains(a.pair, ".tokenIndex") {
				delete(st.a, o)
			}
		}
	}
	switch x := n.(type) {
	case *ast.IncDecStmt:
		b, c := an.decomp(x.X)
		if c == 0 {
			if x.Tok == token.INC {
				an.shiftBase(st, b, 1)
			} else {
				an.shiftBase(st, b, -1)
			}
		}
	case *ast.AssignStmt:
		for i, lhs := range x.Lhs {
			lb := tiEs(lhs)
			var rhs ast.Expr
			if len(x.Rhs) == len(x.Lhs) {
				rhs = x.Rhs[i]
			}
			if x.Tok == token.ADD_ASSIGN || x.Tok == token.SUB_ASSIGN {
				if tv, ok := an.info.Types[rhs]; ok && tv.Value != nil {
					k, _ := constant.Int64Val(tv.Value)
					if x.Tok == token.SUB_ASSIGN {
						if strings.HasSuffix(lb, ".tokenIndex") && an.decrOK != nil {
							best := NEG
							for key, f := range st.f {
								if strings.HasSuffix(key, "|"+lb) && f.lb > best {
									best = f.lb
								}
							}
							dk := an.pos(x) + " " + tiEs(lhs) + " -= " + fmt.Sprint(k)
							if best >= int(k) {
								an.decrOK[dk] = true
							} else {
								an.decrBad[dk] = fmt.Sprintf("cursor lowered by %d where only idx >= %d is known", k, best)
							}
						}
						k = -k
					}
					an.shiftBase(st, lb, int(k))
				} else if lo, hi, ok := an.intRange(rhs); ok && x.Tok == token.ADD_ASSIGN && lo >= 0 && hi < 8 {
					// cursor += width, width one of a few constants: at least lo, at most hi tokens on
					for key, f := range st.f {
						if strings.HasSuffix(key, "|"+lb) {
							nf := f
							if nf.ub > NEG {
								nf.ub -= hi
								if nf.ub < -4 {
									nf.ub = NEG
								}
							}
							nf.lb += lo
							if nf.lb > 8 {
								nf.lb = 8
							}
							st.f[key] = nf
						}
					}
					for o, a := range st.a {
						if strings.HasSuffix(a.pair, "|"+lb) {
							delete(st.a, o)
						}
					}
				} else {
					an.killBase(st, lb, NEG)
				}
				continue
			}
			// plain assign / define
			if an.isTokSlice(lhs) {
				an.killSlice(st, lb)
				continue
			}
			// alias creation
			if id, ok := lhs.(*ast.Ident); ok && rhs != nil {
				if o := an.info.ObjectOf(id); o != nil {
					delete(st.a, o)
					if ix, ok := ast.Unparen(rhs).(*ast.IndexExpr); ok && an.isTokSlice(ix.X) {
						b, c := an.decomp(ix.Index)
						st.a[o] = talias{tiPairkey(tiEs(ix.X), b), c}
					} else if call, ok := ast.Unparen(rhs).(*ast.CallExpr); ok {
						if pair, c, ok := an.tinyTokenRef(call); ok {
							st.a[o] = talias{pair, c}
						}
					}
				}
			}
			// assignment to an index base
			t := an.info.TypeOf(lhs)
			if t != nil {
				if bt, ok := t.Underlying().(*types.Basic); ok && bt.Info()&types.IsInteger != 0 {
					// idx = const ?
					newlb := NEG
					if rhs != nil {
						if tv, ok := an.info.Types[rhs]; ok && tv.Value != nil {
							if k, ok := constant.Int64Val(tv.Value); ok {
								newlb = int(k)
							}
						}
						// idx = other + c : copy facts
						ob, oc := an.decomp(rhs)
						copied := false
						for key, f := range st.f {
							if strings.HasSuffix(key, "|"+ob) && ob != lb {
								sl := key[:strings.Index(key, "|")]
								nf := f
								if nf.ub > NEG {
									nf.ub -= oc
								}
								nf.lb += oc
								an.killBase(st, lb, NEG)
								st.f[tiPairkey(sl, lb)] = nf
								copied = true
							}
						}
						if copied {
							continue
						}
					}
					an.killBase(st, lb, newlb)
					// ensure a pair exists for lower bound tracking of loop vars: create for all slices seen
					if newlb > NEG {
						for key := range st.f {
							sl := key[:strings.Index(key, "|")]
							k2 := tiPairkey(sl, lb)
							if _, ok := st.f[k2]; !ok {
								st.f[k2] = tfact{NEG, newlb}
							}
						}
						st.f["~|"+lb] = tfact{NEG, newlb}
					}
				}
			}
		}
	}
}

// canon: produce entry state keyed by canonical cursor "P"
func (an *analyzer) canon(st *tstate) *tstate {
	best := tfact{NEG, 0}
	found := false
	for key, f := range st.f {
		if strings.Contains(key, ".tokens|") && strings.HasSuffix(key, ".tokenIndex") {
			if !found || f.ub > best.ub {
				best = f
			}
			found = true
		}
	}
	n := &tstate{f: map[string]tfact{"P": best}, a: map[types.Object]talias{}}
	return n
}

func (an *analyzer) analyze(fn *types.Func, decl *ast.FuncDecl, entry tfact, doReport bool) (exitOK bool) {
	g := cfg.New(decl.Body, func(*ast.CallExpr) bool { return true })
	name := fn.Name()
	// initial: all parser cursors get entry tfact. We find parser idents: receiver + params
	init := &tstate{f: map[string]tfact{}, a: map[types.Object]talias{}}
	var pnames []string
	if decl.Recv != nil {
		for _, f := range decl.Recv.List {
			for _, n := range f.Names {
				if an.isParserExpr(n) {
					pnames = append(pnames, n.Name)
				}
			}
		}
	}
	for _, f := range decl.Type.Params.List {
		for _, n := range f.Names {
			if an.isParserExpr(n) {
				pnames = append(pnames, n.Name)
			}
		}
	}
	// handlers use param 'parser'; receiver p is the same object
	for _, pn := range pnames {
		init.f[tiPairkey(pn+".tokens", pn+".tokenIndex")] = entry
	}
	// integer parameters that are the caller's cursor + c at every call site start with the
	// cursor's facts shifted by c
	if cp := an.cursorParam[fn]; cp != nil {
		pi := 0
		for _, f := range decl.Type.Params.List {
			for _, n := range f.Names {
				if off, ok := cp[pi]; ok && off != notCursor {
					nf := entry
					if nf.ub > NEG {
						nf.ub -= off
					}
					nf.lb += off
					for _, pn := range pnames {
						init.f[tiPairkey(pn+".tokens", n.Name)] = nf
					}
				}
				pi++
			}
			if len(f.Names) == 0 {
				pi++
			}
		}
	}
	in := make([]*tstate, len(g.Blocks))
	in[0] = init
	work := []int32{0}
	exitOK = true
	iter := 0
	for len(work) > 0 {
		iter++
		if iter > 20000 {
			fmt.Println("no convergence", name)
			break
		}
		bi := work[0]
		work = work[1:]
		b := g.Blocks[bi]
		st := in[bi].clone()
		for i, n := range b.Nodes {
			isCond := i == len(b.Nodes)-1 && len(b.Succs) == 2
			_ = isCond
			an.checkSites(st, n, name, false)
			an.effects(st, n)
		}
		for si, s := range b.Succs {
			out := st.clone()
			if len(b.Succs) == 2 && len(b.Nodes) > 0 {
				last := b.Nodes[len(b.Nodes)-1]
				if e, ok := last.(ast.Expr); ok {
					// is it a case expr?
					if cc, ok := an.parents[e].(*ast.CaseClause); ok {
						if sw, ok := an.parents[an.parents[cc]].(*ast.SwitchStmt); ok && sw.Tag == nil {
							// `switch { case cond: }` — the case expression is the condition of an if
							an.refine(out, e, si == 0)
						} else if ok && sw.Tag != nil && si == 0 {
							if sel, ok := ast.Unparen(sw.Tag).(*ast.SelectorExpr); ok && sel.Sel.Name == "Type" {
								if pair, c, ok := an.tokenRef(out, sel.X); ok && an.nonEOFConst(e) {
									an.learnUB(out, pair, c+1)
								}
							}
						}
					} else {
						an.refine(out, e, si == 0)
					}
				}
			}
			var nw *tstate
			if in[s.Index] == nil {
				nw = out
			} else {
				nw = tiJoin(in[s.Index], out)
			}
			if in[s.Index] == nil || !tiEq(in[s.Index], nw) {
				in[s.Index] = nw
				work = append(work, s.Index)
			}
		}
	}
	// final pass: report + exits
	prev := an.collectEntry
	for bi, b := range g.Blocks {
		if in[bi] == nil {
			continue
		}
		st := in[bi].clone()
		for _, n := range b.Nodes {
			an.collectNow = prev && doReport
			an.checkSites(st, n, name, doReport)
			an.collectNow = false
			an.effects(st, n)
		}
		if len(b.Succs) == 0 {
			// exit block: check returns only when last node is a ReturnStmt with nil error or function end
			ok := false
			for _, pn := range pnames {
				if st.get(tiPairkey(pn+".tokens", pn+".tokenIndex")).ub >= an.exitNeed {
					ok = true
				}
			}
			isErrRet := false
			if len(b.Nodes) > 0 {
				if r, ok2 := b.Nodes[len(b.Nodes)-1].(*ast.ReturnStmt); ok2 && len(r.Results) > 0 {
					last := r.Results[len(r.Results)-1]
					if id, ok3 := last.(*ast.Ident); !(ok3 && id.Name == "nil") {
						if t := an.info.TypeOf(last); t != nil && t.String() == "error" {
							isErrRet = true
						}
					}
				}
			}
			if !ok && !isErrRet {
				exitOK = false
			}
			if !isErrRet && an.monoProbe > 0 {
				okm := false
				for _, pn := range pnames {
					if st.get(tiPairkey(pn+".tokens", pn+".tokenIndex")).lb >= an.monoProbe {
						okm = true
					}
				}
				if !okm {
					an.monoFail = true
				}
			}
		}
	}
	an.collectEntry = prev
	return exitOK
}

func checkTokenIndex(w *World, r *Report) {
	an := &analyzer{w: w, info: w.Info, funcs: map[*types.Func]*ast.FuncDecl{}, preserve: map[*types.Func]bool{}, mono: map[*types.Func]bool{}, leq: map[*types.Func]bool{}, weak: map[*types.Func]bool{},
		entry: map[*types.Func]*tstate{}, handlers: map[*types.Func]bool{}, parents: w.parents, report: map[string]string{}, sites: map[string]bool{},
		nonEOFPred: map[*types.Func]bool{}}
	an.tokenT = w.named("Token")
	an.parserT = w.named("Parser")
	eof, ok := w.lookup("TOKEN_EOF").(*types.Const)
	if !ok {
		cannotDecide("anchor TOKEN_EOF is not a constant")
	}
	an.eofVal = eof.Val()

	// kind predicates whose truth excludes TOKEN_EOF: func(int) bool { return x == K1 || x == K2 … }
	// … in whatever form they are written (switch, if-chain, table-free helper calls): the
	// predicate's SSA is evaluated for the argument TOKEN_EOF; it must answer false
	if eofInt, isInt := constant.Int64Val(an.eofVal); isInt {
		for fn, fd := range w.decls {
			if fd.Body == nil || fd.Recv != nil {
				continue
			}
			sig := fn.Type().(*types.Signature)
			if sig.Params().Len() != 1 || sig.Results().Len() != 1 || !types.Identical(sig.Results().At(0).Type(), types.Typ[types.Bool]) {
				continue
			}
			if b, ok := sig.Params().At(0).Type().Underlying().(*types.Basic); !ok || b.Info()&types.IsInteger == 0 {
				continue
			}
			g := w.ssaFunc(fn)
			if g == nil || len(g.Blocks) == 0 {
				continue
			}
			if v, ok := interpretKindPredicate(g, eofInt); ok && !v {
				// and it is a predicate over kinds: true for at least one kind constant
				some := false
				for k := int64(0); k < 64 && !some; k++ {
					if v2, ok2 := interpretKindPredicate(g, k); ok2 && v2 {
						some = true
					}
				}
				if some {
					an.nonEOFPred[fn] = true
				}
			}
		}
	}
	for fn, fd := range w.decls {
		if fd.Body == nil || len(fd.Body.List) != 1 || fd.Recv != nil {
			continue
		}
		sig := fn.Type().(*types.Signature)
		if sig.Params().Len() != 1 || sig.Results().Len() != 1 || !types.Identical(sig.Results().At(0).Type(), types.Typ[types.Bool]) {
			continue
		}
		ret, ok := fd.Body.List[0].(*ast.ReturnStmt)
		if !ok || len(ret.Results) != 1 {
			continue
		}
		param := w.Info.Defs[fd.Type.Params.List[0].Names[0]]
		good := true
		n := 0
		var walk func(e ast.Expr)
		walk = func(e ast.Expr) {
			e = ast.Unparen(e)
			be, ok := e.(*ast.BinaryExpr)
			if !ok {
				good = false
				return
			}
			switch be.Op {
			case token.LOR:
				walk(be.X)
				walk(be.Y)
			case token.EQL:
				if identObj(w, be.X) == param && an.nonEOFConst(be.Y) {
					n++
				} else {
					good = false
				}
			default:
				good = false
			}
		}
		walk(ret.Results[0])
		if good && n > 0 {
			an.nonEOFPred[fn] = true
		}
	}

	// functions that touch a *Parser
	handlerType, _ := w.tryLookup("blockHandlerFunc").(*types.TypeName)
	for fn, fd := range w.decls {
		if fd.Body == nil {
			continue
		}
		usesParser := false
		ast.Inspect(fd, func(n ast.Node) bool {
			if e, ok := n.(ast.Expr); ok && an.isParserExpr(e) {
				usesParser = true
			}
			return !usesParser
		})
		if !usesParser {
			continue
		}
		an.funcs[fn] = fd
		an.preserve[fn] = true
		an.mono[fn] = true
		an.leq[fn] = true
		an.weak[fn] = true
		// block handlers: method values stored into a map whose element type is the handler type
		ast.Inspect(fd, func(n ast.Node) bool {
			kv, ok := n.(*ast.KeyValueExpr)
			if !ok {
				return true
			}
			sel, ok := kv.Value.(*ast.SelectorExpr)
			if !ok {
				return true
			}
			h, ok := w.Info.Uses[sel.Sel].(*types.Func)
			if !ok {
				return true
			}
			if cl, ok := w.parents[kv].(*ast.CompositeLit); ok {
				if m, ok := w.Info.TypeOf(cl).Underlying().(*types.Map); ok && handlerType != nil && types.Identical(m.Elem(), handlerType.Type()) {
					an.handlers[h] = true
				}
			}
			return true
		})
	}
	for _, h := range w.tagHandlers() {
		an.handlers[h] = true
	}
	r.floor("functions operating on the parser", len(an.funcs), 15)
	r.floor("block handlers stored in the handler map", len(an.handlers), 10)

	// R05.1s: every tokenizer that hands tokens to the parser ends the stream with TOKEN_EOF
	an.checkSentinel(r)

	an.computeTinySummaries()

	// 1. summaries (greatest fixed points): preserves idx<len, and never lowers the cursor
	for changed := true; changed; {
		changed = false
		for fn, d := range an.funcs {
			if an.preserve[fn] {
				if !an.analyze(fn, d, tfact{0, 0}, false) {
					an.preserve[fn] = false
					changed = true
				}
			}
			if an.weak[fn] {
				an.exitNeed = -1
				okw := an.analyze(fn, d, tfact{0, 0}, false)
				an.exitNeed = 0
				if !okw {
					an.weak[fn] = false
					changed = true
				}
			}
			if an.leq[fn] {
				an.exitNeed = -1
				okl := an.analyze(fn, d, tfact{-1, 0}, false)
				an.exitNeed = 0
				if !okl {
					an.leq[fn] = false
					changed = true
				}
			}
			if an.mono[fn] {
				an.monoProbe, an.monoFail = 4, false
				an.analyze(fn, d, tfact{NEG, 4}, false)
				an.monoProbe = 0
				if an.monoFail {
					an.mono[fn] = false
					changed = true
				}
			}
		}
	}
	// 2. entry facts: meet over call sites (handlers: facts at the dynamic call site).  Greatest
	// fixed point: every function starts from the optimistic fact, contributions of call sites can
	// only lower it, and the iteration runs until nothing changes — the result does not depend on
	// the order in which functions are visited.  Functions without any call site in the package
	// (Parse, exported entry points) start from nothing.
	top := tfact{8, 8}
	for fn := range an.funcs {
		an.entry[fn] = &tstate{f: map[string]tfact{"P": top}, a: map[types.Object]talias{}}
	}
	// roots: functions no parser function calls (statically or as a block handler)
	called := map[*types.Func]bool{}
	for h := range an.handlers {
		called[h] = true
	}
	for _, d := range an.funcs {
		ast.Inspect(d.Body, func(n ast.Node) bool {
			if c, ok := n.(*ast.CallExpr); ok {
				if f := an.calleeOf(c); f != nil {
					called[f] = true
				}
			}
			return true
		})
	}
	converged := false
	for round := 0; round < 60; round++ {
		an.changedEntry = false
		an.collectEntry = true
		for fn, d := range an.funcs {
			e := an.entry[fn].f["P"]
			if e == top {
				if called[fn] {
					continue // not yet reached from an analysed call site: contributes nothing
				}
				e = bottomFact()
			}
			an.report = map[string]string{}
			an.analyze(fn, d, e, true)
		}
		if !an.changedEntry {
			converged = true
			break
		}
	}
	if !converged {
		cannotDecide("R05.1: entry facts of the parser functions did not converge")
	}
	for fn := range an.funcs {
		if an.entry[fn].f["P"] == top {
			an.entry[fn] = nil
		}
	}
	if os.Getenv("TOKDBG") != "" {
		for fn := range an.funcs {
			fmt.Println("SUMMARY", fn.Name(), "preserve", an.preserve[fn], "leq", an.leq[fn], "weak", an.weak[fn], "mono", an.mono[fn])
		}
		for fn := range an.funcs {
			if e := an.entry[fn]; e != nil {
				fmt.Println("ENTRY", fn.Name(), e.f["P"], an.cursorParam[fn])
			} else {
				fmt.Println("ENTRY", fn.Name(), "none", an.cursorParam[fn])
			}
		}
	}
	// 3. final pass with reporting
	an.report = map[string]string{}
	an.sites = map[string]bool{}
	an.siteInfo = map[string]tsite{}
	an.collectEntry = false
	an.decrOK, an.decrBad = map[string]bool{}, map[string]string{}
	var fns []*types.Func
	for fn := range an.funcs {
		fns = append(fns, fn)
	}
	sort.Slice(fns, func(i, j int) bool { return an.funcs[fns[i]].Pos() < an.funcs[fns[j]].Pos() })
	for _, fn := range fns {
		e := bottomFact()
		if s := an.entry[fn]; s != nil {
			e = s.f["P"]
		}
		an.analyze(fn, an.funcs[fn], e, true)
	}
	var keys []string
	for k := range an.sites {
		keys = append(keys, k)
	}
	sort.Slice(keys, func(i, j int) bool { return an.siteInfo[keys[i]].pos < an.siteInfo[keys[j]].pos })
	for _, k := range keys {
		si := an.siteInfo[k]
		if why, bad := an.report[k]; bad {
			if reason, ok := tokidxExceptions[si.fn+" | "+si.expr+" | "+si.ctx]; ok {
				r.except("R05.1", si.fn, si.expr, w.posOf(si.pos), reason)
				continue
			}
			r.bad("R05.1", si.fn, si.expr, w.posOf(si.pos), "token index not provably within bounds on every path ("+why+"): a template that ends at this point of the grammar makes the parser index past the token slice and panic")
		} else {
			r.ok("R05.1", si.fn, si.expr, w.posOf(si.pos), "index within [0, len) by the interval facts at this point", true)
		}
	}
	r.floor("token-slice index sites in parser functions", len(keys), 100)
	// cursor decrements
	var dks []string
	for k := range an.decrOK {
		dks = append(dks, k)
	}
	for k := range an.decrBad {
		dks = append(dks, k)
	}
	sort.Strings(dks)
	for _, k := range dks {
		parts := strings.SplitN(k, " ", 2)
		if why, bad := an.decrBad[k]; bad {
			r.bad("R05.1", "(parser cursor)", parts[1], parts[0], "the cursor can become negative / move backwards: "+why)
		} else {
			r.ok("R05.1", "(parser cursor)", parts[1], parts[0], "preceded by at least as many increments on every path (cursor stays >= 0)", true)
		}
	}
	nPres, nMono := 0, 0
	for fn := range an.funcs {
		if an.preserve[fn] {
			nPres++
		}
		if an.mono[fn] {
			nMono++
		}
	}
	r.Counts["parser functions preserving idx<len"] = nPres
	r.Counts["parser functions never lowering the cursor"] = nMono
}

type tsite struct {
	fn   string
	expr string
	pos  token.Pos
	ctx  string
}

// tokidxExceptions: frozen, keyed by function + index expression, each with the protecting
// invariant written out after reading the code.
var tokidxExceptions = map[string]string{
	"parseInclude | parser.tokens[parser.tokenIndex] | argument of fmt.Errorf": "diagnostic text of the block-end check: it indexes tokens[tokenIndex] on the branch `tokenIndex >= len || kind mismatch`; the first disjunct cannot be the one that fired because within parseInclude the cursor only advances over tokens matched as non-EOF kinds (or inside parseExpression, which stops at the first token it cannot use) and every stream ends with the TOKEN_EOF sentinel (checked by this rule), which no branch of parseInclude consumes. Confirmed by reading; no input reaching tokenIndex == len could be constructed. Any other unproven index in parseInclude is still reported.",
}

// checkSentinel: every function that returns a []Token and appends tokens ends each successful
// return path with AddToken(TOKEN_EOF, …) — must-pass-through on SSA.
func (an *analyzer) checkSentinel(r *Report) {
	w := an.w
	n := 0
	// the tokenizers that hand a token stream to the parser: static callees of Parser.Parse
	// whose first result is a []Token
	parseFn := w.ssaFunc(w.method("Parser", "Parse"))
	direct := map[*ssa.Function]bool{}
	// … or of an unexported helper with that single call site into which the tokenising phase of
	// Parse was moved (a helper that returns nodes is the parsing phase, not looked into)
	returnsNodes := func(g *ssa.Function) bool {
		res := g.Signature.Results()
		for i := 0; i < res.Len(); i++ {
			t := res.At(i).Type()
			if sl, ok := t.Underlying().(*types.Slice); ok {
				t = sl.Elem()
			}
			if isNamed(t, twigPath, "Node") || w.implementsNode(t) {
				return true
			}
		}
		return false
	}
	var scan func(f *ssa.Function, depth int)
	scan = func(f *ssa.Function, depth int) {
		instrsOf(f, func(in ssa.Instruction) {
			if c, ok := in.(ssa.CallInstruction); ok {
				if g := c.Common().StaticCallee(); g != nil && !direct[g] {
					direct[g] = true
					if depth < 2 && w.inPkg(g) && g.Object() != nil && !g.Object().Exported() && len(g.Blocks) > 0 && !returnsNodes(g) && len(realInEdges(g)) == 1 {
						scan(g, depth+1)
					}
				}
			}
		})
	}
	scan(parseFn, 0)
	for _, fn := range w.pkgFuncs() {
		if !direct[fn] {
			continue
		}
		res := fn.Signature.Results()
		if res.Len() == 0 {
			continue
		}
		sl, ok := res.At(0).Type().Underlying().(*types.Slice)
		if !ok || !types.Identical(sl.Elem(), an.tokenT) {
			continue
		}
		// does it add tokens at all?
		adds := false
		instrsOf(fn, func(in ssa.Instruction) {
			if c, ok := in.(ssa.CallInstruction); ok {
				if f := calleeFunc(c); f != nil && f.Name() == "AddToken" {
					adds = true
				}
			}
		})
		if !adds {
			continue
		}
		n++
		// state: the last AddToken on the path had the constant kind TOKEN_EOF
		fl := &boolFlow{fn: fn, entry: false}
		fl.step = func(in ssa.Instruction, st bool) bool {
			c, ok := in.(ssa.CallInstruction)
			if !ok {
				return st
			}
			f := calleeFunc(c)
			if f == nil {
				return st
			}
			if f.Name() == "AddToken" {
				args := callArgs(c)
				if len(args) > 0 {
					if k, ok := args[0].(*ssa.Const); ok && k.Value != nil && constant.Compare(k.Value, token.EQL, an.eofVal) {
						return true
					}
				}
				return false
			}
			// helpers that add tokens clear the fact
			if g := c.Common().StaticCallee(); g != nil && w.inPkg(g) && addsTokens(g, map[*ssa.Function]bool{}) {
				return false
			}
			return st
		}
		fl.solve()
		okAll := true
		instrsOf(fn, func(in ssa.Instruction) {
			ret, ok := in.(*ssa.Return)
			if !ok {
				return
			}
			rr := retResults(ret)
			if len(rr) == 2 && !isNilConst(rr[1]) {
				return // error return
			}
			if !fl.at(in) {
				okAll = false
				r.bad("R05.1", ssaName(fn), "token stream ends with TOKEN_EOF", w.posOf(ret.Pos()), "a successful return is reachable on which the last token added is not the TOKEN_EOF sentinel: the parser's bounds reasoning (a matched non-EOF token is followed by another token) no longer holds")
			}
		})
		if okAll {
			r.ok("R05.1", ssaName(fn), "token stream ends with TOKEN_EOF", w.posOf(fn.Pos()), "on every successful return the last AddToken has the constant kind TOKEN_EOF", true)
		}
	}
	r.floor("tokenizers reachable from Parse", n, 1)
}

func addsTokens(fn *ssa.Function, seen map[*ssa.Function]bool) bool {
	if seen[fn] || fn.Blocks == nil {
		return false
	}
	seen[fn] = true
	found := false
	instrsOf(fn, func(in ssa.Instruction) {
		if c, ok := in.(ssa.CallInstruction); ok {
			if f := calleeFunc(c); f != nil && f.Name() == "AddToken" {
				found = true
			} else if g := c.Common().StaticCallee(); g != nil && g.Pkg == fn.Pkg && addsTokens(g, seen) {
				found = true
			}
		}
	})
	return found
}

// ---------------------------------------------------------------- tiny cursor methods
//
// A parser written with cursor helpers — p.atEnd(), p.peek(), p.at(kind), p.advance() — has the
// same index discipline as one that spells the expressions out.  Methods whose body is a single
// `return <expr>` are expanded at the abstract level: the caller's facts are renamed to the
// method's receiver, its parameters are bound to the caller's arguments, the expression is
// refined in that naming, and the facts are renamed back.  Methods whose body is a single
// constant increment of the cursor shift the facts exactly.

// tinyReturn: the method's receiver name, its parameter objects and the single returned expression.
func (an *analyzer) tinyReturn(f *types.Func) (recv string, params []types.Object, e ast.Expr, ok bool) {
	d := an.funcs[f]
	if d == nil || d.Body == nil || len(d.Body.List) != 1 || d.Recv == nil || len(d.Recv.List) != 1 || len(d.Recv.List[0].Names) != 1 {
		return "", nil, nil, false
	}
	ret, isRet := d.Body.List[0].(*ast.ReturnStmt)
	if !isRet || len(ret.Results) != 1 || !an.isParserExpr(d.Recv.List[0].Names[0]) {
		return "", nil, nil, false
	}
	for _, fl := range d.Type.Params.List {
		for _, n := range fl.Names {
			params = append(params, an.info.Defs[n])
		}
	}
	return d.Recv.List[0].Names[0].Name, params, ret.Results[0], true
}

// callReceiver: for recv.m(args) with a *Parser receiver: the receiver's spelling and the callee.
func (an *analyzer) callReceiver(c *ast.CallExpr) (string, *types.Func, bool) {
	sel, ok := ast.Unparen(c.Fun).(*ast.SelectorExpr)
	if !ok || !an.isParserExpr(sel.X) {
		return "", nil, false
	}
	f, _ := an.info.Uses[sel.Sel].(*types.Func)
	if f == nil {
		return "", nil, false
	}
	return tiEs(sel.X), f, true
}

func renameFacts(st *tstate, from, to string) *tstate {
	if from == to {
		return st
	}
	n := &tstate{f: map[string]tfact{}, a: map[types.Object]talias{}, top: st.top}
	for k, v := range st.f {
		parts := strings.SplitN(k, "|", 2)
		if len(parts) == 2 && strings.HasPrefix(parts[0], from+".") && strings.HasPrefix(parts[1], from+".") {
			n.f[to+strings.TrimPrefix(parts[0], from)+"|"+to+strings.TrimPrefix(parts[1], from)] = v
		}
	}
	return n
}

// refineThroughTiny: cond is a call of a tiny bool method; refine st by its body being val.
func (an *analyzer) refineThroughTiny(st *tstate, c *ast.CallExpr, val bool) bool {
	cr, f, ok := an.callReceiver(c)
	if !ok || an.inlining > 4 {
		return false
	}
	rn, params, e, ok := an.tinyReturn(f)
	if !ok {
		return false
	}
	inner := renameFacts(st, cr, rn)
	saved := an.bind
	nb := map[types.Object]ast.Expr{}
	for k, v := range saved {
		nb[k] = v
	}
	for i, p := range params {
		if i < len(c.Args) && p != nil {
			nb[p] = an.resolveBound(c.Args[i])
		}
	}
	an.bind = nb
	an.inlining++
	an.refine(inner, e, val)
	an.inlining--
	an.bind = saved
	if cr == rn {
		return true
	}
	back := renameFacts(inner, rn, cr)
	for k, v := range back.f {
		old := st.get(k)
		st.f[k] = tfact{tiMax(old.ub, v.ub), tiMax(old.lb, v.lb)}
	}
	return true
}

// resolveBound: an argument that is itself a parameter of an enclosing tiny method stands for
// what that parameter is bound to.
func (an *analyzer) resolveBound(e ast.Expr) ast.Expr {
	if id, ok := ast.Unparen(e).(*ast.Ident); ok && an.bind != nil {
		if o := an.info.ObjectOf(id); o != nil {
			if b, ok := an.bind[o]; ok {
				return b
			}
		}
	}
	return e
}

// tinyTokenRef: recv.peek() where peek returns recv.tokens[recv.tokenIndex+c].
func (an *analyzer) tinyTokenRef(c *ast.CallExpr) (string, int, bool) {
	cr, f, ok := an.callReceiver(c)
	if !ok {
		return "", 0, false
	}
	rn, _, e, ok := an.tinyReturn(f)
	if !ok {
		return "", 0, false
	}
	ix, ok := ast.Unparen(e).(*ast.IndexExpr)
	if !ok || !an.isTokSlice(ix.X) || tiEs(ix.X) != rn+".tokens" {
		return "", 0, false
	}
	b, off := an.decomp(ix.Index)
	if b != rn+".tokenIndex" {
		return "", 0, false
	}
	return tiPairkey(cr+".tokens", cr+".tokenIndex"), off, true
}

// computeTinySummaries: pure functions and exact shifts.
func (an *analyzer) computeTinySummaries() {
	an.pure = map[*types.Func]bool{}
	an.shift = map[*types.Func]int{}
	assignsCursor := func(d *ast.FuncDecl) bool {
		found := false
		isCursor := func(e ast.Expr) bool {
			sel, ok := ast.Unparen(e).(*ast.SelectorExpr)
			return ok && (sel.Sel.Name == "tokenIndex" || sel.Sel.Name == "tokens") && an.isParserExpr(sel.X)
		}
		ast.Inspect(d.Body, func(n ast.Node) bool {
			switch x := n.(type) {
			case *ast.AssignStmt:
				for _, l := range x.Lhs {
					if isCursor(l) {
						found = true
					}
				}
			case *ast.IncDecStmt:
				if isCursor(x.X) {
					found = true
				}
			case *ast.UnaryExpr:
				if x.Op == token.AND && isCursor(x.X) {
					found = true
				}
			}
			return !found
		})
		return found
	}
	for f, d := range an.funcs {
		an.pure[f] = !assignsCursor(d)
		// exact shift: the body is one statement recv.tokenIndex++ / += k
		if d.Recv != nil && len(d.Body.List) == 1 {
			switch x := d.Body.List[0].(type) {
			case *ast.IncDecStmt:
				if sel, ok := x.X.(*ast.SelectorExpr); ok && sel.Sel.Name == "tokenIndex" && an.isParserExpr(sel.X) && x.Tok == token.INC {
					an.shift[f] = 1
				}
			case *ast.AssignStmt:
				if len(x.Lhs) == 1 && len(x.Rhs) == 1 && x.Tok == token.ADD_ASSIGN {
					if sel, ok := x.Lhs[0].(*ast.SelectorExpr); ok && sel.Sel.Name == "tokenIndex" && an.isParserExpr(sel.X) {
						if tv, ok := an.info.Types[x.Rhs[0]]; ok && tv.Value != nil {
							if k, ok := constant.Int64Val(tv.Value); ok && k > 0 && k < 8 {
								an.shift[f] = int(k)
							}
						}
					}
				}
			}
		}
	}
	for changed := true; changed; {
		changed = false
		for f, d := range an.funcs {
			if !an.pure[f] {
				continue
			}
			impure := false
			ast.Inspect(d.Body, func(n ast.Node) bool {
				c, ok := n.(*ast.CallExpr)
				if !ok || impure {
					return !impure
				}
				touches := false
				if sel, ok := ast.Unparen(c.Fun).(*ast.SelectorExpr); ok && an.isParserExpr(sel.X) {
					touches = true
				}
				for _, a := range c.Args {
					if an.isParserExpr(a) {
						touches = true
					}
				}
				if !touches {
					return true
				}
				g := an.calleeOf(c)
				if g == nil {
					impure = true // dynamic call with the parser: a block handler
					return false
				}
				if _, known := an.funcs[g]; known && !an.pure[g] {
					impure = true
				}
				return !impure
			})
			if impure {
				an.pure[f] = false
				changed = true
			}
		}
	}
}

// collectEntryAt: the call's callee(s) are entered with the facts that hold here.
func (an *analyzer) collectEntryAt(st *tstate, c *ast.CallExpr) {
	touches := false
	if sel, ok := ast.Unparen(c.Fun).(*ast.SelectorExpr); ok && an.isParserExpr(sel.X) {
		touches = true
	}
	for _, a := range c.Args {
		if an.isParserExpr(a) {
			touches = true
		}
	}
	if !touches {
		return
	}
	callee := an.calleeOf(c)
	var targets []*types.Func
	if callee != nil {
		targets = append(targets, callee)
	} else { // dynamic: handler call
		for h := range an.handlers {
			targets = append(targets, h)
		}
	}
	for _, t := range targets {
		if _, ok := an.funcs[t]; !ok {
			continue
		}
		// integer arguments that are the cursor (+ constant): the callee may index with them
		if callee != nil {
			if an.cursorParam == nil {
				an.cursorParam = map[*types.Func]map[int]int{}
			}
			if an.cursorParam[t] == nil {
				an.cursorParam[t] = map[int]int{}
			}
			for ai, a := range c.Args {
				bt, ok := an.info.TypeOf(a).Underlying().(*types.Basic)
				if !ok || bt.Info()&types.IsInteger == 0 {
					continue
				}
				b, off := an.decomp(a)
				val := notCursor
				if strings.HasSuffix(b, ".tokenIndex") {
					if _, has := st.f[tiPairkey(strings.TrimSuffix(b, ".tokenIndex")+".tokens", b)]; has {
						val = off
					}
				}
				if old, seen := an.cursorParam[t][ai]; !seen {
					an.cursorParam[t][ai] = val
					an.changedEntry = true
				} else if old != val && old != notCursor {
					an.cursorParam[t][ai] = notCursor
					an.changedEntry = true
				}
			}
		}
		// canonicalize: take best tfact among parser cursors
		cs := an.canon(st)
		old := an.entry[t]
		var nw *tstate
		if old == nil {
			nw = cs
		} else {
			nw = tiJoin(old, cs)
		}
		if old == nil || !tiEq(old, nw) {
			an.entry[t] = nw
			an.changedEntry = true
		}
	}
}

// intRange: the expression is a constant, or a local defined once from a call of a package
// function all of whose returns give an integer constant at that position.
func (an *analyzer) intRange(e ast.Expr) (lo, hi int, ok bool) {
	if tv, has := an.info.Types[e]; has && tv.Value != nil {
		if k, isInt := constant.Int64Val(tv.Value); isInt {
			return int(k), int(k), true
		}
	}
	id, isID := ast.Unparen(e).(*ast.Ident)
	if !isID {
		return 0, 0, false
	}
	obj := an.info.ObjectOf(id)
	if obj == nil {
		return 0, 0, false
	}
	// the defining assignment
	var def *ast.AssignStmt
	idx := -1
	nAssign := 0
	for p := an.parents[id]; p != nil; p = an.parents[p] {
		fd, isFD := p.(*ast.FuncDecl)
		if !isFD {
			continue
		}
		ast.Inspect(fd.Body, func(n ast.Node) bool {
			as, isAs := n.(*ast.AssignStmt)
			if !isAs {
				return true
			}
			for i, l := range as.Lhs {
				if lid, isL := l.(*ast.Ident); isL && an.info.ObjectOf(lid) == obj {
					nAssign++
					def, idx = as, i
				}
			}
			return true
		})
		break
	}
	if def == nil || nAssign != 1 || len(def.Rhs) != 1 {
		return 0, 0, false
	}
	call, isCall := ast.Unparen(def.Rhs[0]).(*ast.CallExpr)
	if !isCall {
		return 0, 0, false
	}
	f := an.calleeOf(call)
	if f == nil {
		return 0, 0, false
	}
	d := an.w.decls[f]
	if d == nil || d.Body == nil {
		return 0, 0, false
	}
	first := true
	good := true
	ast.Inspect(d.Body, func(n ast.Node) bool {
		if _, isLit := n.(*ast.FuncLit); isLit {
			return false
		}
		ret, isRet := n.(*ast.ReturnStmt)
		if !isRet {
			return true
		}
		if idx >= len(ret.Results) {
			good = false
			return false
		}
		tv, has := an.info.Types[ret.Results[idx]]
		if !has || tv.Value == nil {
			good = false
			return false
		}
		k, isInt := constant.Int64Val(tv.Value)
		if !isInt {
			good = false
			return false
		}
		if first || int(k) < lo {
			lo = int(k)
		}
		if first || int(k) > hi {
			hi = int(k)
		}
		first = false
		return true
	})
	if !good || first {
		return 0, 0, false
	}
	return lo, hi, true
}
