package main

// C08, precedence descent (R08.4 – R08.6): three shape conditions of the operator-precedence
// parser that are necessary for "an expression written with the fewest parentheses has the value
// of its fully parenthesised form" as soon as three operators meet.
//
// R08.4 a comparison of two operator precedences that decides whether the parser descends (calls
//       a function that parses a further operator) is re-evaluated after the descent: the descent
//       lies on a cycle through the comparison.  With a plain `if` the right operand of `+` in
//       `a + b * c * d` absorbs `b * c` only, and the rest is applied to the sum.
// R08.5 the conditional operator is not consumed inside the precedence descent: a function that
//       compares precedences does not call the function that builds ConditionalNode (it would
//       attach `? :` to the innermost product instead of the whole expression).
// R08.6 the operand of a unary operator is not parsed by the function that consumes binary
//       operators (the one calling the precedence function directly): `(-a + b)` must not
//       become -(a + b).

import (
	"fmt"
	"go/token"
	"go/types"
	"strings"

	"golang.org/x/tools/go/ssa"
)

func checkPrecedenceDescent(w *World, r *Report) {
	precObj := w.fn("getOperatorPrecedence")
	checkPrecedenceAskedOfWholeOperators(w, r, precObj)
	isPrecCall := func(v ssa.Value, seen map[ssa.Value]bool) bool {
		var walk func(v ssa.Value) bool
		walk = func(v ssa.Value) bool {
			if seen[v] {
				return true
			}
			seen[v] = true
			switch x := v.(type) {
			case *ssa.Call:
				if f := x.Call.StaticCallee(); f != nil && f.Object() == types.Object(precObj) {
					return true
				}
			case *ssa.Phi:
				for _, e := range x.Edges {
					if !walk(e) {
						return false
					}
				}
				return true
			case *ssa.UnOp:
				if u := unspill(x); u != ssa.Value(x) {
					return walk(u)
				}
			}
			return false
		}
		return walk(v)
	}

	// functions that compare precedences
	type cmpSite struct {
		fn  *ssa.Function
		cmp *ssa.BinOp
	}
	var sites []cmpSite
	climbers := map[*ssa.Function]bool{}
	for _, fn := range w.pkgFuncs() {
		instrsOf(fn, func(in ssa.Instruction) {
			bo, ok := in.(*ssa.BinOp)
			if !ok {
				return
			}
			switch bo.Op {
			case token.GTR, token.LSS, token.GEQ, token.LEQ:
			default:
				return
			}
			if isPrecCall(bo.X, map[ssa.Value]bool{}) && isPrecCall(bo.Y, map[ssa.Value]bool{}) {
				sites = append(sites, cmpSite{fn, bo})
				climbers[fn] = true
			}
		})
	}
	r.floor("comparisons of two operator precedences", len(sites), 1)

	// ---- R08.10: operators of equal precedence group from the left, all of them.  In a function
	// that compares two precedences to decide about the descent, (a) the only questions asked of a
	// precedence value are such ordered comparisons with another precedence — never an equality
	// test and never a comparison with a constant (a per-class exception: "except for PREC_POWER"),
	// and (b) a tie stops the descent: the comparison that lets the parser descend is strict
	// (`next > cur` descends / `next <= cur` stops).
	for fn := range climbers {
		instrsOf(fn, func(in ssa.Instruction) {
			bo, ok := in.(*ssa.BinOp)
			if !ok {
				return
			}
			switch bo.Op {
			case token.EQL, token.NEQ, token.LSS, token.LEQ, token.GTR, token.GEQ:
			default:
				return
			}
			px := isPrecCall(bo.X, map[ssa.Value]bool{})
			py := isPrecCall(bo.Y, map[ssa.Value]bool{})
			if !px && !py {
				return
			}
			construct := "precedences are only ordered against each other"
			pos := w.posOf(bo.Pos())
			_, cx := bo.X.(*ssa.Const)
			_, cy := bo.Y.(*ssa.Const)
			switch {
			case (px && cy) || (py && cx):
				r.bad("R08.10", ssaName(fn), construct, pos, "a precedence is compared with a constant inside the function that decides the descent: one precedence class is treated differently from the others (e.g. made right-associative), so `a ^ b ^ c` no longer groups from the left like every other chain of equal operators")
			case px && py && (bo.Op == token.EQL || bo.Op == token.NEQ):
				r.bad("R08.10", ssaName(fn), construct, pos, "two precedences are tested for equality inside the function that decides the descent: ties are singled out for special treatment, so some chains of equal operators do not group from the left")
			case px && py:
				r.ok("R08.10", ssaName(fn), construct, pos, "ordered comparison of two precedences", true)
			}
		})
	}

	// operator parsers: functions that (directly) ask for an operator's precedence
	opParsers := map[*ssa.Function]bool{}
	for _, fn := range w.pkgFuncs() {
		instrsOf(fn, func(in ssa.Instruction) {
			if c, ok := in.(*ssa.Call); ok {
				if f := c.Call.StaticCallee(); f != nil && f.Object() == types.Object(precObj) {
					opParsers[fn] = true
				}
			}
		})
	}

	// ---- R08.4
	for _, s := range sites {
		// the If that tests the comparison
		var ifBlk *ssa.BasicBlock
		if s.cmp.Referrers() != nil {
			for _, ref := range *s.cmp.Referrers() {
				if i, ok := ref.(*ssa.If); ok {
					ifBlk = i.Block()
				}
			}
		}
		construct := "descent on a tighter operator is repeated until none follows"
		pos := w.posOf(s.cmp.Pos())
		if ifBlk == nil {
			r.bad("R08.4", ssaName(s.fn), construct, pos, "the precedence comparison does not control a branch")
			continue
		}
		// descents controlled by the comparison: calls of operator parsers in blocks dominated by
		// one successor of the If but not the other
		nDesc, bad := 0, ""
		instrsOf(s.fn, func(in ssa.Instruction) {
			c, ok := in.(*ssa.Call)
			if !ok {
				return
			}
			g := c.Call.StaticCallee()
			if g == nil || !opParsers[g] {
				return
			}
			controlled := false
			for _, sc := range ifBlk.Succs {
				if len(sc.Preds) == 1 && (sc == c.Block() || sc.Dominates(c.Block())) {
					controlled = true
				}
			}
			// the loop form: `if next <= cur { break }; descend` — the descent follows the
			// comparison on the fall-through edge, whose block has the If as only predecessor too
			if !controlled {
				return
			}
			nDesc++
			if !blockReaches(c.Block(), ifBlk) {
				bad = w.posOf(c.Pos())
			}
		})
		switch {
		case nDesc == 0:
			r.bad("R08.4", ssaName(s.fn), construct, pos, "the precedence comparison controls no call that parses a further operator")
		case bad != "":
			r.bad("R08.4", ssaName(s.fn), construct, pos, "the descent at "+bad+" happens at most once per operator (it is not on a cycle through the comparison): in `a + b * c * d` only `b * c` becomes the right operand of `+`, and `* d` is applied to the sum")
		default:
			r.ok("R08.4", ssaName(s.fn), construct, pos, "the comparison is evaluated again after every descent (loop)", true)
		}
	}

	// ---- R08.5
	condBuilders := map[*ssa.Function]bool{}
	for _, fn := range w.pkgFuncs() {
		instrsOf(fn, func(in ssa.Instruction) {
			switch x := in.(type) {
			case *ssa.Alloc:
				if isNamed(deref(x.Type()), twigPath, "ConditionalNode") && x.Heap {
					condBuilders[fn] = true
				}
			}
		})
	}
	// constructors (NewConditionalNode) are builders; what matters is who *parses* `? :` — the
	// parser-side functions that build the node directly or through a constructor
	condParsers := map[*ssa.Function]bool{}
	for _, fd := range w.sortedDecls() {
		if !w.parserSide(fd) {
			continue
		}
		fn := w.ssaFunc(w.Info.Defs[fd.Name].(*types.Func))
		if condBuilders[fn] {
			condParsers[fn] = true
			continue
		}
		instrsOf(fn, func(in ssa.Instruction) {
			if c, ok := in.(*ssa.Call); ok {
				if g := c.Call.StaticCallee(); g != nil && condBuilders[g] && !w.parserSideFn(g) {
					condParsers[fn] = true
				}
			}
		})
	}
	r.floor("parser functions building the conditional node", len(condParsers), 1)
	for _, fn := range w.pkgFuncs() {
		if !climbers[fn] {
			continue
		}
		construct := "conditional operator is not consumed inside the precedence descent"
		bad := ""
		instrsOf(fn, func(in ssa.Instruction) {
			if c, ok := in.(*ssa.Call); ok {
				if g := c.Call.StaticCallee(); g != nil && condParsers[g] {
					bad = w.posOf(c.Pos())
				}
			}
		})
		if condParsers[fn] {
			bad = w.posOf(fn.Pos())
		}
		if bad != "" {
			r.bad("R08.5", ssaName(fn), construct, bad, "the function that decides precedence also parses `? :`: inside a descent the condition becomes the innermost operand (`1 + 2 * 3 ? a : b` is read as 1 + ((2 * 3) ? a : b))")
		} else {
			r.ok("R08.5", ssaName(fn), construct, w.posOf(fn.Pos()), "`? :` is left to the caller that has consumed all binary operators", true)
		}
	}

	// ---- R08.6
	// full-expression parsers: parser functions that call an operator parser directly and are not
	// operator parsers themselves
	fullExpr := map[*ssa.Function]bool{}
	for _, fn := range w.pkgFuncs() {
		if opParsers[fn] {
			continue
		}
		instrsOf(fn, func(in ssa.Instruction) {
			if c, ok := in.(*ssa.Call); ok {
				if g := c.Call.StaticCallee(); g != nil && opParsers[g] {
					fullExpr[fn] = true
				}
			}
		})
	}
	r.floor("full-expression parser functions", len(fullExpr), 1)
	nUnary := 0
	unaryBuilders := w.operatorNodeBuilders()
	for _, fd := range w.sortedDecls() {
		if !w.parserSide(fd) {
			continue
		}
		fn := w.ssaFunc(w.Info.Defs[fd.Name].(*types.Func))
		instrsOf(fn, func(in ssa.Instruction) {
			c, ok := in.(*ssa.Call)
			if !ok {
				return
			}
			g := c.Call.StaticCallee()
			if g == nil || unaryBuilders[g] != "UnaryNode" {
				return
			}
			// operand = the Node-typed argument
			for _, a := range c.Call.Args {
				if !isNamed(a.Type(), twigPath, "Node") {
					continue
				}
				src := a
				if ex, ok := src.(*ssa.Extract); ok {
					if pc, ok := ex.Tuple.(*ssa.Call); ok {
						nUnary++
						construct := "operand of a unary operator is a primary expression"
						if h := pc.Call.StaticCallee(); h != nil && fullExpr[h] {
							r.bad("R08.6", ssaName(fn), construct, w.posOf(c.Pos()), "the operand is parsed by "+h.Name()+", which consumes binary operators: `(-a + b)` becomes -(a + b)")
						} else {
							r.ok("R08.6", ssaName(fn), construct, w.posOf(c.Pos()), "the operand is parsed without consuming binary operators", true)
						}
					}
				}
			}
		})
	}
	r.floor("unary nodes built from a parsed operand", nUnary, 1)
}

func (w *World) parserSideFn(fn *ssa.Function) bool {
	if fn.Object() == nil {
		return false
	}
	if o, ok := fn.Object().(*types.Func); ok {
		if d := w.decls[o]; d != nil {
			return w.parserSide(d)
		}
	}
	return false
}

// checkDecimalLiterals — R08.11: a number literal denotes the decimal number its digits spell.
// Every string→integer conversion in the package whose result becomes the value of a
// LiteralNode (through NewLiteralNode or a store into LiteralNode.value) is strconv.Atoi or
// strconv.ParseInt/ParseUint with the constant base 10.  Base 0 reads `010` as eight and `09`
// as an error (dropped: zero); any other base misreads every literal.
func checkDecimalLiterals(w *World, r *Report) {
	newLit := w.ssaFunc(w.fn("NewLiteralNode"))
	reachesLiteral := func(start ssa.Value) bool {
		seen := map[ssa.Value]bool{}
		work := []ssa.Value{start}
		for len(work) > 0 {
			v := work[len(work)-1]
			work = work[:len(work)-1]
			if seen[v] || v.Referrers() == nil {
				continue
			}
			seen[v] = true
			for _, ref := range *v.Referrers() {
				switch x := ref.(type) {
				case *ssa.Extract:
					if x.Index == 0 {
						work = append(work, x)
					}
				case *ssa.Convert:
					work = append(work, x)
				case *ssa.ChangeType:
					work = append(work, x)
				case *ssa.MakeInterface:
					work = append(work, x)
				case *ssa.Phi:
					work = append(work, x)
				case *ssa.BinOp:
					if x.Op == token.SUB || x.Op == token.MUL { // -v, sign handling
						work = append(work, x)
					}
				case *ssa.UnOp:
					if x.Op == token.SUB {
						work = append(work, x)
					}
				case *ssa.Store:
					if x.Val == v {
						if fa, ok := x.Addr.(*ssa.FieldAddr); ok {
							if t, f := fieldOfAddr(fa); t == "LiteralNode" && f == "value" {
								return true
							}
						}
						if al, ok := x.Addr.(*ssa.Alloc); ok { // spilled local
							for _, r2 := range *al.Referrers() {
								if ld, ok := r2.(*ssa.UnOp); ok && ld.Op == token.MUL {
									work = append(work, ld)
								}
							}
						}
					}
				case ssa.CallInstruction:
					if newLit != nil && x.Common().StaticCallee() == newLit {
						return true
					}
				}
			}
		}
		return false
	}
	n := 0
	for _, fn := range w.pkgFuncs() {
		instrsOf(fn, func(in ssa.Instruction) {
			c, ok := in.(*ssa.Call)
			if !ok {
				return
			}
			f := c.Call.StaticCallee()
			if f == nil {
				return
			}
			full := f.String()
			if full != "strconv.Atoi" && full != "strconv.ParseInt" && full != "strconv.ParseUint" {
				return
			}
			if !reachesLiteral(c) {
				return
			}
			n++
			construct := "integer literal converted in base ten"
			if full == "strconv.Atoi" {
				r.ok("R08.11", ssaName(fn), construct, w.posOf(in.Pos()), "strconv.Atoi", true)
				return
			}
			if k, ok := c.Call.Args[1].(*ssa.Const); ok && k.Value != nil && k.Int64() == 10 {
				r.ok("R08.11", ssaName(fn), construct, w.posOf(in.Pos()), "constant base 10", true)
				return
			}
			r.bad("R08.11", ssaName(fn), construct, w.posOf(in.Pos()), "the value of a number literal is converted with a base that is not the constant 10: with base 0 a leading zero selects octal (010 is eight, 09 fails and — the error being dropped — is zero), so arithmetic on such literals is not the arithmetic of the numbers written")
		})
	}
	r.floor("string→integer conversions that become literal values", n, 1)
}

// checkExpressionShortcuts — R08.12: every expression goes through the expression tokenizer.
// Where a function hands a piece of text x to TokenizeExpression on one path and, on a path that
// excludes that call, emits a token whose value is x or was computed from x, the shortcut must be
// controlled by an identifier validator applied to x (a whole-string test): "it parses as a
// literal", "it starts and ends with a quote" also hold for `'a' ~ b ~ 'c'`, which is an
// expression.
func checkExpressionShortcuts(w *World, r *Report) {
	tokExpr := w.method("ZeroAllocTokenizer", "TokenizeExpression")
	addTok := w.method("ZeroAllocTokenizer", "AddToken")
	isValidator := func(c *ssa.Call, x ssa.Value) bool {
		g := c.Call.StaticCallee()
		if g == nil || !isTwigFn(g) || len(c.Call.Args) == 0 {
			return false
		}
		sig := g.Signature
		if sig.Results().Len() != 1 || !types.Identical(sig.Results().At(0).Type().Underlying(), types.Typ[types.Bool]) {
			return false
		}
		if !sameValue(unspill(c.Call.Args[len(c.Call.Args)-1]), unspill(x)) {
			return false
		}
		// a whole-string test: it looks at every character (an index with a loop variable, or a
		// range over the text), directly or through another such test
		return wholeStringTest(g, 0)
	}
	n := 0
	for _, fn := range w.pkgFuncs() {
		var exprCalls []*ssa.Call
		instrsOf(fn, func(in ssa.Instruction) {
			if c, ok := in.(*ssa.Call); ok && calleeFunc(c) == tokExpr && c.Parent() != w.ssaFunc(tokExpr) {
				exprCalls = append(exprCalls, c)
			}
		})
		if len(exprCalls) == 0 {
			continue
		}
		for _, T := range exprCalls {
			x := callArgs(T)[0]
			// values computed from x
			derived := map[ssa.Value]bool{unspill(x): true, x: true}
			inside := map[ssa.Value]bool{}
			for changed := true; changed; {
				changed = false
				instrsOf(fn, func(in ssa.Instruction) {
					v, ok := in.(ssa.Value)
					if !ok || derived[v] {
						return
					}
					switch y := in.(type) {
					case *ssa.Call:
						if calleeFunc(y) == tokExpr || calleeFunc(y) == addTok {
							return
						}
						// a function that cuts the text into pieces (two or more string results)
						// yields parts of x, not another form of x
						if sig := y.Call.Signature(); sig != nil {
							nstr := 0
							for k := 0; k < sig.Results().Len(); k++ {
								if isString(sig.Results().At(k).Type()) {
									nstr++
								}
							}
							if nstr >= 2 {
								return
							}
						}
						for _, a := range y.Call.Args {
							if derived[a] && isString(a.Type()) {
								derived[v], changed = true, true
							}
						}
					case *ssa.Extract:
						if derived[y.Tuple] {
							derived[v], changed = true, true
						}
					case *ssa.TypeAssert:
						if derived[y.X] {
							derived[v], changed = true, true
						}
					case *ssa.Slice:
						// x[1:len(x)-1] — the text without its first and last character — is x
						// read as a quoted literal; other slices are parts of x
						if derived[y.X] && insideSlice(y) {
							derived[v], changed = true, true
							inside[v] = true
						}
					case *ssa.Phi:
						for _, e := range y.Edges {
							if derived[e] {
								derived[v], changed = true, true
								if inside[e] {
									inside[v] = true
								}
							}
						}
					case *ssa.UnOp:
						if u := unspill(y); u != ssa.Value(y) && derived[u] {
							derived[v], changed = true, true
						}
					}
				})
			}
			instrsOf(fn, func(in ssa.Instruction) {
				A, ok := in.(*ssa.Call)
				if !ok || calleeFunc(A) != addTok {
					return
				}
				args := callArgs(A)
				if len(args) < 2 || !derived[args[1]] {
					return
				}
				// exclusive with T
				reach := func(a, b ssa.Instruction) bool {
					if a.Block() == b.Block() {
						return instrIndex(a) < instrIndex(b)
					}
					for _, s := range a.Block().Succs {
						if blockReaches(s, b.Block()) {
							return true
						}
					}
					return false
				}
				_ = reach
				// the two are alternatives for the SAME text only if what separates them looks at
				// that text: the branch at their nearest common dominator tests a value computed
				// from x (a tag-name switch separates different positions, not two readings of one)
				doms := map[*ssa.BasicBlock]bool{}
				for d := A.Block(); d != nil; d = d.Idom() {
					doms[d] = true
				}
				var lca *ssa.BasicBlock
				for d := T.Block(); d != nil; d = d.Idom() {
					if doms[d] {
						lca = d
						break
					}
				}
				if lca == nil {
					return
				}
				// exclusive: neither reaches the other without coming back to that branch
				if lca == A.Block() || lca == T.Block() {
					return
				}
				excl := func(a, b ssa.Instruction) bool {
					for _, sc := range a.Block().Succs {
						if sc == b.Block() || blockReachesAvoiding(sc, b.Block(), lca) {
							return false
						}
					}
					return a.Block() != b.Block()
				}
				if !excl(A, T) || !excl(T, A) {
					return
				}
				cond, _, isIf := ifCond(lca)
				if !isIf {
					return
				}
				var facts []condFact
				expandCond(cond, true, &facts, 0)
				looksAtX := false
				var fromX func(v ssa.Value, d int) bool
				fromX = func(v ssa.Value, d int) bool {
					if v == nil || d > 4 {
						return false
					}
					if derived[v] {
						return true
					}
					switch y := v.(type) {
					case *ssa.BinOp:
						return fromX(y.X, d+1) || fromX(y.Y, d+1)
					case *ssa.UnOp:
						return fromX(y.X, d+1)
					case *ssa.Call:
						for _, a := range y.Call.Args {
							if fromX(a, d+1) {
								return true
							}
						}
					case *ssa.Extract:
						return fromX(y.Tuple, d+1)
					case *ssa.TypeAssert:
						return fromX(y.X, d+1)
					}
					return false
				}
				for _, cf := range facts {
					if fromX(cf.v, 0) {
						looksAtX = true
					}
				}
				if !looksAtX {
					return
				}
				// the target of an assignment (`name =`) is not an expression position
				lvalue := false
				after := false
				for _, bi := range A.Block().Instrs {
					if bi == ssa.Instruction(A) {
						after = true
						continue
					}
					if !after {
						continue
					}
					if c2, ok := bi.(*ssa.Call); ok && calleeFunc(c2) == addTok {
						if sv, ok := constString(callArgs(c2)[1]); ok && sv == "=" {
							lvalue = true
						}
						break
					}
				}
				if lvalue {
					return
				}
				n++
				construct := "token emitted instead of tokenising the expression"
				guarded := false
				for _, c := range controllingConds(A) {
					var facts []condFact
					expandCond(c, true, &facts, 0)
					for _, cf := range facts {
						if call, ok := cf.v.(*ssa.Call); ok && cf.truth && isValidator(call, x) {
							guarded = true
						}
					}
				}
				if inside[args[1]] {
					// a quoted literal: the quote must have been shown not to occur inside
					for _, c := range controllingConds(A) {
						for _, truth := range []bool{true} {
							var facts []condFact
							expandCond(c, truth, &facts, 0)
							for _, cf := range facts {
								if noQuoteInside(cf, derived) {
									guarded = true
								}
							}
						}
					}
					if guarded {
						r.ok("R08.12", ssaName(fn), construct, w.posOf(A.Pos()), "taken only where the quote was shown not to occur inside the text", true)
					} else {
						r.bad("R08.12", ssaName(fn), construct, w.posOf(A.Pos()), "a text that is otherwise handed to the expression tokenizer becomes one string token because it starts and ends with a quote; nothing shows that the quote does not occur in between: 'a' ~ 'b' is an expression, and is read here as the single string \"a' ~ 'b\" — the same expression means something else in this position")
					}
					return
				}
				if guarded {
					r.ok("R08.12", ssaName(fn), construct, w.posOf(A.Pos()), "taken only where an identifier validator accepted the whole text", true)
				} else {
					r.bad("R08.12", ssaName(fn), construct, w.posOf(A.Pos()), "a piece of text that is otherwise handed to the expression tokenizer becomes a single token here without an identifier test of the whole text: an expression that merely looks like a literal at both ends — 'a' ~ b ~ 'c' — is read as one string, so the same expression means something else in this position")
				}
			})
		}
	}
	r.Counts["single-token shortcuts beside TokenizeExpression"] = n
}

func isString(t types.Type) bool {
	b, ok := t.Underlying().(*types.Basic)
	return ok && b.Info()&types.IsString != 0
}

// wholeStringTest: g(s string) bool examines the characters of s one by one (s[i] with a
// non-constant index, or range s) — or hands s to another function that does.
func wholeStringTest(g *ssa.Function, depth int) bool {
	if g == nil || len(g.Blocks) == 0 || depth > 2 || len(g.Params) == 0 {
		return false
	}
	p := g.Params[len(g.Params)-1]
	if !isString(p.Type()) {
		return false
	}
	found := false
	instrsOf(g, func(in ssa.Instruction) {
		switch x := in.(type) {
		case *ssa.Index:
			if unspill(x.X) == ssa.Value(p) {
				if _, isC := x.Index.(*ssa.Const); !isC {
					found = true
				}
			}
		case *ssa.Lookup:
			if unspill(x.X) == ssa.Value(p) {
				if _, isC := x.Index.(*ssa.Const); !isC {
					found = true
				}
			}
		case *ssa.Range:
			if unspill(x.X) == ssa.Value(p) {
				found = true
			}
		case *ssa.Call:
			if h := x.Call.StaticCallee(); h != nil && isTwigFn(h) && len(x.Call.Args) > 0 && unspill(x.Call.Args[len(x.Call.Args)-1]) == ssa.Value(p) && wholeStringTest(h, depth+1) {
				found = true
			}
		}
	})
	return found
}

// insideSlice: x[1 : len(x)-1]
func insideSlice(sl *ssa.Slice) bool {
	lo, ok := sl.Low.(*ssa.Const)
	if !ok || lo.Value == nil || lo.Int64() != 1 {
		return false
	}
	bo, ok := sl.High.(*ssa.BinOp)
	if !ok || bo.Op != token.SUB {
		return false
	}
	k, ok := bo.Y.(*ssa.Const)
	if !ok || k.Value == nil || k.Int64() != 1 {
		return false
	}
	c, ok := bo.X.(*ssa.Call)
	if !ok {
		return false
	}
	b, ok := c.Call.Value.(*ssa.Builtin)
	return ok && b.Name() == "len" && len(c.Call.Args) == 1 && sameValue(unspill(c.Call.Args[0]), unspill(sl.X))
}

// noQuoteInside: the fact says that a search for a character in the text (or its inside) found
// nothing: strings.IndexByte/Index/IndexAny/IndexRune(…) < 0 (or == -1), !strings.Contains…(…),
// strings.Count(…) == 2 on the whole text, or a whole-string validator of the package.
func noQuoteInside(cf condFact, derived map[ssa.Value]bool) bool {
	onText := func(c *ssa.Call) bool {
		return len(c.Call.Args) >= 1 && (derived[c.Call.Args[0]] || derived[unspill(c.Call.Args[0])])
	}
	stringsCall := func(v ssa.Value, names ...string) *ssa.Call {
		c, ok := v.(*ssa.Call)
		if !ok {
			return nil
		}
		g := c.Call.StaticCallee()
		if g == nil || g.Pkg == nil || g.Pkg.Pkg.Path() != "strings" {
			return nil
		}
		for _, n := range names {
			if g.Name() == n {
				return c
			}
		}
		return nil
	}
	switch x := cf.v.(type) {
	case *ssa.BinOp:
		if c := stringsCall(x.X, "IndexByte", "Index", "IndexAny", "IndexRune"); c != nil && onText(c) {
			if k, ok := x.Y.(*ssa.Const); ok && k.Value != nil {
				switch {
				case x.Op == token.LSS && k.Int64() == 0 && cf.truth, x.Op == token.EQL && k.Int64() == -1 && cf.truth,
					x.Op == token.GEQ && k.Int64() == 0 && !cf.truth, x.Op == token.NEQ && k.Int64() == -1 && !cf.truth:
					return true
				}
			}
		}
		if c := stringsCall(x.X, "Count"); c != nil && onText(c) {
			if k, ok := x.Y.(*ssa.Const); ok && k.Value != nil && x.Op == token.EQL && cf.truth && (k.Int64() == 2 || k.Int64() == 0) {
				return true
			}
		}
	case *ssa.Call:
		if c := stringsCall(x, "Contains", "ContainsAny", "ContainsRune"); c != nil && onText(c) && !cf.truth {
			return true
		}
		if g := x.Call.StaticCallee(); g != nil && isTwigFn(g) && cf.truth && len(x.Call.Args) > 0 {
			a := x.Call.Args[len(x.Call.Args)-1]
			if (derived[a] || derived[unspill(a)]) && wholeStringTest(g, 0) {
				return true
			}
		}
	}
	return false
}

// checkPrecedenceAskedOfWholeOperators — R08.22: the precedence table is asked about operators,
// not about words.  The table has entries for operators written as two words (`not in`,
// `starts with`, `ends with`, `is not`); the first word alone is not an entry and gets the lowest
// precedence.  Every call of the precedence function therefore passes a value that can be one of
// those two-word entries — the caller has joined the words — never just the text of one token.
func checkPrecedenceAskedOfWholeOperators(w *World, r *Report, precObj *types.Func) {
	precFn := w.ssaFunc(precObj)
	twoWord := map[string]bool{}
	var collectConsts func(fn *ssa.Function)
	collectConsts = func(fn *ssa.Function) {
		instrsOf(fn, func(in ssa.Instruction) {
			for _, op := range in.Operands(nil) {
				if *op == nil {
					continue
				}
				if cs, ok := constString(*op); ok && strings.Contains(strings.TrimSpace(cs), " ") {
					twoWord[cs] = true
				}
			}
		})
	}
	collectConsts(precFn)
	if len(twoWord) == 0 {
		// a table in a package-level map: its initialiser
		if init := precFn.Pkg.Func("init"); init != nil {
			usesGlobal := map[*ssa.Global]bool{}
			instrsOf(precFn, func(in ssa.Instruction) {
				for _, op := range in.Operands(nil) {
					if g, ok := (*op).(*ssa.Global); ok {
						usesGlobal[g] = true
					}
				}
			})
			instrsOf(init, func(in ssa.Instruction) {
				mu, ok := in.(*ssa.MapUpdate)
				if !ok {
					return
				}
				if ld, ok := mu.Map.(*ssa.UnOp); ok {
					if g, ok := ld.X.(*ssa.Global); ok && usesGlobal[g] {
						if cs, ok := constString(mu.Key); ok && strings.Contains(strings.TrimSpace(cs), " ") {
							twoWord[cs] = true
						}
					}
				}
			})
		}
	}
	if len(twoWord) == 0 {
		r.Counts["two-word entries of the precedence table"] = 0
		return
	}
	n := 0
	for _, fn := range w.pkgFuncs() {
		if fn == precFn {
			continue
		}
		instrsOf(fn, func(in ssa.Instruction) {
			c, ok := in.(*ssa.Call)
			if !ok || c.Call.StaticCallee() != precFn || len(c.Call.Args) == 0 {
				return
			}
			n++
			found := false
			seen := map[ssa.Value]bool{}
			var walk func(v ssa.Value, d int)
			walk = func(v ssa.Value, d int) {
				v = unspill(v)
				if v == nil || seen[v] || d > 10 || found {
					return
				}
				seen[v] = true
				switch x := v.(type) {
				case *ssa.Const:
					if cs, ok := constString(x); ok && twoWord[cs] {
						found = true
					}
				case *ssa.Phi:
					for _, e := range x.Edges {
						walk(e, d+1)
					}
				case *ssa.Extract:
					walk(x.Tuple, d+1)
				case *ssa.Call:
					if g := x.Call.StaticCallee(); g != nil && isTwigFn(g) && d < 6 {
						instrsOf(g, func(in2 ssa.Instruction) {
							if ret, ok := in2.(*ssa.Return); ok {
								for _, rv := range retResults(ret) {
									if b, ok := rv.Type().Underlying().(*types.Basic); ok && b.Kind() == types.String {
										walk(rv, d+3)
									}
								}
							}
						})
					}
				case *ssa.Parameter:
					// the caller's operator: examined at the callers
					if cvs, ok := callerValues(x, -1); ok {
						for _, cv := range cvs {
							walk(cv.val, d+3)
						}
					}
				case *ssa.BinOp:
					// joined words: first + " " + second
					if x.Op == token.ADD {
						found = true
					}
				}
			}
			walk(c.Call.Args[0], 0)
			construct := "precedence asked of a whole operator"
			if found {
				r.ok("R08.22", ssaName(fn), construct, w.posOf(c.Pos()), "the argument can be a two-word operator of the table: the words were joined first", true)
			} else {
				r.bad("R08.22", ssaName(fn), construct, w.posOf(c.Pos()), "the argument is never one of the table's two-word operators "+fmt.Sprint(sortedKeys(twoWord))+": for `not in`, `starts with`, `ends with` the table is asked about the first word, answers 'lowest', and the operator binds weaker than `and` / `or` — `a and b starts with c` groups as (a and b) starts with c")
			}
		})
	}
	r.floor("calls of the precedence function", n, 1)
}
