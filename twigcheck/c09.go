package main

// C09 — if, for and set have their defined control-flow meaning.
//
// R09.1 exactly one branch of an if chain: in IfNode.Render no path evaluates a further condition
//       or renders the else branch after a condition was found truthy; a body is rendered only on
//       the truthy edge of its own condition (same index); the else branch only after the loop.
// R09.2 else-branch iff nothing iterated: in the for-loop renderer no path renders both the else
//       branch and a body; a body is rendered only on the non-zero edge of the length test; the
//       else branch only on a "nothing to iterate" edge.
// R09.3 loop variables are scoped: every binding of `loop`, the value variable and the key
//       variable made on the caller's own context is dominated by a shadow call whose restoring
//       closure is deferred (or the body renders in a cloned context).
// R09.4 ordinal != byte offset: the key of `range <string>` never flows into loop metadata or
//       variables; the loop length of a string is a rune count (shared with C19: R19.1).
// R09.5 set writes the caller-visible scope: SetNode.Render binds its name on its own ctx
//       parameter to the evaluated value, only when evaluation succeeded.

import (
	"fmt"
	"go/ast"
	"go/token"
	"go/types"
	"sort"
	"strings"

	"golang.org/x/tools/go/ssa"
)

func init() { register("C09", checkC09) }

// originField walks a value back to the struct field it was read from:
// n.body[i], range over n.elseBranch, n.bodies[i][j] … → ("ForNode","body") etc.
func originField(v ssa.Value, depth int) (string, string) {
	if depth > 10 {
		return "", ""
	}
	switch x := v.(type) {
	case *ssa.UnOp:
		if fa, ok := x.X.(*ssa.FieldAddr); ok {
			return fieldOfAddr(fa)
		}
		return originField(x.X, depth+1)
	case *ssa.IndexAddr:
		return originField(x.X, depth+1)
	case *ssa.Index:
		return originField(x.X, depth+1)
	case *ssa.Extract:
		return originField(x.Tuple, depth+1)
	case *ssa.Next:
		return originField(x.Iter, depth+1)
	case *ssa.Range:
		return originField(x.X, depth+1)
	case *ssa.Lookup:
		return originField(x.X, depth+1)
	case *ssa.Phi:
		for _, e := range x.Edges {
			if t, f := originField(e, depth+1); f != "" {
				return t, f
			}
		}
	case *ssa.Slice:
		return originField(x.X, depth+1)
	case *ssa.FieldAddr:
		return fieldOfAddr(x)
	}
	return "", ""
}

// originParam: like originField, but for values that come from a parameter of the function.
func originParam(v ssa.Value, depth int) *ssa.Parameter {
	if depth > 10 {
		return nil
	}
	switch x := v.(type) {
	case *ssa.Parameter:
		return x
	case *ssa.UnOp:
		if u := unspill(x); u != ssa.Value(x) {
			return originParam(u, depth+1)
		}
		if _, ok := x.X.(*ssa.FieldAddr); ok {
			return nil
		}
		return originParam(x.X, depth+1)
	case *ssa.IndexAddr:
		return originParam(x.X, depth+1)
	case *ssa.Index:
		return originParam(x.X, depth+1)
	case *ssa.Extract:
		return originParam(x.Tuple, depth+1)
	case *ssa.Next:
		return originParam(x.Iter, depth+1)
	case *ssa.Range:
		return originParam(x.X, depth+1)
	case *ssa.Phi:
		for _, e := range x.Edges {
			if p := originParam(e, depth+1); p != nil {
				return p
			}
		}
	case *ssa.Slice:
		return originParam(x.X, depth+1)
	}
	return nil
}

type fieldRef struct{ typ, field string }

// renderSummary: what a package function renders — fields of nodes (read through its receiver or
// anything else) and parameters holding nodes / node lists — directly or through callees.
type renderSummary struct {
	fields []fieldRef
	params []int
}

var renderSummaries = map[*ssa.Function]*renderSummary{}

func summariseRenders(g *ssa.Function, depth int) *renderSummary {
	if s, ok := renderSummaries[g]; ok {
		return s
	}
	s := &renderSummary{}
	renderSummaries[g] = s // cuts recursion
	if depth > 3 || len(g.Blocks) == 0 {
		return s
	}
	addField := func(t, f string) {
		for _, x := range s.fields {
			if x.typ == t && x.field == f {
				return
			}
		}
		s.fields = append(s.fields, fieldRef{t, f})
	}
	addParam := func(p *ssa.Parameter) {
		for i, gp := range g.Params {
			if gp == p {
				for _, x := range s.params {
					if x == i {
						return
					}
				}
				s.params = append(s.params, i)
			}
		}
	}
	instrsOf(g, func(in ssa.Instruction) {
		c, ok := in.(ssa.CallInstruction)
		if !ok {
			return
		}
		cc := c.Common()
		if cc.IsInvoke() {
			if cc.Method.Name() != "Render" || !isNamed(cc.Value.Type(), twigPath, "Node") {
				return
			}
			if t, f := originField(cc.Value, 0); f != "" {
				addField(t, f)
			} else if p := originParam(cc.Value, 0); p != nil {
				addParam(p)
			}
			return
		}
		h := cc.StaticCallee()
		if h == nil || !isTwigFn(h) || h == g {
			return
		}
		hs := summariseRenders(h, depth+1)
		for _, fr := range hs.fields {
			addField(fr.typ, fr.field)
		}
		for _, pi := range hs.params {
			if pi >= len(cc.Args) {
				continue
			}
			if t, f := originField(cc.Args[pi], 0); f != "" {
				addField(t, f)
			} else if p := originParam(cc.Args[pi], 0); p != nil {
				addParam(p)
			}
		}
	})
	return s
}

// rendersOf: the node fields rendered by the instruction: an invoke of Node.Render on a value
// read from a field, or a call of a package function that renders fields / the node lists it is
// handed (renderNodes(w, ctx, n.body), n.renderElse(w, ctx)).
func rendersOf(in ssa.Instruction) []fieldRef {
	c, ok := in.(ssa.CallInstruction)
	if !ok {
		return nil
	}
	cc := c.Common()
	if cc.IsInvoke() {
		if cc.Method.Name() != "Render" || !isNamed(cc.Value.Type(), twigPath, "Node") {
			return nil
		}
		t, f := originField(cc.Value, 0)
		return []fieldRef{{t, f}}
	}
	h := cc.StaticCallee()
	if h == nil || !isTwigFn(h) {
		return nil
	}
	// Render methods of nodes are the renderers themselves, not helpers of the caller
	if h.Name() == "Render" {
		return nil
	}
	hs := summariseRenders(h, 0)
	var out []fieldRef
	out = append(out, hs.fields...)
	for _, pi := range hs.params {
		if pi < len(cc.Args) {
			if t, f := originField(cc.Args[pi], 0); f != "" {
				out = append(out, fieldRef{t, f})
			}
		}
	}
	return out
}

// renderOf: if in is an invoke of Node.Render, the origin field of its receiver.
func renderOf(in ssa.Instruction) (string, string, bool) {
	c, ok := in.(ssa.CallInstruction)
	if !ok || !c.Common().IsInvoke() || c.Common().Method.Name() != "Render" || !isNamed(c.Common().Value.Type(), twigPath, "Node") {
		return "", "", false
	}
	t, f := originField(c.Common().Value, 0)
	return t, f, true
}

// branchRendersOf: rendersOf restricted to one node type, leaving out calls of functions that
// render more than one of that node's fields — those contain the branch decision themselves and
// are checked in their own right, not as a render site of the caller.
func branchRendersOf(in ssa.Instruction, typ string) []fieldRef {
	var out []fieldRef
	seen := map[string]bool{}
	for _, fr := range rendersOf(in) {
		if fr.typ == typ && !seen[fr.field] {
			seen[fr.field] = true
			out = append(out, fr)
		}
	}
	if c, ok := in.(ssa.CallInstruction); ok && !c.Common().IsInvoke() && len(out) > 1 {
		return nil
	}
	return out
}

func checkC09(w *World, r *Report) {
	r.Explanation = "Decides the control-flow clauses of C09 that are visible in the shape of the renderers, on every path: (R09.1) IfNode.Render renders the body of the first truthy condition and returns — no later condition is evaluated and no else branch rendered after a truthy condition, a body is rendered only on the truthy edge of the condition with the same index, and the else branch is reachable only when no condition was truthy; (R09.2) the for renderer never renders both else branch and body, renders a body only where the length is known non-zero, and the else branch only on a nothing-to-iterate edge; (R09.3) every binding of loop / value / key variables on the caller's own context is preceded by a shadow call whose restoring closure is deferred, so nested loops keep their own counters and the variables do not leak; (R09.4) the byte offset produced by ranging over a string never flows into loop metadata, and a string's loop length is its rune count; (R09.5) SetNode.Render binds its name on the caller's own context to the evaluated value, only after successful evaluation. (R09.6/R09.7) the truthiness routines test every numeric zero and have an arm for every falsy kind; (R09.8) if a lookup can answer from a memo field, every writer of the variable map refreshes it; (R09.9) the if node receives the condition and body lists exactly as parsed. Not decided: the counter formulas (index, revindex, …), truthiness table values, range construction — value-level. (R09.10) in every function that evaluates conditions of an if chain, between two such evaluations every path takes the falsy edge of a truthiness test."
	r.Explanation += " Rules added in later rounds: (R09.11) SetVariable binds on every path; (R09.12) no variable is removed on render paths; (R09.13) `loop` is bound on every path to every render of a for body; (R09.14) the attribute name of a GetAttr node is compared with constants only under a dominating key lookup. (R09.15) the loop renderer is never handed a constant nil sequence; (R09.16) list/hash literals evaluate to containers allocated by that evaluation; (R09.5) set binds through SetVariable on its own context. (R09.17) the else branch is not reachable from a binding of `loop`."
	r.Explanation += " Round 9: (R09.18) tag headers reach the expression tokenizer as pieces of the source."
	r.RuleText = "obligation = one path property of a renderer; non-trivial = all"
	r.Trusted = []string{"field-of-origin classification of the rendered node slices (conditions/bodies/elseBranch/body)"}

	checkIfNode(w, r)
	checkForElse(w, r)
	checkLoopScope(w, r)
	n := checkStringUnits(w, r, "R09.4", true)
	r.Counts["string-iteration sites in the for renderer"] = n
	checkSetNode(w, r)
	// R09.6: the truthiness routines
	nz := checkZeroTests(w, r, "R09.6", func(f *types.Func) bool { return strings.EqualFold(f.Name(), "tobool") }, "treated as truthy although the property lists 0 as falsy")
	r.Counts["zero tests in truthiness routines"] = nz
	nTruth := 0
	for f := range w.decls {
		if strings.EqualFold(f.Name(), "tobool") {
			nTruth++
		}
	}
	r.floor("truthiness routines (toBool)", nTruth, 1)
	checkTruthinessCoverage(w, r)
	checkLookupCoherence(w, r)
	checkIfBranchesKept(w, r)
	checkExpressionTextIsSource(w, r, "R09.18")
}

func checkIfNode(w *World, r *Report) {
	fn := w.ssaFunc(w.method("IfNode", "Render"))
	evalM := w.method("RenderContext", "EvaluateExpression")
	toBool := w.method("RenderContext", "toBool")
	name := ssaName(fn)
	// a helper that is handed one condition of the chain, evaluates it and answers with its
	// truth value: (bool, …) where the bool is toBool(…) — or false beside an error — on every return
	condHelper := func(c *ssa.Call) (int, bool) {
		g := c.Call.StaticCallee()
		if g == nil || !isTwigFn(g) || len(g.Blocks) == 0 || calleeFunc(c) == evalM {
			return 0, false
		}
		takesCond := false
		for _, a := range c.Call.Args {
			if _, f := originField(a, 0); f == "conditions" {
				takesCond = true
			}
		}
		if !takesCond {
			return 0, false
		}
		res := g.Signature.Results()
		for i := 0; i < res.Len(); i++ {
			if b, ok := res.At(i).Type().Underlying().(*types.Basic); !ok || b.Kind() != types.Bool {
				continue
			}
			all, nret := true, 0
			instrsOf(g, func(in ssa.Instruction) {
				ret, ok := in.(*ssa.Return)
				if !ok {
					return
				}
				nret++
				rv := unspill(retResults(ret)[i])
				var okv func(v ssa.Value, d int) bool
				okv = func(v ssa.Value, d int) bool {
					v = unspill(v)
					if d > 4 {
						return false
					}
					if isConstBool(v, false) {
						return true
					}
					if tc, ok := v.(*ssa.Call); ok && calleeFunc(tc) == toBool {
						return true
					}
					if ph, ok := v.(*ssa.Phi); ok {
						for _, e := range ph.Edges {
							if !okv(e, d+1) {
								return false
							}
						}
						return true
					}
					return false
				}
				if !okv(rv, 0) {
					all = false
				}
			})
			if all && nret > 0 {
				return i, true
			}
		}
		return 0, false
	}
	isToBool := func(v ssa.Value) bool {
		if c, ok := v.(*ssa.Call); ok && calleeFunc(c) == toBool {
			return true
		}
		if ex, ok := v.(*ssa.Extract); ok {
			if c, ok := ex.Tuple.(*ssa.Call); ok {
				if i, ok := condHelper(c); ok && i == ex.Index {
					return true
				}
			}
		}
		return false
	}
	type st struct {
		b    *ssa.BasicBlock
		took bool
	}
	var vCondAfter, vElseAfter, vBodyWithout string
	nBody, nElse, nCond := 0, 0, 0
	seen := map[st]bool{}
	var dfs func(s st)
	dfs = func(s st) {
		if seen[s] {
			return
		}
		seen[s] = true
		for _, in := range s.b.Instrs {
			if c, ok := in.(*ssa.Call); ok && calleeFunc(c) == evalM {
				if _, f := originField(callArgs(c)[0], 0); f == "conditions" {
					nCond++
					if s.took && vCondAfter == "" {
						vCondAfter = w.posOf(in.Pos())
					}
				}
			} else if c, ok := in.(*ssa.Call); ok {
				if _, isHelper := condHelper(c); isHelper {
					nCond++
					if s.took && vCondAfter == "" {
						vCondAfter = w.posOf(in.Pos())
					}
				}
			}
			for _, fr := range branchRendersOf(in, "IfNode") {
				switch fr.field {
				case "bodies":
					nBody++
					if !s.took && vBodyWithout == "" {
						vBodyWithout = w.posOf(in.Pos())
					}
				case "elseBranch":
					nElse++
					if s.took && vElseAfter == "" {
						vElseAfter = w.posOf(in.Pos())
					}
				}
			}
		}
		v, trueIdx, ok := ifCond(s.b)
		for i, succ := range s.b.Succs {
			n := st{succ, s.took}
			if ok && isToBool(v) && i == trueIdx {
				n.took = true
			}
			dfs(n)
		}
	}
	dfs(st{fn.Blocks[0], false})
	if nBody == 0 || nElse == 0 || nCond == 0 {
		cannotDecide("R09.1: IfNode.Render sites not found (cond=%d body=%d else=%d)", nCond, nBody, nElse)
	}
	rep := func(construct, viol, okWhy, badWhy string) {
		if viol == "" {
			r.ok("R09.1", name, construct, w.posOf(fn.Pos()), okWhy, true)
		} else {
			r.bad("R09.1", name, construct, viol, badWhy)
		}
	}
	rep("no condition is evaluated after a truthy one", vCondAfter, "every path that took the truthy edge of a condition returns without reaching another condition evaluation", "after a condition was found truthy a later condition can still be evaluated: more than one branch of the chain may render")
	rep("else branch only when no condition was truthy", vElseAfter, "the else branch is unreachable once a truthy edge was taken", "the else branch can be rendered although a condition was truthy")
	rep("a body is rendered only under its truthy condition", vBodyWithout, "every body render follows the truthy edge of a condition test", "a body of the chain can be rendered without its condition having been found truthy")

	// R09.10: wherever conditions of an if chain are evaluated — the renderer, a tracing or
	// pre-check helper — condition k+1 is evaluated only after condition k was found falsy: on
	// every path between two evaluations lies the falsy edge of a truthiness test.  (Evaluating
	// the rest of the chain "to log it" runs expressions the template guarded with the earlier
	// conditions: `{% if xs is empty %}…{% elseif xs[0] %}` fails instead of rendering.)
	nEvalFns := 0
	for _, g := range w.pkgFuncs() {
		isCondEval := func(in ssa.Instruction) bool {
			c, ok := in.(*ssa.Call)
			if !ok || calleeFunc(c) != evalM || len(callArgs(c)) == 0 {
				return false
			}
			tn, f := originField(callArgs(c)[0], 0)
			return tn == "IfNode" && f == "conditions"
		}
		has := false
		instrsOf(g, func(in ssa.Instruction) {
			if isCondEval(in) {
				has = true
			}
		})
		if !has {
			continue
		}
		nEvalFns++
		type pst struct {
			b       *ssa.BasicBlock
			pending bool
		}
		seenP := map[pst]bool{}
		viol := ""
		var walk func(s pst)
		walk = func(s pst) {
			if seenP[s] || viol != "" {
				return
			}
			seenP[s] = true
			pending := s.pending
			for _, in := range s.b.Instrs {
				if isCondEval(in) {
					if pending {
						viol = w.posOf(in.Pos())
						return
					}
					pending = true
				}
			}
			v, trueIdx, ok := ifCond(s.b)
			for i, succ := range s.b.Succs {
				np := pending
				if ok && isToBool(v) && i != trueIdx {
					np = false
				}
				walk(pst{succ, np})
			}
		}
		walk(pst{g.Blocks[0], false})
		construct := "a condition is evaluated only after the previous one was found falsy"
		if viol == "" {
			r.ok("R09.10", ssaName(g), construct, w.posOf(g.Pos()), "between two evaluations of chain conditions every path takes the falsy edge of a truthiness test", true)
		} else {
			r.bad("R09.10", ssaName(g), construct, viol, "a condition of the if/elseif chain can be evaluated although the previous one was not found falsy (no truthiness test between the two evaluations): expressions the template guards with an earlier condition are run anyway, and their failure replaces the branch that should have rendered")
		}
	}
	r.Counts["functions evaluating if-chain conditions"] = nEvalFns

	// same index for conditions[i] and bodies[i]
	var condIdx, bodyIdx ssa.Value
	instrsOf(fn, func(in ssa.Instruction) {
		ia, ok := in.(*ssa.IndexAddr)
		if !ok {
			return
		}
		if _, f := originField(ia.X, 0); f != "" {
			if u, ok := ia.X.(*ssa.UnOp); ok {
				if fa, ok := u.X.(*ssa.FieldAddr); ok {
					_, ff := fieldOfAddr(fa)
					switch ff {
					case "conditions":
						condIdx = ia.Index
					case "bodies":
						bodyIdx = ia.Index
					}
				}
			}
		}
	})
	construct := "bodies[i] is indexed with the index of the condition just tested"
	if condIdx != nil && bodyIdx != nil && condIdx == bodyIdx {
		r.ok("R09.1", name, construct, w.posOf(fn.Pos()), "same SSA index value", true)
	} else {
		r.bad("R09.1", name, construct, w.posOf(fn.Pos()), "the body rendered for a truthy condition is not selected by that condition's own index")
	}
}

func checkForElse(w *World, r *Report) {
	n := 0
	for _, fn := range w.pkgFuncs() {
		if fn.Signature.Recv() == nil || !isNamed(fn.Signature.Recv().Type(), twigPath, "ForNode") {
			continue
		}
		var bodies, elses []ssa.Instruction
		instrsOf(fn, func(in ssa.Instruction) {
			for _, fr := range branchRendersOf(in, "ForNode") {
				if fr.field == "body" {
					bodies = append(bodies, in)
				} else if fr.field == "elseBranch" {
					elses = append(elses, in)
				}
			}
		})
		if len(bodies) == 0 || len(elses) == 0 {
			continue
		}
		n++
		name := ssaName(fn)
		// (a) no path from an else render to a body render
		reachFrom := func(start ssa.Instruction) map[*ssa.BasicBlock]bool {
			seen := map[*ssa.BasicBlock]bool{}
			var walk func(b *ssa.BasicBlock)
			walk = func(b *ssa.BasicBlock) {
				if seen[b] {
					return
				}
				seen[b] = true
				for _, s := range b.Succs {
					walk(s)
				}
			}
			for _, s := range start.Block().Succs {
				walk(s)
			}
			return seen
		}
		both := ""
		for _, e := range elses {
			rf := reachFrom(e)
			for _, b := range bodies {
				if rf[b.Block()] {
					// a loop that renders several else nodes reaches its own block again; a
					// body render in another block is what matters
					if b.Block() != e.Block() {
						both = w.posOf(b.Pos())
					}
				}
			}
		}
		if both == "" {
			r.ok("R09.2", name, "else branch and body are never both rendered", w.posOf(fn.Pos()), "no path leads from an else-branch render to a body render", true)
		} else {
			r.bad("R09.2", name, "else branch and body are never both rendered", both, "after rendering the else branch the function can still reach a body render")
		}
		// (b) body only where length != 0 ; (c) else only where nothing iterates
		nonZeroEdge := func(b *ssa.BasicBlock, i int) bool {
			return anyEdgeFact(b, i, func(v ssa.Value, trueIdx int) bool {
				bo, ok := v.(*ssa.BinOp)
				if !ok {
					return false
				}
				if c, ok := bo.Y.(*ssa.Const); ok && c.Value != nil && c.Value.ExactString() == "0" {
					if bt, ok := bo.X.Type().Underlying().(*types.Basic); ok && bt.Info()&types.IsInteger != 0 {
						switch bo.Op {
						case token.EQL:
							return i != trueIdx
						case token.NEQ, token.GTR:
							return i == trueIdx
						}
					}
				}
				return false
			})
		}
		nothingEdge := func(b *ssa.BasicBlock, i int) bool {
			return anyEdgeFact(b, i, func(v ssa.Value, trueIdx int) bool {
				if bo, ok := v.(*ssa.BinOp); ok {
					if c, ok := bo.Y.(*ssa.Const); ok {
						if c.Value != nil && c.Value.ExactString() == "0" && bo.Op == token.EQL {
							return i == trueIdx // length == 0
						}
						if c.Value == nil && bo.Op == token.EQL {
							return i == trueIdx // seq == nil
						}
					}
				}
				if _, isPhi := v.(*ssa.Phi); isPhi && types.Identical(v.Type().Underlying(), types.Typ[types.Bool]) {
					return i != trueIdx // !isIterable
				}
				return false
			})
		}
		for _, b := range bodies {
			if bad, path := existsPathAvoiding(fn, b, nil, nonZeroEdge); bad {
				r.bad("R09.2", name, "body rendered only for a non-empty sequence", w.posOf(b.Pos()), "a path reaches a body render without passing the non-zero edge of a length test: "+strings.Join(path, " → "))
			} else {
				r.ok("R09.2", name, "body rendered only for a non-empty sequence", w.posOf(b.Pos()), "every path crosses the non-zero edge of a length test", true)
			}
		}
		// measurements of the sequence: once its length has been taken (an iterable arm), the else
		// branch may only follow a zero-length / nil / not-iterable edge; an arm that measures
		// nothing (the value is not iterable at all) may render the else branch directly
		var measures []ssa.Instruction
		instrsOf(fn, func(in ssa.Instruction) {
			c, ok := in.(*ssa.Call)
			if !ok || !in.Pos().IsValid() {
				return // the implicit len of a range loop has no position
			}
			if b, ok := c.Call.Value.(*ssa.Builtin); ok && b.Name() == "len" {
				// lengths of the node's own lists are not measurements of the sequence
				if _, f := originField(c.Call.Args[0], 0); f == "" {
					measures = append(measures, in)
				}
				return
			}
			if f := calleeFunc(c); f != nil {
				switch f.FullName() {
				case "(reflect.Value).Len", "unicode/utf8.RuneCountInString", "unicode/utf8.RuneCount":
					measures = append(measures, in)
				}
			}
		})
		reachesAvoiding := func(from ssa.Instruction, target ssa.Instruction) bool {
			seen := map[*ssa.BasicBlock]bool{}
			var walk func(b *ssa.BasicBlock) bool
			walk = func(b *ssa.BasicBlock) bool {
				if seen[b] {
					return false
				}
				seen[b] = true
				if b == target.Block() {
					return true
				}
				for i, sc := range b.Succs {
					if nothingEdge(b, i) {
						continue
					}
					if walk(sc) {
						return true
					}
				}
				return false
			}
			if from.Block() == target.Block() {
				return instrIndex(from) < instrIndex(target)
			}
			for i, sc := range from.Block().Succs {
				if nothingEdge(from.Block(), i) {
					continue
				}
				if walk(sc) {
					return true
				}
			}
			return false
		}
		for _, e := range elses {
			bad := ""
			for _, m := range measures {
				if reachesAvoiding(m, e) {
					bad = w.posOf(m.Pos())
					break
				}
			}
			if bad != "" {
				r.bad("R09.2", name, "else branch rendered only when nothing iterates", w.posOf(e.Pos()), "after the sequence was measured at "+bad+" a path reaches the else-branch render without a nil / not-iterable / zero-length edge")
			} else {
				r.ok("R09.2", name, "else branch rendered only when nothing iterates", w.posOf(e.Pos()), "every path from a measurement of the sequence to the else branch crosses a nil / not-iterable / zero-length edge", true)
			}
		}
	}
	r.floor("for-loop renderers with body and else branch", n, 1)
}

// shadowHelpers: methods of RenderContext that return a closure which writes back / deletes an
// entry of the receiver's context map under the name parameter.
func (w *World) shadowHelpers() map[*ssa.Function]bool {
	out := map[*ssa.Function]bool{}
	for _, fn := range w.pkgFuncs() {
		if fn.Signature.Recv() == nil || !isNamed(fn.Signature.Recv().Type(), twigPath, "RenderContext") || len(fn.Params) != 2 {
			continue
		}
		// reads the current binding
		reads := false
		instrsOf(fn, func(in ssa.Instruction) {
			if lk, ok := in.(*ssa.Lookup); ok && lk.CommaOk {
				if base, ok := fieldLoad(lk.X, "RenderContext", "context"); ok && unspill(base) == ssa.Value(fn.Params[0]) {
					reads = true
				}
			}
		})
		if !reads {
			continue
		}
		restores := false
		for _, a := range fn.AnonFuncs {
			upd, del := false, false
			instrsOf(a, func(in ssa.Instruction) {
				if mu, ok := in.(*ssa.MapUpdate); ok {
					if _, ok := fieldLoad(mu.Map, "RenderContext", "context"); ok {
						upd = true
					}
				}
				if c, ok := in.(*ssa.Call); ok {
					if b, ok := c.Call.Value.(*ssa.Builtin); ok && b.Name() == "delete" {
						if _, ok := fieldLoad(c.Call.Args[0], "RenderContext", "context"); ok {
							del = true
						}
					}
				}
			})
			if upd && del {
				restores = true
			}
		}
		// … or returns a value of a struct type one of whose methods is the restorer
		if !restores && fn.Signature.Results().Len() == 1 {
			if w.restorerMethodOf(fn.Signature.Results().At(0).Type()) != nil {
				restores = true
			}
		}
		// … or returns the restorer as a method value (`return s.restore`)
		if !restores {
			instrsOf(fn, func(in ssa.Instruction) {
				mc, ok := in.(*ssa.MakeClosure)
				if !ok || len(mc.Bindings) != 1 {
					return
				}
				bf, ok := mc.Fn.(*ssa.Function)
				if !ok || bf.Synthetic == "" {
					return
				}
				if m, ok := bf.Object().(*types.Func); ok && m != nil {
					if w.restorerMethodOf(mc.Bindings[0].Type()) == w.ssaFunc(m) {
						restores = true
					}
				}
			})
		}
		if restores {
			out[fn] = true
		}
	}
	return out
}

// restorerMethodOf: a method of the (struct) type that writes and deletes entries of the variable
// map of a RenderContext held in the receiver — the restoring half of a shadow helper.
func (w *World) restorerMethodOf(t types.Type) *ssa.Function {
	n, ok := deref(t).(*types.Named)
	if !ok || n.Obj().Pkg() == nil || n.Obj().Pkg().Path() != twigPath {
		return nil
	}
	if _, isSt := n.Underlying().(*types.Struct); !isSt {
		return nil
	}
	for _, fn := range w.pkgFuncs() {
		rv := fn.Signature.Recv()
		if rv == nil || !types.Identical(deref(rv.Type()), n) {
			continue
		}
		upd, del := false, false
		instrsOf(fn, func(in ssa.Instruction) {
			if mu, ok := in.(*ssa.MapUpdate); ok {
				if _, ok := fieldLoad(mu.Map, "RenderContext", "context"); ok {
					upd = true
				}
			}
			if c, ok := in.(*ssa.Call); ok {
				if b, ok := c.Call.Value.(*ssa.Builtin); ok && b.Name() == "delete" {
					if _, ok := fieldLoad(c.Call.Args[0], "RenderContext", "context"); ok {
						del = true
					}
				}
			}
		})
		if upd && del {
			return fn
		}
	}
	return nil
}

// shadowCallOfDefer: the call of a shadow helper whose restoring half the defer runs:
// `defer ctx.shadow(name)()`, `r := ctx.shadow(name); defer r()`, or
// `s := ctx.shadow(name); defer s.restore()`.
func (w *World) shadowCallOfDefer(d *ssa.Defer, helpers map[*ssa.Function]bool) *ssa.Call {
	if c, ok := unspill(d.Call.Value).(*ssa.Call); ok {
		if f := c.Call.StaticCallee(); f != nil && helpers[f] && len(c.Call.Args) == 2 {
			return c
		}
	}
	if m := d.Call.StaticCallee(); m != nil && len(d.Call.Args) >= 1 {
		if w.restorerMethodOf(d.Call.Args[0].Type()) == m {
			recv := unspill(d.Call.Args[0])
			if u, ok := recv.(*ssa.UnOp); ok {
				// *(&local) of an address-taken struct local
				recv = unspill(u)
			}
			if c, ok := recv.(*ssa.Call); ok {
				if f := c.Call.StaticCallee(); f != nil && helpers[f] && len(c.Call.Args) == 2 {
					return c
				}
			}
		}
	}
	return nil
}

func checkLoopScope(w *World, r *Report) {
	setVar := w.method("RenderContext", "SetVariable")
	ctors := w.ctxConstructors()
	helpers := w.shadowHelpers()
	n := 0
	// the for renderer and its parts: methods of ForNode and the unexported functions they reach
	// through static calls (a loop-state struct with advance/renderBody methods, helpers)
	forParts := map[*ssa.Function]bool{}
	var frontier []*ssa.Function
	for _, fn := range w.pkgFuncs() {
		if fn.Signature.Recv() != nil && isNamed(fn.Signature.Recv().Type(), twigPath, "ForNode") {
			forParts[fn] = true
			frontier = append(frontier, fn)
		}
	}
	for depth := 0; depth < 3; depth++ {
		var next []*ssa.Function
		for _, f := range frontier {
			instrsOf(f, func(in ssa.Instruction) {
				if c, ok := in.(ssa.CallInstruction); ok {
					g := c.Common().StaticCallee()
					if g != nil && isTwigFn(g) && !forParts[g] && len(g.Blocks) > 0 && g.Object() != nil && !g.Object().Exported() && g.Signature.Recv() != nil && !isNamed(g.Signature.Recv().Type(), twigPath, "RenderContext") {
						forParts[g] = true
						next = append(next, g)
					}
				}
			})
		}
		frontier = next
	}
	reaches := func(from, to *ssa.Function) bool {
		seen := map[*ssa.Function]bool{}
		var walk func(f *ssa.Function, d int) bool
		walk = func(f *ssa.Function, d int) bool {
			if f == to {
				return true
			}
			if seen[f] || d > 3 {
				return false
			}
			seen[f] = true
			found := false
			instrsOf(f, func(in ssa.Instruction) {
				if c, ok := in.(ssa.CallInstruction); ok && !found {
					if g := c.Common().StaticCallee(); g != nil && forParts[g] {
						found = walk(g, d+1)
					}
				}
			})
			return found
		}
		return walk(from, 0)
	}
	for _, fn := range w.pkgFuncs() {
		if !forParts[fn] {
			continue
		}
		type site struct {
			in   ssa.Instruction
			recv ssa.Value
			name ssa.Value
			what string
		}
		var sites []site
		instrsOf(fn, func(in ssa.Instruction) {
			c, ok := in.(*ssa.Call)
			if !ok || calleeFunc(c) != setVar {
				return
			}
			recv := callRecv(c)
			args := callArgs(c)
			what := ""
			if s, ok := constString(args[0]); ok && s == "loop" {
				what = `"loop"`
			} else if _, f := originField(args[0], 0); f == "valueVar" || f == "keyVar" {
				what = "n." + f
			}
			if what != "" {
				sites = append(sites, site{in, recv, args[0], what})
			}
		})
		for _, s := range sites {
			n++
			construct := "binding of " + s.what + " is scoped to the loop"
			pos := w.posOf(s.in.Pos())
			// (A) the context is a fresh child
			if leaves, bad := ctxLeaves(s.recv, nil, ctors); bad == "" && len(leaves) > 0 {
				r.ok("R09.3", ssaName(fn), construct, pos, "bound in a child context ("+strings.Join(leaves, "/")+")", true)
				continue
			}
			// (B) every feasible path passes a deferred shadow of the same name on the same context
			isShadowDefer := func(in ssa.Instruction) bool {
				d, ok := in.(*ssa.Defer)
				if !ok {
					return false
				}
				if c := w.shadowCallOfDefer(d, helpers); c != nil {
					return c.Call.Args[0] == s.recv && sameNameValue(c.Call.Args[1], s.name)
				}
				return false
			}
			// (C) the context travels in a field of a loop-state value: the shadow is looked for in
			// the function the context comes from, before every call that leads here
			shadowedAtOrigin := func() bool {
				// the first value along the origin chain that lives in another part of the for
				// renderer which defers a shadow of this context
				var v ssa.Value
				var f *ssa.Function
				for _, cand := range originChain(s.recv)[1:] {
					var cf *ssa.Function
					switch x := cand.(type) {
					case *ssa.Parameter:
						cf = x.Parent()
					case ssa.Instruction:
						cf = x.Parent()
					}
					if cf == nil || cf == fn || !forParts[cf] {
						continue
					}
					hasDefer := false
					instrsOf(cf, func(in ssa.Instruction) {
						if d, ok := in.(*ssa.Defer); ok {
							if c := w.shadowCallOfDefer(d, helpers); c != nil && sameValue(c.Call.Args[0], cand) {
								hasDefer = true
							}
						}
					})
					if hasDefer {
						v, f = cand, cf
						break
					}
				}
				if f == nil {
					return false
				}
				nt, nf := originField(s.name, 0)
				nameConst, nameIsConst := constString(s.name)
				isDefer := func(in ssa.Instruction) bool {
					d, ok := in.(*ssa.Defer)
					if !ok {
						return false
					}
					c := w.shadowCallOfDefer(d, helpers)
					if c == nil || !sameValue(c.Call.Args[0], v) {
						return false
					}
					if nameIsConst {
						sv, ok := constString(c.Call.Args[1])
						return ok && sv == nameConst
					}
					t2, f2 := originField(c.Call.Args[1], 0)
					return f2 != "" && t2 == nt && f2 == nf
				}
				nSites, okAll := 0, true
				instrsOf(f, func(in ssa.Instruction) {
					c, ok := in.(ssa.CallInstruction)
					if !ok || !okAll {
						return
					}
					if _, isDefer := in.(*ssa.Defer); isDefer {
						return
					}
					g := c.Common().StaticCallee()
					if g == nil || !forParts[g] || !reaches(g, fn) {
						return
					}
					nSites++
					// the tests of node fields that control the binding (n.keyVar != "") hold in
					// the caller as well: helper and caller read the same node
					type assumption struct {
						f  fieldRef
						c  string
						eq bool
					}
					var assume []assumption
					bb := s.in.Block()
					for d := bb.Idom(); d != nil; d = d.Idom() {
						fr, ck, eqIdx, ok := fieldTest(d)
						if !ok {
							continue
						}
						for i, sc := range d.Succs {
							other := d.Succs[1-i]
							if (sc == bb || sc.Dominates(bb)) && !(other == bb || other.Dominates(bb)) && len(sc.Preds) == 1 {
								assume = append(assume, assumption{fr, ck, i == eqIdx})
							}
						}
					}
					infeasible := func(b *ssa.BasicBlock, i int) bool {
						fr, ck, eqIdx, ok := fieldTest(b)
						if !ok {
							return false
						}
						for _, a := range assume {
							if a.f == fr && a.c == ck && (i == eqIdx) != a.eq {
								return true
							}
						}
						return false
					}
					if bad, _ := existsPathAvoiding(f, in, isDefer, infeasible); bad {
						okAll = false
					}
				})
				return okAll && nSites > 0
			}
			if bad, path := existsPathAvoiding(fn, s.in, isShadowDefer, nil); !bad {
				r.ok("R09.3", ssaName(fn), construct, pos, "every feasible path first defers the restore of the previous binding of the same name on the same context", true)
			} else if shadowedAtOrigin() {
				r.ok("R09.3", ssaName(fn), construct, pos, "the context travels in a loop-state value; where it comes from, every path to a call that leads here first defers the restore of the previous binding", true)
			} else if w.shadowedByCallersAt(fn, s.in, s.recv, s.name, helpers, 0) {
				r.ok("R09.3", ssaName(fn), construct, pos, "the binding sits in a helper; at each of its call sites every feasible path first defers the restore of the previous binding of the same name on the context passed", true)
			} else {
				r.bad("R09.3", ssaName(fn), construct, pos, "the loop binds "+s.what+" in the caller's own context without saving and restoring the previous binding (path "+strings.Join(path, " → ")+"): after an inner loop the outer loop's counters (loop.index …) are the inner loop's, and loop variables leak past endfor")
			}
		}
	}
	r.floor("loop-variable bindings in the for renderer", n, 2)
	r.Counts["shadow/restore helpers"] = len(helpers)
}

// shadowedByCallers: the binding is made in a helper on a context it receives as a parameter;
// every call site of the helper is preceded, on every feasible path, by a deferred shadow of the
// same name on the context that is passed.
func (w *World) shadowedByCallers(fn *ssa.Function, recv, name ssa.Value, helpers map[*ssa.Function]bool, depth int) bool {
	return w.shadowedByCallersAt(fn, nil, recv, name, helpers, depth)
}

// fieldTest: cond is `<node>.field ==/!= constant`; returns the field, the constant and the
// successor index on which the field equals the constant.
func fieldTest(b *ssa.BasicBlock) (fieldRef, string, int, bool) {
	v, trueIdx, ok := ifCond(b)
	if !ok {
		return fieldRef{}, "", 0, false
	}
	bo, ok := v.(*ssa.BinOp)
	if !ok || (bo.Op != token.EQL && bo.Op != token.NEQ) {
		return fieldRef{}, "", 0, false
	}
	x, y := bo.X, bo.Y
	if _, isC := x.(*ssa.Const); isC {
		x, y = y, x
	}
	c, isC := y.(*ssa.Const)
	if !isC {
		return fieldRef{}, "", 0, false
	}
	t, f := originField(x, 0)
	if f == "" {
		return fieldRef{}, "", 0, false
	}
	ck := "nil"
	if c.Value != nil {
		ck = c.Value.ExactString()
	}
	eqIdx := trueIdx
	if bo.Op == token.NEQ {
		eqIdx = 1 - trueIdx
	}
	return fieldRef{t, f}, ck, eqIdx, true
}

// shadowedByCallersAt: site (may be nil) is the binding inside fn; the tests of node fields that
// control it are assumed in the callers as well (the helper and its caller read the same node).
func (w *World) shadowedByCallersAt(fn *ssa.Function, site ssa.Instruction, recv, name ssa.Value, helpers map[*ssa.Function]bool, depth int) bool {
	type assumption struct {
		f  fieldRef
		c  string
		eq bool
	}
	var assume []assumption
	if site != nil {
		b := site.Block()
		for d := b.Idom(); d != nil; d = d.Idom() {
			fr, ck, eqIdx, ok := fieldTest(d)
			if !ok {
				continue
			}
			for i, sc := range d.Succs {
				other := d.Succs[1-i]
				if (sc == b || sc.Dominates(b)) && !(other == b || other.Dominates(b)) && len(sc.Preds) == 1 {
					assume = append(assume, assumption{fr, ck, i == eqIdx})
				}
			}
		}
	}
	p, ok := unspill(recv).(*ssa.Parameter)
	if !ok || depth > 2 || fn.Object() == nil || fn.Object().Exported() {
		return false
	}
	idx := -1
	for i, fp := range fn.Params {
		if fp == p {
			idx = i
		}
	}
	node := w.callgraph().Nodes[fn]
	if idx < 0 || node == nil || len(node.In) == 0 {
		return false
	}
	nameConst, nameIsConst := constString(name)
	nt, nf := originField(name, 0)
	for _, e := range node.In {
		if e.Site == nil || e.Caller.Func.Package() != fn.Package() {
			return false
		}
		cc := e.Site.Common()
		if cc.IsInvoke() || cc.StaticCallee() != fn || idx >= len(cc.Args) {
			return false
		}
		ctxArg := cc.Args[idx]
		caller := e.Caller.Func
		matches := func(v ssa.Value) bool {
			if nameIsConst {
				s, ok := constString(v)
				return ok && s == nameConst
			}
			t, f := originField(v, 0)
			return f != "" && t == nt && f == nf
		}
		isShadowDefer := func(in ssa.Instruction) bool {
			d, ok := in.(*ssa.Defer)
			if !ok {
				return false
			}
			if c := w.shadowCallOfDefer(d, helpers); c != nil {
				return sameValue(c.Call.Args[0], ctxArg) && matches(c.Call.Args[1])
			}
			return false
		}
		infeasible := func(b *ssa.BasicBlock, i int) bool {
			fr, ck, eqIdx, ok := fieldTest(b)
			if !ok {
				return false
			}
			for _, a := range assume {
				if a.f == fr && a.c == ck && (i == eqIdx) != a.eq {
					return true
				}
			}
			return false
		}
		if bad, _ := existsPathAvoiding(caller, e.Site, isShadowDefer, infeasible); bad {
			if !w.shadowedByCallers(caller, ctxArg, name, helpers, depth+1) {
				return false
			}
		}
	}
	return true
}

func sameNameValue(a, b ssa.Value) bool {
	if sameValue(a, b) {
		return true
	}
	sa, ok1 := constString(a)
	sb, ok2 := constString(b)
	return ok1 && ok2 && sa == sb
}

// checkSetVariablePrimitive — R09.11: binding a name always binds it.  Every path through
// RenderContext.SetVariable stores exactly (name, value) into the receiver's own variable map,
// and the function removes nothing from it.  A primitive that skips or deletes for some values
// (null, empty) lets an outer binding of the same name — a global, the including template's
// variable — show through where the template assigned one.
func checkSetVariablePrimitive(w *World, r *Report) {
	fn := w.ssaFunc(w.method("RenderContext", "SetVariable"))
	if len(fn.Params) != 3 || len(fn.Blocks) == 0 {
		cannotDecide("R09.11: RenderContext.SetVariable(name, value) not found in the expected form")
	}
	recv, name, val := fn.Params[0], fn.Params[1], fn.Params[2]
	isStore := func(in ssa.Instruction) bool {
		mu, ok := in.(*ssa.MapUpdate)
		if !ok {
			return false
		}
		base, ok := fieldLoad(mu.Map, "RenderContext", "context")
		return ok && unspill(base) == ssa.Value(recv) && unspill(mu.Key) == ssa.Value(name) && unspill(mu.Value) == ssa.Value(val)
	}
	construct := "SetVariable stores (name, value) on every path"
	bad := ""
	instrsOf(fn, func(in ssa.Instruction) {
		switch x := in.(type) {
		case *ssa.Return:
			if found, path := existsPathAvoiding(fn, in, isStore, nil); found && bad == "" {
				bad = "a return is reachable without the store ctx.context[name] = value (" + w.posOf(x.Pos()) + ", path " + strings.Join(path, " → ") + ")"
			}
		case *ssa.Call:
			if b, ok := x.Call.Value.(*ssa.Builtin); ok && b.Name() == "delete" {
				if _, ok := fieldLoad(x.Call.Args[0], "RenderContext", "context"); ok && bad == "" {
					bad = "the binding is deleted (" + w.posOf(x.Pos()) + ")"
				}
			}
		}
	})
	if bad == "" {
		r.ok("R09.11", ssaName(fn), construct, w.posOf(fn.Pos()), "every path passes the map update with the function's own name and value; nothing is deleted", true)
	} else {
		r.bad("R09.11", ssaName(fn), construct, w.posOf(fn.Pos()), bad+": for some values `set`, loop variables and `with` variables do not (re)bind the name, so an outer binding of the same name — an engine global, the including template's variable — is seen instead of the assigned value")
	}
}

func checkSetNode(w *World, r *Report) {
	checkSetVariablePrimitive(w, r)
	checkNoVariableRemoval(w, r)
	checkLoopAlwaysBound(w, r)
	checkAttributeNamesNotSpecialCased(w, r)
	checkLoopSequenceIsEvaluated(w, r)
	checkLiteralsAreFresh(w, r)
	checkElseSeesOuterLoop(w, r)
	fn := w.ssaFunc(w.method("SetNode", "Render"))
	setVar := w.method("RenderContext", "SetVariable")
	evalM := w.method("RenderContext", "EvaluateExpression")
	ctxParam := fn.Params[2]
	n := 0
	// another way of writing a context's variables than the binding primitive
	writesVars := func(g *ssa.Function) bool {
		found := false
		seen := map[*ssa.Function]bool{}
		var scan func(h *ssa.Function, d int)
		scan = func(h *ssa.Function, d int) {
			if h == nil || seen[h] || d > 3 || found {
				return
			}
			seen[h] = true
			instrsOf(h, func(x ssa.Instruction) {
				if mu, ok := x.(*ssa.MapUpdate); ok {
					if _, ok := fieldLoad(mu.Map, "RenderContext", "context"); ok {
						found = true
					}
				}
				if c, ok := x.(ssa.CallInstruction); ok {
					if k := c.Common().StaticCallee(); k != nil && isTwigFn(k) {
						scan(k, d+1)
					}
				}
			})
		}
		scan(g, 0)
		return found
	}
	instrsOf(fn, func(in ssa.Instruction) {
		c, ok := in.(*ssa.Call)
		if !ok {
			return
		}
		if calleeFunc(c) != setVar {
			if g := c.Call.StaticCallee(); g != nil && isTwigFn(g) && g.Signature.Recv() != nil && isNamed(deref(g.Signature.Recv().Type()), twigPath, "RenderContext") && calleeFunc(c) != evalM && writesVars(g) && w.ssaFunc(setVar) != g {
				// does it simply hand (name, value) on to SetVariable on its own receiver?
				forwards := false
				instrsOf(g, func(x ssa.Instruction) {
					if c2, ok := x.(*ssa.Call); ok && calleeFunc(c2) == setVar && len(g.Params) >= 3 {
						a2 := callArgs(c2)
						if callRecv(c2) == ssa.Value(g.Params[0]) && a2[0] == ssa.Value(g.Params[1]) && a2[1] == ssa.Value(g.Params[2]) {
							forwards = true
						}
					}
				})
				n++
				if !forwards {
					r.bad("R09.5", ssaName(fn), "set binds through the binding primitive", w.posOf(in.Pos()), "set stores the variable through "+g.Name()+", which writes context variables in its own way instead of handing (name, value) to SetVariable on the same context: which scope receives the value is no longer the template's own (an assignment in an included template or a loop body can change the enclosing template's variable)")
				} else {
					r.ok("R09.5", ssaName(fn), "set binds through the binding primitive", w.posOf(in.Pos()), g.Name()+" forwards to SetVariable on its receiver", true)
				}
			}
			return
		}
		n++
		args := callArgs(c)
		construct := "set binds n.name on the caller's context to the evaluated value"
		why := ""
		if callRecv(c) != ctxParam {
			why = "the variable is set on a context other than the one the template renders in (invisible to what follows)"
		} else if _, f := originField(args[0], 0); f != "name" {
			why = "the variable name is not the node's name"
		} else {
			ex, ok := args[1].(*ssa.Extract)
			var ec *ssa.Call
			if ok {
				ec, _ = ex.Tuple.(*ssa.Call)
			}
			if ec == nil || calleeFunc(ec) != evalM {
				why = "the bound value is not the result of evaluating the node's value expression"
			} else if _, f := originField(callArgs(ec)[0], 0); f != "value" {
				why = "the bound value is not the node's value expression"
			} else {
				// dominated by err == nil of that evaluation
				var errv ssa.Value
				for _, ref := range *ec.Referrers() {
					if e2, ok := ref.(*ssa.Extract); ok && e2.Index == 1 {
						errv = e2
					}
				}
				guarded := false
				for _, b := range fn.Blocks {
					v, trueIdx, ok := ifCond(b)
					if !ok {
						continue
					}
					bo, ok := v.(*ssa.BinOp)
					if !ok || !(bo.X == errv && isNilConst(bo.Y)) {
						continue
					}
					okSucc := b.Succs[1-trueIdx]
					if bo.Op == token.EQL {
						okSucc = b.Succs[trueIdx]
					}
					if okSucc == in.Block() || okSucc.Dominates(in.Block()) {
						guarded = true
					}
				}
				if !guarded {
					why = "the binding is made even when the evaluation failed"
				}
			}
		}
		if why == "" {
			r.ok("R09.5", ssaName(fn), construct, w.posOf(in.Pos()), "SetVariable(n.name, eval(n.value)) on the ctx parameter, after the error check", true)
		} else {
			r.bad("R09.5", ssaName(fn), construct, w.posOf(in.Pos()), why)
		}
	})
	r.floor("SetVariable calls in SetNode.Render", n, 1)
}

var _ = fmt.Sprintf

// checkZeroTests (R09.6 / R19.3): inside a type-switch clause that lists several types the bound
// variable has interface type, so `v == 0` / `v != 0` compares the dynamic TYPE too: only a zero
// of the constant's default type (int) is recognised, int64(0), uint8(0), 0.0 … are not.  In a
// truthiness or emptiness routine that makes those zeros truthy / non-empty.
func checkZeroTests(w *World, r *Report, rule string, inScope func(fn *types.Func) bool, what string) int {
	n := 0
	for _, fd := range w.sortedDecls() {
		obj := w.Info.Defs[fd.Name].(*types.Func)
		if !inScope(obj) {
			continue
		}
		fname := w.declName(fd)
		ast.Inspect(fd.Body, func(nd ast.Node) bool {
			cc, ok := nd.(*ast.CaseClause)
			if !ok {
				return true
			}
			ts, ok := w.parents[w.parents[cc]].(*ast.TypeSwitchStmt)
			if !ok {
				return true
			}
			_ = ts
			// numeric type lists
			numeric := 0
			for _, e := range cc.List {
				if t := w.Info.TypeOf(e); t != nil {
					if b, ok := t.Underlying().(*types.Basic); ok && b.Info()&types.IsNumeric != 0 {
						numeric++
					}
				}
			}
			if numeric == 0 {
				return true
			}
			for _, st := range cc.Body {
				ast.Inspect(st, func(m ast.Node) bool {
					be, ok := m.(*ast.BinaryExpr)
					if !ok || (be.Op != token.EQL && be.Op != token.NEQ) {
						return true
					}
					for _, pr := range [][2]ast.Expr{{be.X, be.Y}, {be.Y, be.X}} {
						tx := w.Info.TypeOf(pr[0])
						tv := w.Info.Types[pr[1]]
						if tx == nil || tv.Value == nil {
							continue
						}
						n++
						construct := fmt.Sprintf("zero test `%s` under case of %d numeric type(s)", types.ExprString(be), numeric)
						if _, isI := tx.Underlying().(*types.Interface); isI {
							r.bad(rule, fname, construct, w.pos(be), "the variable has interface type in a multi-type case clause, so the comparison also compares the dynamic type with the constant's default type: a zero of any other numeric type (int64(0), uint8(0), 0.0) is "+what)
						} else {
							r.ok(rule, fname, construct, w.pos(be), "compared at its concrete type", true)
						}
					}
					return true
				})
			}
			return true
		})
	}
	return n
}

// checkTruthinessCoverage (R09.7): every truthiness routine must be able to find every falsy shape
// the property lists — false, 0 of any numeric type, "", an empty list, an empty map — also when
// the value has a host type the fast-path type switch does not name.  Structurally: the routine
// (or the routine it delegates to) switches on reflect Kind with arms for Bool, all Int/Uint/Float
// kinds, String, Array, Slice and Map.
func checkTruthinessCoverage(w *World, r *Report) {
	required := []string{"Bool", "Int", "Int8", "Int16", "Int32", "Int64", "Uint", "Uint8", "Uint16", "Uint32", "Uint64", "Float32", "Float64", "String", "Array", "Slice", "Map"}
	kindsOf := func(fd *ast.FuncDecl) map[string]bool {
		out := map[string]bool{}
		ast.Inspect(fd.Body, func(n ast.Node) bool {
			sw, ok := n.(*ast.SwitchStmt)
			if !ok || sw.Tag == nil {
				return true
			}
			c, ok := ast.Unparen(sw.Tag).(*ast.CallExpr)
			if !ok || !w.calleeIs(c, "reflect", "Value", "Kind") {
				return true
			}
			for _, cl := range sw.Body.List {
				for _, e := range cl.(*ast.CaseClause).List {
					if o, ok := w.Info.Uses[identOf(e)].(*types.Const); ok && o.Pkg() != nil && o.Pkg().Path() == "reflect" {
						name := o.Name()
						if name == "Ptr" {
							name = "Pointer"
						}
						out[name] = true
					}
				}
			}
			return true
		})
		return out
	}
	routines := map[*types.Func]*ast.FuncDecl{}
	for f, fd := range w.decls {
		if strings.EqualFold(f.Name(), "tobool") && fd.Body != nil {
			routines[f] = fd
		}
	}
	var fs []*types.Func
	for f := range routines {
		fs = append(fs, f)
	}
	sort.Slice(fs, func(i, j int) bool { return funcName(fs[i]) < funcName(fs[j]) })
	reach := w.renderOnlyReachable()
	for _, f := range fs {
		fd := routines[f]
		if !reach[w.ssaFunc(f)] {
			r.ok("R09.7", funcName(f), "truthiness routine finds every falsy shape by kind", w.pos(fd), "not reachable from any render root (the extension's operator table is never consulted): its coverage is unobservable", false)
			continue
		}
		kinds := kindsOf(fd)
		via := ""
		if len(kinds) == 0 {
			// delegation: `return other(val)`
			ast.Inspect(fd.Body, func(n ast.Node) bool {
				if c, ok := n.(*ast.CallExpr); ok {
					if g := w.callee(c); g != nil && routines[g] != nil && g != f {
						kinds = kindsOf(routines[g])
						via = " (delegates to " + funcName(g) + ")"
					}
				}
				return true
			})
		}
		var missing []string
		for _, k := range required {
			if !kinds[k] {
				missing = append(missing, k)
			}
		}
		construct := "truthiness routine finds every falsy shape by kind"
		if len(missing) == 0 {
			r.ok("R09.7", funcName(f), construct, w.pos(fd), "reflect-kind switch covers Bool, all numeric kinds, String, Array, Slice, Map"+via, true)
		} else {
			r.bad("R09.7", funcName(f), construct, w.pos(fd), fmt.Sprintf("the routine%s has no reflect-kind arm for %v: a host-typed empty value of that kind (e.g. []string{}, map[string]string{}, a named bool/string type) falls to the 'everything else is truthy' default, so constructs using this routine disagree with the others about what is falsy", via, missing))
		}
	}
}

// checkLookupCoherence (R09.8): a variable lookup reads the scope maps at the time of the call.
// If a lookup function can answer from a field of the context other than its maps (a memo of an
// earlier lookup), every function that writes the context's variable map must refresh that
// field too — otherwise a binding made by one writer (set, loop variable, the restore after a
// loop) is not what the next lookup returns.
func checkLookupCoherence(w *World, r *Report) {
	ctxT := w.named("RenderContext")
	st := ctxT.Underlying().(*types.Struct)
	fieldIsMap := map[string]bool{}
	for i := 0; i < st.NumFields(); i++ {
		if _, ok := st.Field(i).Type().Underlying().(*types.Map); ok {
			fieldIsMap[st.Field(i).Name()] = true
		}
	}
	isCtxMapLookup := func(in ssa.Instruction) bool {
		lk, ok := in.(*ssa.Lookup)
		if !ok {
			return false
		}
		_, ok = fieldLoad(lk.X, "RenderContext", "context")
		return ok
	}
	// lookup functions: look a name up in ctx.context and return a value
	memo := map[string]string{} // field -> where it is returned
	nLookupFns := 0
	for _, fn := range w.pkgFuncs() {
		has := false
		instrsOf(fn, func(in ssa.Instruction) {
			if isCtxMapLookup(in) {
				has = true
			}
		})
		if !has || fn.Signature.Results().Len() == 0 {
			continue
		}
		if _, isIface := fn.Signature.Results().At(0).Type().Underlying().(*types.Interface); !isIface {
			continue
		}
		nLookupFns++
		instrsOf(fn, func(in ssa.Instruction) {
			ret, ok := in.(*ssa.Return)
			if !ok {
				return
			}
			res := retResults(ret)
			if len(res) == 0 {
				return
			}
			seen := map[ssa.Value]bool{}
			var walk func(v ssa.Value)
			walk = func(v ssa.Value) {
				if seen[v] {
					return
				}
				seen[v] = true
				switch x := v.(type) {
				case *ssa.Phi:
					for _, e := range x.Edges {
						walk(e)
					}
				case *ssa.UnOp:
					if fa, ok := x.X.(*ssa.FieldAddr); ok {
						if tn, f := fieldOfAddr(fa); tn == "RenderContext" && !fieldIsMap[f] {
							if _, isIface := x.Type().Underlying().(*types.Interface); isIface {
								memo[f] = ssaName(fn) + " " + w.posOf(ret.Pos())
							}
						}
					}
				}
			}
			walk(res[0])
		})
	}
	r.floor("functions looking a variable up in ctx.context", nLookupFns, 1)
	if len(memo) == 0 {
		r.ok("R09.8", "(*RenderContext)", "variable lookups answer from the scope maps only", "-", "no lookup function returns a value kept in a non-map field of the context", false)
		return
	}
	storesField := func(fn *ssa.Function, field string) bool {
		var visit func(f *ssa.Function, depth int) bool
		seen := map[*ssa.Function]bool{}
		visit = func(f *ssa.Function, depth int) bool {
			if seen[f] || depth > 2 {
				return false
			}
			seen[f] = true
			found := false
			instrsOf(f, func(in ssa.Instruction) {
				switch x := in.(type) {
				case *ssa.Store:
					if fa, ok := x.Addr.(*ssa.FieldAddr); ok {
						if tn, fl := fieldOfAddr(fa); tn == "RenderContext" && fl == field {
							found = true
						}
					}
				case *ssa.Call:
					if g := x.Call.StaticCallee(); g != nil && isTwigFn(g) && visit(g, depth+1) {
						found = true
					}
				}
			})
			return found
		}
		return visit(fn, 0)
	}
	for _, fn := range w.pkgFuncs() {
		writes := false
		var at ssa.Instruction
		instrsOf(fn, func(in ssa.Instruction) {
			switch x := in.(type) {
			case *ssa.MapUpdate:
				if _, ok := fieldLoad(x.Map, "RenderContext", "context"); ok {
					writes, at = true, in
				}
			case *ssa.Call:
				if b, ok := x.Call.Value.(*ssa.Builtin); ok && b.Name() == "delete" {
					if _, ok := fieldLoad(x.Call.Args[0], "RenderContext", "context"); ok {
						writes, at = true, in
					}
				}
			}
		})
		if !writes {
			continue
		}
		for f, where := range memo {
			construct := "writer of ctx.context refreshes the lookup memo " + f
			if storesField(fn, f) {
				r.ok("R09.8", ssaName(fn), construct, w.posOf(at.Pos()), "the memo field is assigned where the variable map is written", true)
			} else {
				r.bad("R09.8", ssaName(fn), construct, w.posOf(at.Pos()), fmt.Sprintf("lookups can be answered from RenderContext.%s (%s), but this function changes the variable map without touching that field: the next lookup of the name returns the old binding (a loop variable after endfor, an outer counter after an inner loop, a value before a later set)", f, where))
			}
		}
	}
}

// checkIfBranchesKept (R09.9): the condition and body lists of an if node are the lists the
// parser appended to while reading the tags: every element is a parse result, none is re-collected
// from another list (a second pass that copies — and therefore can drop or reorder — branches).
// A dropped branch with a truthy condition lets a later elseif/else render.
func checkIfBranchesKept(w *World, r *Report) {
	n := 0
	var recollected func(v ssa.Value, seen map[ssa.Value]bool, depth int) string
	recollected = func(v ssa.Value, seen map[ssa.Value]bool, depth int) string {
		if seen[v] || depth > 12 {
			return ""
		}
		seen[v] = true
		switch x := v.(type) {
		case *ssa.Phi:
			for _, e := range x.Edges {
				if why := recollected(e, seen, depth+1); why != "" {
					return why
				}
			}
		case *ssa.UnOp:
			if al, ok := x.X.(*ssa.Alloc); ok && al.Referrers() != nil {
				for _, ref := range *al.Referrers() {
					if st, ok := ref.(*ssa.Store); ok && st.Addr == al {
						if why := recollected(st.Val, seen, depth+1); why != "" {
							return why
						}
					}
				}
			}
		case *ssa.Call:
			b, ok := x.Call.Value.(*ssa.Builtin)
			if !ok || b.Name() != "append" || len(x.Call.Args) != 2 {
				return ""
			}
			if why := recollected(x.Call.Args[0], seen, depth+1); why != "" {
				return why
			}
			for _, el := range variadicElems(x.Call.Args[1]) {
				e := unspill(el)
				if u, ok := e.(*ssa.UnOp); ok {
					if _, isIdx := u.X.(*ssa.IndexAddr); isIdx {
						return "an element copied from another list"
					}
				}
				if ex, ok := e.(*ssa.Extract); ok {
					if _, isNext := ex.Tuple.(*ssa.Next); isNext {
						return "an element of a list that is ranged over"
					}
				}
			}
		}
		return ""
	}
	for _, fd := range w.sortedDecls() {
		if !w.parserSide(fd) {
			continue
		}
		fn := w.ssaFunc(w.Info.Defs[fd.Name].(*types.Func))
		instrsOf(fn, func(in ssa.Instruction) {
			var vals map[string]ssa.Value
			switch x := in.(type) {
			case *ssa.Store:
				fa, ok := x.Addr.(*ssa.FieldAddr)
				if !ok {
					return
				}
				if tn, f := fieldOfAddr(fa); tn == "IfNode" && (f == "conditions" || f == "bodies") {
					vals = map[string]ssa.Value{f: x.Val}
				}
			case *ssa.Call:
				g := x.Call.StaticCallee()
				if g == nil || g.Signature.Results().Len() != 1 || !isNamed(g.Signature.Results().At(0).Type(), twigPath, "IfNode") || len(x.Call.Args) < 2 {
					return
				}
				vals = map[string]ssa.Value{"conditions": x.Call.Args[0], "bodies": x.Call.Args[1]}
			}
			for f, v := range vals {
				n++
				construct := "IfNode." + f + " is the list the parser appended its parse results to"
				if why := recollected(v, map[ssa.Value]bool{}, 0); why != "" {
					r.bad("R09.9", ssaName(fn), construct, w.posOf(in.Pos()), "the list handed to the node contains "+why+": branches are re-collected after parsing and can be dropped or reordered (an empty branch with a truthy condition must still stop the chain)")
				} else {
					r.ok("R09.9", ssaName(fn), construct, w.posOf(in.Pos()), "built only from direct appends of parse results", true)
				}
			}
		})
	}
	r.floor("constructions of IfNode condition/body lists in the parser", n, 2)
}

// checkNoVariableRemoval — R09.12: what a template has set stays set.  Entries of a render
// context's variable map are removed only where the context is recycled (the functions that
// take it from or return it to the pool) and by the restoring half of the shadow helper (which
// puts back exactly the binding it saved).  A scope exit that deletes "every name bound since"
// makes a `set` inside a loop or block invisible to what is rendered after it.
func checkNoVariableRemoval(w *World, r *Report) {
	helpers := w.shadowHelpers()
	restorer := map[*ssa.Function]bool{}
	for h := range helpers {
		for _, a := range h.AnonFuncs {
			restorer[a] = true
		}
		if h.Signature.Results().Len() == 1 {
			if m := w.restorerMethodOf(h.Signature.Results().At(0).Type()); m != nil {
				restorer[m] = true
			}
		}
		instrsOf(h, func(in ssa.Instruction) {
			if mc, ok := in.(*ssa.MakeClosure); ok && len(mc.Bindings) == 1 {
				if bf, ok := mc.Fn.(*ssa.Function); ok && bf.Synthetic != "" {
					if m, ok := bf.Object().(*types.Func); ok && m != nil {
						restorer[w.ssaFunc(m)] = true
					}
				}
			}
		})
	}
	_, sp := w.ssa()
	pool := sp.Var("renderContextPool")
	touchesPool := func(fn *ssa.Function) bool {
		found := false
		instrsOf(fn, func(in ssa.Instruction) {
			if c, ok := in.(ssa.CallInstruction); ok {
				f := calleeFunc(c)
				if (isFunc(f, "sync", "Pool", "Get") || isFunc(f, "sync", "Pool", "Put")) && len(c.Common().Args) > 0 && globalOf(c.Common().Args[0]) == pool {
					found = true
				}
			}
		})
		return found
	}
	n, bad := 0, 0
	for _, fn := range w.pkgFuncs() {
		instrsOf(fn, func(in ssa.Instruction) {
			c, ok := in.(*ssa.Call)
			if !ok {
				return
			}
			b, ok := c.Call.Value.(*ssa.Builtin)
			if !ok || (b.Name() != "delete" && b.Name() != "clear") || len(c.Call.Args) == 0 {
				return
			}
			if _, ok := fieldLoad(origin(c.Call.Args[0]), "RenderContext", "context"); !ok {
				return
			}
			n++
			root := fn
			for root.Parent() != nil {
				root = root.Parent()
			}
			switch {
			case restorer[fn]:
				r.ok("R09.12", ssaName(fn), "removal from the variable map", w.posOf(in.Pos()), "restoring half of the shadow helper", false)
			case touchesPool(root) || touchesPool(fn):
				r.ok("R09.12", ssaName(fn), "removal from the variable map", w.posOf(in.Pos()), "the context is being recycled", false)
			default:
				// a helper only called from recycling functions
				okCallers := false
				if ins := realInEdges(root); len(ins) > 0 {
					okCallers = true
					for _, e := range ins {
						if !touchesPool(e.Caller.Func) {
							okCallers = false
						}
					}
				}
				if okCallers {
					r.ok("R09.12", ssaName(fn), "removal from the variable map", w.posOf(in.Pos()), "helper of the recycling functions", false)
					return
				}
				bad++
				r.bad("R09.12", ssaName(fn), "removal from the variable map", w.posOf(in.Pos()), "variables are removed from a live render context outside the shadow/restore helper: a name a template assigned (in a loop body, an else branch, a block) disappears, so what is rendered afterwards does not see the value that was set")
			}
		})
	}
	r.Counts["removals from a context's variable map"] = n
	_ = bad
}

// checkLoopAlwaysBound — R09.13: the body of a for loop always sees `loop`.  In every function
// of the for renderer that renders ForNode.body, no path from the function's entry reaches that
// render without a binding of the name "loop" (SetVariable("loop", …), directly or through a
// helper that binds it on every one of its paths).  Leaving the bookkeeping out when "nothing in
// the body reads loop" judges the body by its text; an included template, a macro or a block
// overridden by a child reads it all the same.
func checkLoopAlwaysBound(w *World, r *Report) {
	setVar := w.method("RenderContext", "SetVariable")
	bindsLoopDirect := func(in ssa.Instruction) bool {
		c, ok := in.(ssa.CallInstruction)
		if !ok || calleeFunc(c) != setVar {
			return false
		}
		args := callArgs(c)
		s, ok := constString(args[0])
		return ok && s == "loop"
	}
	// helpers that bind "loop" on every path to every return
	always := map[*ssa.Function]bool{}
	for changed := true; changed; {
		changed = false
		for _, g := range w.pkgFuncs() {
			if always[g] || len(g.Blocks) == 0 {
				continue
			}
			binds := func(in ssa.Instruction) bool {
				if bindsLoopDirect(in) {
					return true
				}
				if c, ok := in.(ssa.CallInstruction); ok {
					if h := c.Common().StaticCallee(); h != nil && always[h] {
						return true
					}
				}
				return false
			}
			has := false
			instrsOf(g, func(in ssa.Instruction) {
				if binds(in) {
					has = true
				}
			})
			if !has {
				continue
			}
			all, nret := true, 0
			instrsOf(g, func(in ssa.Instruction) {
				if _, ok := in.(*ssa.Return); ok {
					nret++
					if found, _ := existsPathAvoiding(g, in, binds, nil); found {
						all = false
					}
				}
			})
			if all && nret > 0 {
				always[g] = true
				changed = true
			}
		}
	}
	n := 0
	for _, fn := range w.pkgFuncs() {
		instrsOf(fn, func(in ssa.Instruction) {
			isBody := false
			if c, ok := in.(ssa.CallInstruction); ok && c.Common().IsInvoke() {
				for _, fr := range rendersOf(in) {
					if fr.typ == "ForNode" && fr.field == "body" {
						isBody = true
					}
				}
			} else if ok {
				// the body handed to a generic "render these nodes" helper
				if g := c.Common().StaticCallee(); g != nil && isTwigFn(g) {
					for i, a := range c.Common().Args {
						if t, f := originField(a, 0); t == "ForNode" && f == "body" && i < len(g.Params) && rendersParam(g, g.Params[i]) {
							isBody = true
						}
					}
				}
			}
			if !isBody {
				return
			}
			n++
			binds := func(x ssa.Instruction) bool {
				if bindsLoopDirect(x) {
					return true
				}
				if c, ok := x.(ssa.CallInstruction); ok {
					if h := c.Common().StaticCallee(); h != nil && always[h] {
						return true
					}
				}
				return false
			}
			construct := "`loop` is bound before the loop body renders"
			found, path := existsPathAvoiding(fn, in, binds, nil)
			if found {
				// the binding may sit in the caller (a body-rendering helper called per iteration)
				if ins := realInEdges(fn); len(ins) > 0 {
					okAll := true
					for _, e := range ins {
						if e.Site == nil {
							okAll = false
							break
						}
						if f2, _ := existsPathAvoiding(e.Caller.Func, e.Site, binds, nil); f2 {
							okAll = false
						}
					}
					if okAll {
						found = false
					}
				}
			}
			if found {
				r.bad("R09.13", ssaName(fn), construct, w.posOf(in.Pos()), "the loop body can be rendered on a path on which the name \"loop\" has not been bound (path "+strings.Join(path, " → ")+"): for such loops loop.index, loop.first … are missing — or are those of an enclosing loop — in everything the body renders that is not spelled out in the body itself (included templates, macros, overridden blocks)")
			} else {
				r.ok("R09.13", ssaName(fn), construct, w.posOf(in.Pos()), "every path to the body render binds \"loop\" first", true)
			}
		})
	}
	r.floor("renders of a for loop's body", n, 1)
}

// checkAttributeNamesNotSpecialCased — R09.14: `x.name` on a hash is the entry called name,
// whatever the name.  `loop` is a plain hash (index, index0, revindex, revindex0, first, last,
// length); an attribute shorthand that recognises a particular name (`.length`, `.first`, `.keys`)
// before the generic key lookup answers `loop.length` with the size of the loop record.  The
// attribute name of a GetAttr node — and every parameter it is handed on to — is therefore
// compared with a string constant only where a map lookup under that name dominates the test.
func checkAttributeNamesNotSpecialCased(w *World, r *Report) {
	evalFn := w.method("RenderContext", "EvaluateExpression")
	attrVals := map[ssa.Value]bool{}
	for _, fn := range w.pkgFuncs() {
		instrsOf(fn, func(in ssa.Instruction) {
			ta, ok := in.(*ssa.TypeAssert)
			if !ok {
				return
			}
			if b, ok := ta.AssertedType.Underlying().(*types.Basic); !ok || b.Kind() != types.String {
				return
			}
			for _, o := range originChain(ta.X) {
				if ex, isEx := o.(*ssa.Extract); isEx {
					o = ex.Tuple
				}
				c, ok := o.(*ssa.Call)
				if !ok || calleeFunc(c) != evalFn {
					continue
				}
				args := callArgs(c)
				if len(args) == 0 {
					continue
				}
				if t, f := originField(args[0], 0); t == "GetAttrNode" && f == "attribute" {
					if ta.CommaOk {
						for _, ref := range *ta.Referrers() {
							if ex, ok := ref.(*ssa.Extract); ok && ex.Index == 0 {
								attrVals[ex] = true
							}
						}
					} else {
						attrVals[ta] = true
					}
				}
			}
		})
	}
	nRoots := len(attrVals)
	for changed := true; changed; {
		changed = false
		for v := range attrVals {
			if v.Referrers() == nil {
				continue
			}
			for _, ref := range *v.Referrers() {
				c, ok := ref.(ssa.CallInstruction)
				if !ok {
					continue
				}
				g := c.Common().StaticCallee()
				if g == nil || !isTwigFn(g) || len(g.Blocks) == 0 {
					continue
				}
				for i, a := range c.Common().Args {
					if a == v && i < len(g.Params) && !attrVals[g.Params[i]] {
						attrVals[g.Params[i]] = true
						changed = true
					}
				}
			}
		}
	}
	nCmp := 0
	for v := range attrVals {
		if v.Referrers() == nil {
			continue
		}
		var fn *ssa.Function
		if in, ok := v.(ssa.Instruction); ok {
			fn = in.Parent()
		} else if p, ok := v.(*ssa.Parameter); ok {
			fn = p.Parent()
		}
		for _, ref := range *v.Referrers() {
			bo, ok := ref.(*ssa.BinOp)
			if !ok || (bo.Op != token.EQL && bo.Op != token.NEQ) {
				continue
			}
			other := bo.Y
			if bo.Y == v {
				other = bo.X
			}
			s, isConst := constString(other)
			if !isConst || s == "" {
				continue
			}
			nCmp++
			dominated := false
			instrsOf(fn, func(in ssa.Instruction) {
				lk, ok := in.(*ssa.Lookup)
				if !ok || !sameValue(unspill(lk.Index), v) {
					return
				}
				if lk.Block() == bo.Block() && instrIndex(lk) < instrIndex(bo) || lk.Block() != bo.Block() && lk.Block().Dominates(bo.Block()) {
					dominated = true
				}
			})
			construct := fmt.Sprintf("attribute name compared with %q", s)
			if dominated {
				r.ok("R09.14", ssaName(fn), construct, w.posOf(bo.Pos()), "a key lookup under the attribute name dominates the test", true)
			} else {
				r.bad("R09.14", ssaName(fn), construct, w.posOf(bo.Pos()), fmt.Sprintf("the attribute name is tested against %q where no map lookup under that name has been made first: for a hash that has such a key (`loop.%s`, a context hash) the shorthand answers instead of the entry", s, s))
			}
		}
	}
	r.ok("R09.14", "(package)", "attribute names reach key lookups un-special-cased", "-", fmt.Sprintf("%d attribute-name values followed through %d values/parameters; %d constant comparisons", nRoots, len(attrVals), nCmp), true)
	r.floor("attribute-name values of GetAttr nodes", nRoots, 1)
}

// rendersParam: g invokes Render on (an element of) its parameter p.
func rendersParam(g *ssa.Function, p *ssa.Parameter) bool {
	found := false
	var derives func(v ssa.Value, d int) bool
	derives = func(v ssa.Value, d int) bool {
		if d > 8 || v == nil {
			return false
		}
		v = unspill(v)
		if v == ssa.Value(p) {
			return true
		}
		switch x := v.(type) {
		case *ssa.UnOp:
			return derives(x.X, d+1)
		case *ssa.IndexAddr:
			return derives(x.X, d+1)
		case *ssa.FieldAddr:
			return derives(x.X, d+1)
		case *ssa.Index:
			return derives(x.X, d+1)
		case *ssa.Slice:
			return derives(x.X, d+1)
		case *ssa.Extract:
			return derives(x.Tuple, d+1)
		case *ssa.Next:
			return derives(x.Iter, d+1)
		case *ssa.Range:
			return derives(x.X, d+1)
		case *ssa.Phi:
			for _, e := range x.Edges {
				if derives(e, d+1) {
					return true
				}
			}
		}
		return false
	}
	instrsOf(g, func(in ssa.Instruction) {
		if c, ok := in.(ssa.CallInstruction); ok && c.Common().IsInvoke() && c.Common().Method.Name() == "Render" && derives(c.Common().Value, 0) {
			found = true
		}
	})
	return found
}

// checkLoopSequenceIsEvaluated — R09.15: what a for loop iterates over is what its sequence
// expression evaluates to.  Every call of the loop renderer (the function that renders
// ForNode.body per element) from the for node's Render hands it a computed value on every edge —
// never the constant nil: "the base is null, so there is nothing to iterate" skips the filters
// that would have supplied a value (`missing|default([...])`).
func checkLoopSequenceIsEvaluated(w *World, r *Report) {
	render := w.ssaFunc(w.method("ForNode", "Render"))
	n := 0
	var scan func(fn *ssa.Function, depth int)
	seenFn := map[*ssa.Function]bool{}
	scan = func(fn *ssa.Function, depth int) {
		if fn == nil || seenFn[fn] || depth > 2 {
			return
		}
		seenFn[fn] = true
		instrsOf(fn, func(in ssa.Instruction) {
			c, ok := in.(ssa.CallInstruction)
			if !ok {
				return
			}
			g := c.Common().StaticCallee()
			if g == nil || !isTwigFn(g) || g.Signature.Recv() == nil || !isNamed(deref(g.Signature.Recv().Type()), twigPath, "ForNode") || g == fn {
				return
			}
			// the sequence parameter: the interface{} one
			for i, p := range g.Params {
				it, isI := p.Type().Underlying().(*types.Interface)
				if !isI || it.NumMethods() != 0 || i >= len(c.Common().Args) {
					continue
				}
				n++
				construct := "sequence handed to " + g.Name()
				bad := false
				var walk func(v ssa.Value, seen map[ssa.Value]bool)
				walk = func(v ssa.Value, seen map[ssa.Value]bool) {
					v = unspill(v)
					if seen[v] {
						return
					}
					seen[v] = true
					if isNilConst(v) {
						bad = true
					}
					if ph, ok := v.(*ssa.Phi); ok {
						for _, e := range ph.Edges {
							walk(e, seen)
						}
					}
				}
				walk(c.Common().Args[i], map[ssa.Value]bool{})
				if bad {
					r.bad("R09.15", ssaName(fn), construct, w.posOf(in.Pos()), "on some path the loop is handed the constant nil instead of the value of its sequence expression: the sequence (or the rest of its filter chain) is not evaluated there, so a filter that would have supplied the elements — default, merge — never runs and the else branch is taken")
				} else {
					r.ok("R09.15", ssaName(fn), construct, w.posOf(in.Pos()), "a computed value on every edge", true)
				}
			}
			scan(g, depth+1)
		})
	}
	scan(render, 0)
	r.floor("hand-overs of a sequence to the loop renderer", n, 1)
}

// checkLiteralsAreFresh — R09.16: a list or hash literal is a new value each time it is
// evaluated.  In the arms of EvaluateExpression for ArrayNode and HashNode every returned
// container is allocated in that evaluation (make / literal / append to such), never read back
// from a field, a map or a pool: `{% set a = [i] %}` in one iteration must not be rewritten by
// the evaluation of the same literal in the next.
func checkLiteralsAreFresh(w *World, r *Report) {
	eval := w.ssaFunc(w.method("RenderContext", "EvaluateExpression"))
	f := &freshness{w: w, retMemo: map[*ssa.Function]int{}}
	n := 0
	for _, tn := range []string{"ArrayNode", "HashNode"} {
		nt := w.named(tn)
		if nt == nil {
			continue
		}
		instrsOf(eval, func(in ssa.Instruction) {
			ta, ok := in.(*ssa.TypeAssert)
			if !ok || !ta.CommaOk || !types.Identical(deref(ta.AssertedType), nt) {
				return
			}
			if _, isP := unspill(ta.X).(*ssa.Parameter); !isP {
				return
			}
			// the arm: blocks dominated by the ok edge
			var arm *ssa.BasicBlock
			for _, ref := range *ta.Referrers() {
				ex, ok := ref.(*ssa.Extract)
				if !ok || ex.Index != 1 || ex.Referrers() == nil {
					continue
				}
				for _, r2 := range *ex.Referrers() {
					if iff, ok := r2.(*ssa.If); ok {
						arm = iff.Block().Succs[0]
					}
				}
			}
			if arm == nil {
				return
			}
			instrsOf(eval, func(x ssa.Instruction) {
				ret, ok := x.(*ssa.Return)
				if !ok || !(arm == ret.Block() || arm.Dominates(ret.Block())) {
					return
				}
				res := retResults(ret)
				if len(res) == 0 {
					return
				}
				mi, ok := res[0].(*ssa.MakeInterface)
				if !ok {
					return
				}
				switch mi.X.Type().Underlying().(type) {
				case *types.Slice, *types.Map:
				default:
					return
				}
				n++
				construct := "value of a " + tn + " literal is a new container"
				_ = f
				if allocatedHere(mi.X, map[ssa.Value]bool{}, 0) {
					r.ok("R09.16", ssaName(eval), construct, w.posOf(ret.Pos()), "allocated in this evaluation on every path", true)
				} else {
					r.bad("R09.16", ssaName(eval), construct, w.posOf(ret.Pos()), "the container returned for the literal is not allocated by this evaluation on every path (it is read back from a field, a map or a pool and refilled): a value bound earlier from the same literal — by set, in a previous iteration — changes under the template's feet")
				}
			})
		})
	}
	r.floor("returns of list/hash literal values", n, 2)
}

// allocatedHere: v is a container created by the running call (make, a composite literal, append
// to such, or a helper of the package every result of which is) — stricter than C18's "fresh in
// this render", which counts everything hanging off a render context.
func allocatedHere(v ssa.Value, seen map[ssa.Value]bool, depth int) bool {
	v = unspill(v)
	if seen[v] {
		return true
	}
	seen[v] = true
	if depth > 6 {
		return false
	}
	switch x := v.(type) {
	case *ssa.MakeSlice, *ssa.MakeMap:
		return true
	case *ssa.Const:
		return true
	case *ssa.Slice:
		if _, isAlloc := x.X.(*ssa.Alloc); isAlloc {
			return true // []T{…}
		}
		return allocatedHere(x.X, seen, depth)
	case *ssa.Phi:
		for _, e := range x.Edges {
			if !allocatedHere(e, seen, depth) {
				return false
			}
		}
		return true
	case *ssa.Call:
		if b, ok := x.Call.Value.(*ssa.Builtin); ok {
			if b.Name() == "append" {
				return allocatedHere(x.Call.Args[0], seen, depth)
			}
			return false
		}
		g := x.Call.StaticCallee()
		if g == nil || !isTwigFn(g) || len(g.Blocks) == 0 {
			return false
		}
		ok, nret := true, 0
		instrsOf(g, func(in ssa.Instruction) {
			if ret, isRet := in.(*ssa.Return); isRet && len(ret.Results) > 0 {
				nret++
				if !allocatedHere(retResults(ret)[0], map[ssa.Value]bool{}, depth+1) {
					ok = false
				}
			}
		})
		return ok && nret > 0
	case *ssa.Extract:
		if c, isCall := x.Tuple.(*ssa.Call); isCall && x.Index == 0 {
			return allocatedHere(c, seen, depth)
		}
	}
	return false
}

// checkElseSeesOuterLoop — R09.17: the else branch of a for loop runs outside the loop.  No
// render of ForNode.elseBranch is reachable from a binding of the name "loop" in the same
// function: the loop record is bound per iteration, after it is known that something iterates;
// bound up front, an else branch nested in another loop reads this loop's all-zero record
// instead of the enclosing loop's counters.
func checkElseSeesOuterLoop(w *World, r *Report) {
	setVar := w.method("RenderContext", "SetVariable")
	n := 0
	for _, fn := range w.pkgFuncs() {
		var binds, elses []ssa.Instruction
		instrsOf(fn, func(in ssa.Instruction) {
			c, ok := in.(ssa.CallInstruction)
			if !ok {
				return
			}
			if calleeFunc(c) == setVar {
				if s, ok := constString(callArgs(c)[0]); ok && s == "loop" {
					binds = append(binds, in)
				}
				return
			}
			if c.Common().IsInvoke() {
				for _, fr := range rendersOf(in) {
					if fr.typ == "ForNode" && fr.field == "elseBranch" {
						elses = append(elses, in)
					}
				}
				return
			}
			if g := c.Common().StaticCallee(); g != nil && isTwigFn(g) {
				for i, a := range c.Common().Args {
					if t, f := originField(a, 0); t == "ForNode" && f == "elseBranch" && i < len(g.Params) && rendersParam(g, g.Params[i]) {
						elses = append(elses, in)
					}
				}
			}
		})
		for _, e := range elses {
			n++
			construct := "else branch renders without this loop's record"
			bad := ""
			for _, b := range binds {
				reaches := false
				if b.Block() == e.Block() {
					reaches = instrIndex(b) < instrIndex(e)
				}
				if !reaches {
					for _, s := range b.Block().Succs {
						if blockReaches(s, e.Block()) {
							reaches = true
						}
					}
				}
				if reaches {
					bad = w.posOf(b.Pos())
				}
			}
			if bad == "" {
				r.ok("R09.17", ssaName(fn), construct, w.posOf(e.Pos()), "not reachable from a binding of `loop`", true)
			} else {
				r.bad("R09.17", ssaName(fn), construct, w.posOf(e.Pos()), "the else branch can be rendered after `loop` was bound (at "+bad+") in the same call: inside an enclosing loop, `loop.index` in the else branch is then this loop's empty record, not the enclosing loop's position")
			}
		}
	}
	r.floor("renders of a for loop's else branch", n, 1)
}
