package main

// R05.14 — reflect map lookups use a hashable key of the map's key type.
//
// reflect.Value.MapIndex / SetMapIndex panic in two ways that no kind test of the MAP prevents:
// "hash of unhashable type" when the key's dynamic value is a slice, a map or a func (possible
// whenever the map's key type is an interface — and template lists and hashes are exactly
// []interface{} and map[string]interface{}), and "value of type X is not assignable to type K"
// when the key's type does not fit.  Every key handed to these calls on render paths must
//
//	(a) come out of a map (an element of a MapKeys() result, a MapIter.Key()) — hashable by
//	    construction, and of the right type when it is the same map;
//	(b) be reflect.ValueOf of a Go value whose static type is a basic type; or
//	(c) have passed a Value.Comparable() test on every path,
//
// with Convert(t) looked through (conversion keeps the dynamic value), and the type must agree
// by (a), by Convert(m.Type().Key()), or by a dominating AssignableTo/ConvertibleTo test.

import (
	"go/types"

	"golang.org/x/tools/go/ssa"
)

func reflectMethodCall(v ssa.Value, name string) (*ssa.Call, bool) {
	c, ok := v.(*ssa.Call)
	if !ok {
		return nil, false
	}
	f := c.Call.StaticCallee()
	if f == nil || f.Pkg == nil || f.Pkg.Pkg.Path() != "reflect" || f.Name() != name {
		return nil, false
	}
	return c, true
}

// keysSliceOf: v is a []reflect.Value holding keys of maps; returns the maps (nil entry when the
// map is not identified).
func keysSliceOf(v ssa.Value, seen map[ssa.Value]bool, depth int) (maps []ssa.Value, ok bool) {
	v = unspill(v)
	if seen[v] || depth > 6 {
		return nil, true
	}
	seen[v] = true
	switch x := v.(type) {
	case *ssa.Call:
		if c, isKeys := reflectMethodCall(x, "MapKeys"); isKeys {
			return []ssa.Value{c.Call.Args[0]}, true
		}
		g := x.Call.StaticCallee()
		if g == nil || !isTwigFn(g) || len(g.Blocks) == 0 || g.Signature.Results().Len() != 1 {
			return nil, false
		}
		all := true
		instrsOf(g, func(in ssa.Instruction) {
			if ret, isRet := in.(*ssa.Return); isRet {
				if _, o := keysSliceOf(retResults(ret)[0], seen, depth+1); !o {
					all = false
				}
			}
		})
		return []ssa.Value{nil}, all
	case *ssa.Slice:
		return keysSliceOf(x.X, seen, depth)
	case *ssa.Phi:
		for _, e := range x.Edges {
			m, o := keysSliceOf(e, seen, depth)
			if !o {
				return nil, false
			}
			maps = append(maps, m...)
		}
		return maps, true
	case *ssa.Const:
		return nil, x.IsNil()
	case *ssa.Parameter:
		vals, o := callerValues(x, -1)
		if !o || len(vals) == 0 {
			return nil, false
		}
		for _, cv := range vals {
			if _, o := keysSliceOf(cv.val, seen, depth+1); !o {
				return nil, false
			}
		}
		return []ssa.Value{nil}, true
	}
	return nil, false
}

// keyOutOfMap: v is a key taken out of a map; maps lists the maps.
func keyOutOfMap(v ssa.Value, seen map[ssa.Value]bool) (maps []ssa.Value, ok bool) {
	v = unspill(v)
	if seen[v] {
		return nil, true
	}
	seen[v] = true
	switch x := v.(type) {
	case *ssa.UnOp:
		if ia, isIA := x.X.(*ssa.IndexAddr); isIA {
			return keysSliceOf(ia.X, map[ssa.Value]bool{}, 0)
		}
	case *ssa.Index:
		return keysSliceOf(x.X, map[ssa.Value]bool{}, 0)
	case *ssa.Call:
		if _, isKey := reflectMethodCall(x, "Key"); isKey && len(x.Call.Args) == 1 {
			return []ssa.Value{nil}, true
		}
	case *ssa.Phi:
		for _, e := range x.Edges {
			m, o := keyOutOfMap(e, seen)
			if !o {
				return nil, false
			}
			maps = append(maps, m...)
		}
		return maps, true
	}
	return nil, false
}

func basicStatic(v ssa.Value) bool {
	c, ok := reflectValueOfCall(v)
	if !ok {
		return false
	}
	mi, ok := c.Call.Args[0].(*ssa.MakeInterface)
	if !ok {
		return false
	}
	_, isBasic := mi.X.Type().Underlying().(*types.Basic)
	return isBasic
}

func reflectValueOfCall(v ssa.Value) (*ssa.Call, bool) {
	c, ok := v.(*ssa.Call)
	if !ok {
		return nil, false
	}
	f := c.Call.StaticCallee()
	if f == nil || f.String() != "reflect.ValueOf" {
		return nil, false
	}
	return c, true
}

type keyLeaf struct {
	v         ssa.Value
	site      ssa.Instruction // where the guard must hold
	converted ssa.Value       // type operand of the Convert it went through (nil: none)
}

func keyLeaves(v ssa.Value, site ssa.Instruction, conv ssa.Value, seen map[ssa.Value]bool, out *[]keyLeaf) {
	v = unspill(v)
	if seen[v] {
		return
	}
	seen[v] = true
	switch x := v.(type) {
	case *ssa.Phi:
		for i, e := range x.Edges {
			pred := x.Block().Preds[i]
			keyLeaves(e, pred.Instrs[len(pred.Instrs)-1], conv, seen, out)
		}
		return
	case *ssa.Call:
		if c, isConv := reflectMethodCall(x, "Convert"); isConv {
			keyLeaves(c.Call.Args[0], c, c.Call.Args[1], seen, out)
			return
		}
	}
	*out = append(*out, keyLeaf{v, site, conv})
}

func comparableGuard(fn *ssa.Function, base ssa.Value, at ssa.Instruction) bool {
	fl := &boolFlow{fn: fn, entry: false}
	fl.edge = func(b *ssa.BasicBlock, i int) bool {
		return anyEdgeFact(b, i, func(v ssa.Value, trueIdx int) bool {
			if i != trueIdx {
				return false
			}
			c, ok := reflectMethodCall(v, "Comparable")
			return ok && len(c.Call.Args) == 1 && isReflectValue(c.Call.Args[0].Type()) && sameValue(unspill(c.Call.Args[0]), base)
		})
	}
	fl.solve()
	if _, isJump := at.(*ssa.Jump); isJump {
		// the state at the end of the block
		b := at.Block()
		return fl.out(b, fl.in[b])
	}
	if _, isIf := at.(*ssa.If); isIf {
		b := at.Block()
		return fl.out(b, fl.in[b])
	}
	return fl.at(at)
}

// keyTypeOf: t is m.Type().Key() for the map value m.
func keyTypeOf(t ssa.Value, m ssa.Value) bool {
	t = unspill(t)
	c, ok := t.(*ssa.Call)
	if !ok || !c.Call.IsInvoke() || c.Call.Method.Name() != "Key" || !isReflectType(c.Call.Value.Type()) {
		return false
	}
	tc, ok := reflectMethodCall(unspill(c.Call.Value), "Type")
	return ok && sameValue(unspill(tc.Call.Args[0]), unspill(m))
}

func checkMapKeys(w *World, r *Report, reach map[*ssa.Function]bool) {
	n := 0
	for _, fn := range w.pkgFuncs() {
		if !reach[fn] {
			continue
		}
		instrsOf(fn, func(in ssa.Instruction) {
			c, ok := in.(*ssa.Call)
			if !ok {
				return
			}
			f := c.Call.StaticCallee()
			if f == nil {
				return
			}
			full := f.String()
			if full != "(reflect.Value).MapIndex" && full != "(reflect.Value).SetMapIndex" {
				return
			}
			n++
			m, key := c.Call.Args[0], c.Call.Args[1]
			pos := w.posOf(in.Pos())
			name := f.Name()
			var leaves []keyLeaf
			keyLeaves(key, in, nil, map[ssa.Value]bool{}, &leaves)
			hashBad, typeBad := "", ""
			for _, lf := range leaves {
				maps, fromMap := keyOutOfMap(lf.v, map[ssa.Value]bool{})
				if !fromMap && !basicStatic(lf.v) && !comparableGuard(fn, lf.v, lf.site) {
					hashBad = "a key that derives from " + describeValue(lf.v) + " is neither taken out of a map, nor of a basic Go type, nor tested with Comparable() on every path"
				}
				// type agreement
				tyOK := false
				if lf.converted != nil && keyTypeOf(lf.converted, m) {
					tyOK = true
				}
				if fromMap && lf.converted == nil {
					same := len(maps) > 0
					for _, km := range maps {
						if km == nil || !sameValue(unspill(km), unspill(m)) {
							same = false
						}
					}
					if same {
						tyOK = true
					} else if full == "(reflect.Value).MapIndex" {
						// a key of ANOTHER map: checked by checkReflectSet's provenance for
						// SetMapIndex; for MapIndex require the AssignableTo guard below
					}
				}
				if !tyOK && full == "(reflect.Value).SetMapIndex" {
					tyOK = true // decided by the type-agreement obligation of checkReflectSet
				}
				if !tyOK && assignableGuard(fn, in) {
					tyOK = true
				}
				if !tyOK {
					typeBad = "the type of a key that derives from " + describeValue(lf.v) + " is not known to fit the map's key type (not a key of the same map, not Convert(m.Type().Key()), no AssignableTo/ConvertibleTo test)"
				}
			}
			if hashBad != "" {
				r.bad("R05.14", ssaName(fn), "hashable key for reflect.Value."+name, pos, hashBad+": a template list or hash used as the key of an interface-keyed map panics with \"hash of unhashable type\"")
			} else {
				r.ok("R05.14", ssaName(fn), "hashable key for reflect.Value."+name, pos, "keys come out of a map, are basic Go values, or passed Comparable()", true)
			}
			if typeBad != "" {
				r.bad("R05.14", ssaName(fn), "key type fits for reflect.Value."+name, pos, typeBad)
			} else {
				r.ok("R05.14", ssaName(fn), "key type fits for reflect.Value."+name, pos, "key of the same map, converted to the map's key type, or type-tested", true)
			}
		})
	}
	r.floor("reflect MapIndex/SetMapIndex sites", n, 8)
}

func describeValue(v ssa.Value) string {
	if c, ok := reflectValueOfCall(v); ok {
		if mi, ok := c.Call.Args[0].(*ssa.MakeInterface); ok {
			return "reflect.ValueOf(" + mi.X.Name() + " " + mi.X.Type().String() + ")"
		}
		return "reflect.ValueOf(" + c.Call.Args[0].Name() + ")"
	}
	return v.Name() + " (" + v.String() + ")"
}
