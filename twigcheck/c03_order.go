package main

// R03.4 — a comparator handed to sort.Slice / sort.SliceStable over plain values (strings,
// numbers, interface{} elements — the keys and lists a template sees) applies ONE criterion to
// every pair.  sort only produces a canonical order if the comparator is a strict weak order.
// The shape that breaks this while looking helpful is the "mixed criterion": numeric
// comparison when both elements look numeric, spelling otherwise — cyclic for "9" < "10" <
// "1a" < "9", so the sorted result is whatever order the elements arrived in (Go's map order
// for keys).  The structural condition checked: inside the comparator (and the package helpers
// it hands both elements to) every branch condition and every returned comparison is
// *symmetric* — it relates p(a) to p(b) for one projection p — or tests one element alone only
// after the same property was found equal for both (`if num(a) != num(b) { return num(a) }`
// separates the classes first).  A test of one element with nothing established chooses the
// criterion per pair.

import (
	"fmt"
	"go/token"
	"go/types"
	"strings"

	"golang.org/x/tools/go/ssa"
)

type cmpShaper struct {
	env map[ssa.Value]string
}

func (cs *cmpShaper) shape(v ssa.Value, depth int) string {
	if s, ok := cs.env[v]; ok {
		return s
	}
	if depth > 10 {
		return "…"
	}
	switch x := v.(type) {
	case *ssa.Const:
		if x.Value == nil {
			return "nil"
		}
		return "c:" + x.Value.ExactString()
	case *ssa.Parameter:
		return "param:" + x.Name()
	case *ssa.FreeVar:
		return "fv:" + x.Name()
	case *ssa.Global:
		return "g:" + x.Name()
	case *ssa.Function:
		return "fn:" + x.String()
	case *ssa.Builtin:
		return "builtin:" + x.Name()
	case *ssa.Call:
		name := "dyn"
		if f := calleeFunc(x); f != nil {
			name = f.FullName()
		} else if b, ok := x.Call.Value.(*ssa.Builtin); ok {
			name = b.Name()
		}
		var parts []string
		if x.Call.IsInvoke() {
			parts = append(parts, cs.shape(x.Call.Value, depth+1))
		}
		for _, a := range x.Call.Args {
			parts = append(parts, cs.shape(a, depth+1))
		}
		return "call[" + name + "](" + strings.Join(parts, ",") + ")"
	case *ssa.Extract:
		return fmt.Sprintf("ext%d(%s)", x.Index, cs.shape(x.Tuple, depth+1))
	case *ssa.BinOp:
		return "(" + cs.shape(x.X, depth+1) + " " + x.Op.String() + " " + cs.shape(x.Y, depth+1) + ")"
	case *ssa.UnOp:
		if x.Op == token.MUL {
			if u := unspill(x); u != ssa.Value(x) {
				return cs.shape(u, depth+1)
			}
		}
		return x.Op.String() + cs.shape(x.X, depth+1)
	case *ssa.Phi:
		var parts []string
		for _, e := range x.Edges {
			if e == ssa.Value(x) {
				continue
			}
			parts = append(parts, cs.shape(e, depth+1))
		}
		return "phi(" + strings.Join(parts, "|") + ")"
	}
	if in, ok := v.(ssa.Instruction); ok {
		var parts []string
		for _, op := range in.Operands(nil) {
			if *op != nil {
				parts = append(parts, cs.shape(*op, depth+1))
			}
		}
		return fmt.Sprintf("%T[%s](%s)", v, v.Type().String(), strings.Join(parts, ","))
	}
	return fmt.Sprintf("%T", v)
}

func swapAB(s string) string {
	s = strings.ReplaceAll(s, "$A", "\x00")
	s = strings.ReplaceAll(s, "$B", "$A")
	return strings.ReplaceAll(s, "\x00", "$B")
}

func mentionsAB(s string) (a, b bool) {
	return strings.Contains(s, "$A"), strings.Contains(s, "$B")
}

// checkSingleCriterion analyses fn (the comparator closure or a helper it passes both elements
// to) under cs.env; returns "" or a description of the first offending construct.
func (w *World) checkSingleCriterion(fn *ssa.Function, cs *cmpShaper, depth int) string {
	if depth > 3 || len(fn.Blocks) == 0 {
		return ""
	}
	// equalities established on edges: projection shapes found equal for both elements
	type eqEdge struct {
		from *ssa.BasicBlock
		succ int
		left string
	}
	var eqs []eqEdge
	for _, b := range fn.Blocks {
		for i := range b.Succs {
			for _, cf := range edgeFacts(b, i) {
				bo, ok := cf.v.(*ssa.BinOp)
				if !ok || (bo.Op != token.EQL && bo.Op != token.NEQ) {
					continue
				}
				sx, sy := cs.shape(bo.X, 0), cs.shape(bo.Y, 0)
				if swapAB(sx) != sy {
					continue
				}
				if xa, xb := mentionsAB(sx); !(xa != xb) {
					continue
				}
				if (bo.Op == token.EQL) == cf.truth {
					l := sx
					if strings.Contains(l, "$B") {
						l = sy
					}
					eqs = append(eqs, eqEdge{b, i, l})
				}
			}
		}
	}
	establishedFor := func(shape string, at *ssa.BasicBlock) bool {
		sh := shape
		if strings.Contains(sh, "$B") {
			sh = swapAB(sh)
		}
		for _, e := range eqs {
			t := e.from.Succs[e.succ]
			if !(len(t.Preds) == 1 && (t == at || t.Dominates(at))) {
				continue
			}
			if strings.Contains(sh, e.left) {
				return true
			}
		}
		return false
	}
	// verdict on one atomic boolean value used as a condition or as the result
	var atom func(v ssa.Value, at *ssa.BasicBlock, d int) string
	atom = func(v ssa.Value, at *ssa.BasicBlock, d int) string {
		for {
			if u, ok := v.(*ssa.UnOp); ok && u.Op == token.NOT {
				v = u.X
				continue
			}
			break
		}
		if _, isC := v.(*ssa.Const); isC {
			return ""
		}
		if ph, ok := v.(*ssa.Phi); ok && d < 4 {
			for k, e := range ph.Edges {
				if why := atom(e, ph.Block().Preds[k], d+1); why != "" {
					return why
				}
			}
			return ""
		}
		s := cs.shape(v, 0)
		ma, mb := mentionsAB(s)
		if !ma && !mb {
			return "" // does not depend on the elements
		}
		if bo, ok := v.(*ssa.BinOp); ok {
			sx, sy := cs.shape(bo.X, 0), cs.shape(bo.Y, 0)
			if swapAB(sx) == sy {
				return "" // p(a) OP p(b)
			}
		}
		if c, ok := v.(*ssa.Call); ok {
			// a helper that receives both elements: analysed with its parameters bound
			if g := c.Call.StaticCallee(); g != nil && isTwigFn(g) && len(g.Blocks) > 0 && ma && mb {
				sub := &cmpShaper{env: map[ssa.Value]string{}}
				for k, p := range g.Params {
					if k < len(c.Call.Args) {
						sub.env[p] = cs.shape(c.Call.Args[k], 0)
					}
				}
				return w.checkSingleCriterion(g, sub, depth+1)
			}
			// x.Before(y), strings.Compare(x, y) < 0 …: symmetric operands of one call
			if len(c.Call.Args) == 2 && swapAB(cs.shape(c.Call.Args[0], 0)) == cs.shape(c.Call.Args[1], 0) {
				return ""
			}
		}
		if ma != mb && establishedFor(s, at) {
			return "" // one element tested after the same property was found equal for both
		}
		what := "relates different projections of the two elements"
		if ma != mb {
			what = "tests one element alone, with nothing established about the other"
		}
		return fmt.Sprintf("%s (%s): %s", w.posOf(v.Pos()), what, strings.NewReplacer("$A", "a", "$B", "b").Replace(s))
	}
	var bad string
	for _, b := range fn.Blocks {
		if bad != "" {
			break
		}
		if len(b.Instrs) == 0 {
			continue
		}
		switch x := b.Instrs[len(b.Instrs)-1].(type) {
		case *ssa.If:
			var facts []condFact
			expandCond(x.Cond, true, &facts, 0)
			for _, cf := range facts {
				if why := atom(cf.v, b, 0); why != "" {
					bad = why
					break
				}
			}
		case *ssa.Return:
			res := retResults(x)
			if len(res) == 1 {
				if why := atom(res[0], b, 0); why != "" {
					bad = why
				}
			}
		}
	}
	return bad
}

func checkSingleCriterionComparators(w *World, r *Report) {
	n := 0
	for _, fn := range w.pkgFuncs() {
		instrsOf(fn, func(in ssa.Instruction) {
			c, ok := in.(*ssa.Call)
			if !ok {
				return
			}
			site, ok := w.sortSiteOf(c)
			if !ok || site.elem == nil {
				return
			}
			switch et := site.elem.Underlying().(type) {
			case *types.Basic:
			case *types.Interface:
				if et.NumMethods() != 0 {
					return
				}
			default:
				return // struct entries (cache bookkeeping), reflect.Value keys (R03.3)
			}
			n++
			cs := &cmpShaper{env: map[ssa.Value]string{}}
			for _, v := range site.a {
				cs.env[v] = "$A"
			}
			for _, v := range site.b {
				cs.env[v] = "$B"
			}
			construct := "comparator applies one criterion to every pair"
			if why := w.checkSingleCriterion(site.cmp, cs, 0); why != "" {
				r.bad("R03.4", ssaName(fn), construct, w.posOf(c.Pos()), "the comparator chooses its criterion per pair — "+why+": such a relation is not a strict weak order (numeric for some pairs, by spelling for others is cyclic), sort then leaves the elements in an order that depends on how they arrived — for keys collected from a map, Go's random iteration order")
			} else {
				r.ok("R03.4", ssaName(fn), construct, w.posOf(c.Pos()), "every condition and result relates the same projection of both elements", true)
			}
		})
	}
	r.Counts["sort comparators over plain values"] = n
}

// sortSite: one call that orders a slice with a user-supplied comparison — sort.Slice /
// SliceStable with a less function, sort.Sort / Stable over a sort.Interface implementation of
// the package (the Less method), slices.SortFunc / SortStableFunc — with the comparison resolved
// through "return helper(x[i], x[j])" delegation to the function that really compares.
type sortSite struct {
	call  *ssa.Call
	elem  types.Type    // element type of the sorted slice (nil if only known to reflection)
	cmp   *ssa.Function // the function that compares
	a, b  []ssa.Value   // the values in cmp that denote the two elements
	outer *ssa.Function // the less function / Less method as passed (== cmp without delegation)
}

func (w *World) sortSiteOf(c *ssa.Call) (*sortSite, bool) {
	f := calleeFunc(c)
	if f == nil || f.Pkg() == nil {
		return nil, false
	}
	prog, _ := w.ssa()
	s := &sortSite{call: c}
	funcOf := func(v ssa.Value) *ssa.Function {
		switch x := v.(type) {
		case *ssa.MakeClosure:
			fn, _ := x.Fn.(*ssa.Function)
			return fn
		case *ssa.Function:
			return x
		}
		return nil
	}
	elemOfSlice := func(v ssa.Value) types.Type {
		if mi, ok := v.(*ssa.MakeInterface); ok {
			v = mi.X
		}
		if st, ok := v.Type().Underlying().(*types.Slice); ok {
			return st.Elem()
		}
		return nil
	}
	indexStyle := true // comparison receives positions i, j
	switch {
	case f.Pkg().Path() == "sort" && (f.Name() == "Slice" || f.Name() == "SliceStable") && len(c.Call.Args) == 2:
		s.elem = elemOfSlice(c.Call.Args[0])
		s.outer = funcOf(c.Call.Args[1])
	case f.Pkg().Path() == "sort" && (f.Name() == "Sort" || f.Name() == "Stable") && len(c.Call.Args) == 1:
		mi, ok := c.Call.Args[0].(*ssa.MakeInterface)
		if !ok {
			return nil, false
		}
		t := mi.X.Type()
		n, ok := deref(t).(*types.Named)
		if !ok || n.Obj().Pkg() == nil || n.Obj().Pkg().Path() != twigPath {
			return nil, false
		}
		sel := prog.MethodSets.MethodSet(t).Lookup(n.Obj().Pkg(), "Less")
		if sel == nil {
			return nil, false
		}
		s.outer = prog.MethodValue(sel)
		switch u := n.Underlying().(type) {
		case *types.Slice:
			s.elem = u.Elem()
		}
	case f.Pkg().Path() == "slices" && (f.Name() == "SortFunc" || f.Name() == "SortStableFunc") && len(c.Call.Args) == 2:
		s.elem = elemOfSlice(c.Call.Args[0])
		s.outer = funcOf(c.Call.Args[1])
		indexStyle = false
	default:
		return nil, false
	}
	if s.outer == nil || len(s.outer.Blocks) == 0 {
		return nil, false
	}
	s.cmp = s.outer
	np := len(s.cmp.Params)
	if np < 2 {
		return nil, false
	}
	pi, pj := s.cmp.Params[np-2], s.cmp.Params[np-1]
	if indexStyle {
		instrsOf(s.cmp, func(x ssa.Instruction) {
			var idx ssa.Value
			var val ssa.Value
			switch y := x.(type) {
			case *ssa.UnOp:
				if ia, ok := y.X.(*ssa.IndexAddr); ok && y.Op == token.MUL {
					idx, val = ia.Index, y
				}
			case *ssa.Index:
				idx, val = y.Index, y
			case *ssa.Call:
				// v.Index(i) on a reflect.Value
				if g := y.Call.StaticCallee(); g != nil && g.String() == "(reflect.Value).Index" {
					idx, val = y.Call.Args[1], y
				}
			}
			switch idx {
			case ssa.Value(pi):
				s.a = append(s.a, val)
			case ssa.Value(pj):
				s.b = append(s.b, val)
			}
		})
	} else {
		s.a, s.b = []ssa.Value{pi}, []ssa.Value{pj}
	}
	// delegation: the whole body is `return helper(<a>, <b>)`
	for depth := 0; depth < 2; depth++ {
		if len(s.cmp.Blocks) != 1 {
			break
		}
		var ret *ssa.Return
		for _, in := range s.cmp.Blocks[0].Instrs {
			if r, ok := in.(*ssa.Return); ok {
				ret = r
			}
		}
		if ret == nil || len(ret.Results) != 1 {
			break
		}
		call, ok := ret.Results[0].(*ssa.Call)
		if !ok {
			break
		}
		g := call.Call.StaticCallee()
		if g == nil || !isTwigFn(g) || len(g.Blocks) == 0 || len(call.Call.Args) != 2 || len(g.Params) != 2 {
			break
		}
		isIn := func(v ssa.Value, set []ssa.Value) bool {
			for _, x := range set {
				if x == v {
					return true
				}
			}
			return false
		}
		if !(isIn(call.Call.Args[0], s.a) && isIn(call.Call.Args[1], s.b)) {
			break
		}
		s.cmp = g
		s.a, s.b = []ssa.Value{g.Params[0]}, []ssa.Value{g.Params[1]}
	}
	return s, true
}
