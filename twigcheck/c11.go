package main

// C11 — include renders in the right scope and never changes the includer's state.
//
// R11.1 a function that loads another template and renders it (include, extends, import,
//       from-import) never hands its own *RenderContext parameter to the nested Render: the
//       nested context is, on every path, the result of Clone() / NewRenderContext().
// R11.2 `only` hides: in IncludeNode.Render everything that gives the included template access
//       to the includer's variables (Clone(), a copy loop over ctx.context, a parent link) is
//       executed only where the node's `only` flag is known to be false.
// R11.3 `ignore missing` swallows only not-found: every nil-error return that depends on the
//       ignoreMissing flag also depends on errors.Is(err, ErrTemplateNotFound).
// R11.4 freshness is real: the map fields of a RenderContext are only ever assigned maps that are
//       fresh (pool Get / make) or nil — never another context's map, never a caller's map.

import (
	"fmt"
	"go/token"
	"go/types"
	"strings"

	"golang.org/x/tools/go/ssa"
)

func init() { register("C11", checkC11) }

// ctxConstructors: functions that return a RenderContext taken from renderContextPool.
func (w *World) ctxConstructors() map[*ssa.Function]bool {
	out := map[*ssa.Function]bool{}
	for _, p := range w.pools() {
		if p.name != "renderContextPool" {
			continue
		}
		for _, s := range p.gets {
			if s.val != nil && flowsToReturn(s.val) {
				out[s.fn] = true
			}
		}
	}
	if len(out) == 0 {
		cannotDecide("no RenderContext constructor found")
	}
	// functions that return the result of a constructor are constructors too (Clone built on
	// NewRenderContext, convenience wrappers)
	for changed := true; changed; {
		changed = false
		for _, fn := range w.pkgFuncs() {
			if out[fn] {
				continue
			}
			instrsOf(fn, func(in ssa.Instruction) {
				c, ok := in.(*ssa.Call)
				if !ok || out[fn] {
					return
				}
				if f := c.Call.StaticCallee(); f != nil && out[f] && isNamed(c.Type(), twigPath, "RenderContext") && flowsToReturn(c) {
					out[fn] = true
					changed = true
				}
			})
		}
	}
	return out
}

func checkC11(w *World, r *Report) {
	r.Explanation = "Decides the non-interference clauses of C11 on every path: (R11.1) every function that loads another template and renders it passes to the nested Render a context that is the result of Clone()/NewRenderContext() on every path, never its own context parameter, so nothing the included template sets can land in the includer's scope; (R11.2) in IncludeNode.Render, Clone(), the copy of ctx.context and any parent link are reachable only where the `only` flag is false; (R11.3) every nil-error return that is control-dependent on the ignoreMissing flag is also control-dependent on errors.Is(err, ErrTemplateNotFound); (R11.4) the four map fields of a RenderContext are only ever assigned fresh maps (pool Get / make) or nil, so a derived context never shares a scope map with its parent or with the caller. Not decided: option parsing of the include tag, computed names, what the included template prints."
	r.Explanation += " Rules added in later rounds: (R11.5) include resolves through Engine.Load; (R11.6) every with-variable is bound; (R11.7) outward walks of the context chain that copy variables never overwrite; (R11.8) every by-name read of a context's own map reaches .parent (or a verified reader) on every miss path. (R11.9) no write to the variable map of a context reached through .parent; (R11.10) without `only` the include's context is linked to the includer's."
	r.Explanation += " Round 9: (R11.11) tables of parsed expressions only grow in the parser."
	r.Explanation += " Round 11: (R11.12) text in front of a keyword of the include tag is consumed."
	r.Explanation += " Round 12: (R11.13) locals before globals; (R11.14) include output unchanged; (R11.15) scopes are asked innermost first."
	r.RuleText = "obligation = one nested Render call / one access-granting construct / one nil return / one store to a scope-map field; non-trivial = those needing dataflow (all but R11.4's fresh stores)"
	r.Trusted = []string{"Clone()/NewRenderContext() are the only RenderContext constructors (found by role: return renderContextPool.Get())"}

	ctors := w.ctxConstructors()
	loadFn := w.method("Engine", "Load")
	isCtx := func(v ssa.Value) bool { return isNamed(v.Type(), twigPath, "RenderContext") }

	// ---- R11.1
	// functions that obtain another template: they call Engine.Load, or a helper of the package
	// that does and hands the *Template back
	loaders := map[*ssa.Function]bool{}
	returnsTemplate := func(f *ssa.Function) bool {
		res := f.Signature.Results()
		for i := 0; i < res.Len(); i++ {
			if isNamed(res.At(i).Type(), twigPath, "Template") {
				return true
			}
		}
		return false
	}
	for changed := true; changed; {
		changed = false
		for _, fn := range w.pkgFuncs() {
			if loaders[fn] {
				continue
			}
			instrsOf(fn, func(in ssa.Instruction) {
				c, ok := in.(ssa.CallInstruction)
				if !ok || loaders[fn] {
					return
				}
				if calleeFunc(c) == loadFn {
					loaders[fn] = true
					changed = true
					return
				}
				if g := c.Common().StaticCallee(); g != nil && loaders[g] && returnsTemplate(g) && g != fn {
					loaders[fn] = true
					changed = true
				}
			})
		}
	}
	n1 := 0
	for _, fn := range w.pkgFuncs() {
		var ctxParam *ssa.Parameter
		for _, p := range fn.Params {
			if isCtx(p) {
				ctxParam = p
			}
		}
		if ctxParam == nil {
			continue
		}
		if !loaders[fn] {
			continue
		}
		instrsOf(fn, func(in ssa.Instruction) {
			c, ok := in.(ssa.CallInstruction)
			if !ok {
				return
			}
			f := calleeFunc(c)
			if f == nil || f.Name() != "Render" || !c.Common().IsInvoke() {
				return
			}
			for _, a := range c.Common().Args {
				if !isCtx(a) {
					continue
				}
				n1++
				leaves, bad := ctxLeaves(a, ctxParam, ctors)
				construct := "context of nested Render"
				if bad != "" {
					r.bad("R11.1", ssaName(fn), construct, w.posOf(in.Pos()), "the loaded template can be rendered in "+bad+": its set statements, loop variables and `with` variables become visible to the including template")
				} else {
					r.ok("R11.1", ssaName(fn), construct, w.posOf(in.Pos()), "on every path a fresh context from "+strings.Join(leaves, " / "), true)
				}
			}
		})
	}
	r.floor("nested Render calls in template-loading functions", n1, 2)

	checkResolvesThroughLoad(w, r, "R11.5", []string{"IncludeNode"}, "an include is answered from a per-node or per-context shortcut instead of the template the name denotes now")
	checkChainFlattening(w, r)
	checkReadsFollowChain(w, r)
	checkNoWritesUpTheChain(w, r)
	checkParsedBindingsKept(w, r)
	checkTagTextConsumed(w, r, "R11.12")
	checkLocalsBeforeGlobals(w, r)
	checkIncludeOutputUnchanged(w, r)
	checkScopesAskedInnermostFirst(w, r)

	// ---- R11.2 / R11.3 in IncludeNode.Render and its parts (unexported helpers with that one call
	// site; flags may travel in a local struct of options and be tested by predicate helpers)
	inc := w.ssaFunc(w.method("IncludeNode", "Render"))
	incCtx := inc.Params[2]
	type part struct {
		fn     *ssa.Function
		site   ssa.CallInstruction
		parent *ssa.Function
	}
	parts := []part{{fn: inc}}
	isPart := map[*ssa.Function]bool{inc: true}
	for k := 0; k < len(parts) && k < 12; k++ {
		pf := parts[k].fn
		instrsOf(pf, func(in ssa.Instruction) {
			c, ok := in.(ssa.CallInstruction)
			if !ok {
				return
			}
			g := c.Common().StaticCallee()
			if g == nil || isPart[g] || !isTwigFn(g) || g.Object() == nil || g.Object().Exported() || len(g.Blocks) == 0 {
				return
			}
			if _, isCall := in.(*ssa.Call); !isCall {
				return
			}
			if in := realInEdges(g); len(in) != 1 || in[0].Site != c {
				return
			}
			isPart[g] = true
			parts = append(parts, part{g, c, pf})
		})
	}
	flagMatch := func(field string, wantTrue bool) factMatcher {
		return func(v ssa.Value, truth bool, resolve func(ssa.Value) ssa.Value) bool {
			if truth != wantTrue {
				return false
			}
			_, ok := fieldLoad(origin(resolve(v)), "IncludeNode", field)
			return ok
		}
	}
	// flows: one must-flow per part; a helper starts with what held at its call site
	flows := func(m factMatcher) map[*ssa.Function]*boolFlow {
		out := map[*ssa.Function]*boolFlow{}
		for _, pt := range parts {
			entry := false
			if pt.parent != nil {
				entry = out[pt.parent].at(pt.site)
			}
			fl := &boolFlow{fn: pt.fn, entry: entry}
			fl.edge = func(b *ssa.BasicBlock, i int) bool {
				for _, cf := range edgeFacts(b, i) {
					if condImplies(cf.v, cf.truth, m) {
						return true
					}
				}
				return false
			}
			fl.solve()
			out[pt.fn] = fl
		}
		return out
	}
	onlyFalse := flows(flagMatch("only", false))
	n2 := 0
	for _, pt := range parts {
		pf := pt.fn
		instrsOf(pf, func(in ssa.Instruction) {
			what := ""
			switch x := in.(type) {
			case *ssa.Call:
				if f := x.Call.StaticCallee(); f != nil && ctors[f] {
					// a constructor that receives the includer's context (Clone) links/reads through
					for ai, a := range x.Call.Args {
						if origin(a) == ssa.Value(incCtx) && ctorReadsScope(f, ai, ctors, 0) {
							what = "call " + ssaName(f) + " on the includer's context (read-through scope)"
						}
					}
				}
			case *ssa.Range:
				if base, ok := fieldLoad(origin(x.X), "RenderContext", "context"); ok && origin(base) == ssa.Value(incCtx) {
					what = "copy loop over the includer's variables"
				}
			case *ssa.Store:
				if _, ok := fieldAddr(x.Addr, "RenderContext", "parent"); ok && origin(x.Val) == ssa.Value(incCtx) {
					what = "parent link to the includer's context"
				}
			}
			if what == "" {
				return
			}
			n2++
			if onlyFalse[pf].at(in) {
				r.ok("R11.2", ssaName(pf), what, w.posOf(in.Pos()), "reachable only where n.only is false", true)
			} else {
				r.bad("R11.2", ssaName(pf), what, w.posOf(in.Pos()), "this gives the included template access to the includer's variables on a path on which `only` may be set")
			}
		})
	}
	r.floor("scope-granting constructs in IncludeNode.Render", n2, 1)

	// ---- R11.10 (the converse of R11.2): without `only` the included template reads what the
	// includer reads.  A context built for the include that is NOT linked to the includer's
	// context (no Clone of it, no parent link to it) gives access to a copy of one map at best —
	// the variables bound further out in the chain (the render call's, an outer template's) are
	// gone — so such a construction may only happen where n.only is true.
	onlyTrue := flows(flagMatch("only", true))
	n10 := 0
	for _, pt := range parts {
		pf := pt.fn
		instrsOf(pf, func(in ssa.Instruction) {
			x, ok := in.(*ssa.Call)
			if !ok {
				return
			}
			f := x.Call.StaticCallee()
			if f == nil || !ctors[f] {
				return
			}
			linked := false
			for _, a := range x.Call.Args {
				if isNamed(a.Type(), twigPath, "RenderContext") && origin(a) == ssa.Value(incCtx) {
					linked = true // Clone() of the includer's context
				}
			}
			if !linked && x.Referrers() != nil {
				// parent link stored afterwards
				instrsOf(pf, func(y ssa.Instruction) {
					if st, ok := y.(*ssa.Store); ok {
						if base, ok := fieldAddr(st.Addr, "RenderContext", "parent"); ok && unspill(base) == ssa.Value(x) && origin(st.Val) == ssa.Value(incCtx) {
							linked = true
						}
					}
				})
			}
			n10++
			construct := "context built for the include: " + ssaName(f)
			switch {
			case linked:
				r.ok("R11.10", ssaName(pf), construct, w.posOf(in.Pos()), "linked to the includer's context", true)
			case onlyTrue[pf].at(in):
				r.ok("R11.10", ssaName(pf), construct, w.posOf(in.Pos()), "unlinked, but reachable only where n.only is true", true)
			default:
				r.bad("R11.10", ssaName(pf), construct, w.posOf(in.Pos()), "a context that is not linked to the includer's is built on a path on which `only` may be false: the included template then sees at most a copy of the includer's innermost variable map — what is bound further out (the render call's variables when the includer is itself an included template, a macro's caller) reads as undefined")
			}
		})
	}
	r.floor("contexts built in IncludeNode.Render", n10, 1)

	// R11.3
	notFoundFor := func(errv ssa.Value) *boolFlow {
		return flows(func(v ssa.Value, truth bool, resolve func(ssa.Value) ssa.Value) bool {
			if !truth {
				return false
			}
			c, ok := v.(*ssa.Call)
			if !ok || !isFunc(calleeFunc(c), "errors", "", "Is") || len(c.Call.Args) != 2 {
				return false
			}
			if !sameValue(resolve(c.Call.Args[0]), errv) {
				return false
			}
			g := globalOf(c.Call.Args[1])
			return g != nil && g.Name() == "ErrTemplateNotFound"
		})[inc]
	}
	// swallowedErr: the error whose non-nil test most closely dominates the instruction
	swallowedErr := func(in ssa.Instruction) ssa.Value {
		for b := in.Block(); b != nil; b = b.Idom() {
			d := b.Idom()
			if d == nil {
				break
			}
			v, trueIdx, ok := ifCond(d)
			if !ok {
				continue
			}
			bo, ok := v.(*ssa.BinOp)
			if !ok || (bo.Op != token.NEQ && bo.Op != token.EQL) {
				continue
			}
			x, y := bo.X, bo.Y
			if isNilConst(x) {
				x, y = y, x
			}
			if !isNilConst(y) || !types.Identical(x.Type(), types.Universe.Lookup("error").Type()) {
				continue
			}
			nonNil := d.Succs[trueIdx]
			if bo.Op == token.EQL {
				nonNil = d.Succs[1-trueIdx]
			}
			if nonNil == b || nonNil.Dominates(b) {
				return x
			}
		}
		return nil
	}
	ign := flows(flagMatch("ignoreMissing", true))[inc]
	n3 := 0
	errT := types.Universe.Lookup("error").Type()
	instrsOf(inc, func(in ssa.Instruction) {
		ret, ok := in.(*ssa.Return)
		if !ok || len(ret.Results) == 0 {
			return
		}
		last := retResults(ret)[len(ret.Results)-1]
		if !types.Identical(last.Type(), errT) || !isNilConst(last) {
			return
		}
		if !ign.at(in) {
			return // not a return that exists because of ignoreMissing
		}
		n3++
		errv := swallowedErr(in)
		if errv == nil {
			r.bad("R11.3", ssaName(inc), "nil return under ignoreMissing", w.posOf(in.Pos()), "nil is returned under ignoreMissing but no failed call can be associated with it")
			return
		}
		if !isLoadError(errv, loadFn) {
			r.bad("R11.3", ssaName(inc), "nil return under ignoreMissing", w.posOf(in.Pos()), "the error that `ignore missing` swallows here is not the result of looking the named template up (Engine.Load): failures inside the included template are turned into empty output")
			return
		}
		if notFoundFor(errv).at(in) {
			r.ok("R11.3", ssaName(inc), "nil return under ignoreMissing", w.posOf(in.Pos()), "also under errors.Is(err, ErrTemplateNotFound)", true)
		} else {
			r.bad("R11.3", ssaName(inc), "nil return under ignoreMissing", w.posOf(in.Pos()), "`ignore missing` turns a failure that is not 'template not found' into empty output (no errors.Is(err, ErrTemplateNotFound) on this path)")
		}
	})
	// deferred / nested function literals that clear the function's error result under the flag:
	// such a closure sees whatever error the function is about to return, including errors of the
	// nested Render — it cannot be tied to the lookup of the named template
	for _, a := range inc.AnonFuncs {
		mentionsFlag := false
		instrsOf(a, func(in ssa.Instruction) {
			if fa, ok := in.(*ssa.FieldAddr); ok {
				if tn, f := fieldOfAddr(fa); tn == "IncludeNode" && f == "ignoreMissing" {
					mentionsFlag = true
				}
			}
		})
		clears := false
		var at ssa.Instruction
		instrsOf(a, func(in ssa.Instruction) {
			if st, ok := in.(*ssa.Store); ok && isNilConst(st.Val) && types.Identical(deref(st.Addr.Type()), types.Universe.Lookup("error").Type()) {
				if _, isFV := st.Addr.(*ssa.FreeVar); isFV {
					clears, at = true, in
				}
			}
		})
		// the flag may also be tested in the enclosing function before the defer is installed
		if clears {
			n3++
			_ = mentionsFlag
			r.bad("R11.3", ssaName(a), "error result cleared in a function literal", w.posOf(at.Pos()), "a (deferred) function literal sets the include's error result to nil: it applies to every error the function is about to return — also to failures raised while rendering the included template — so `ignore missing` no longer swallows only the missing named template")
		}
	}
	r.floor("nil returns controlled by ignoreMissing", n3, 1)

	// ---- R11.4
	n4 := 0
	scopeMaps := map[string]bool{"context": true, "blocks": true, "parentBlocks": true, "macros": true}
	for _, fn := range w.pkgFuncs() {
		instrsOf(fn, func(in ssa.Instruction) {
			st, ok := in.(*ssa.Store)
			if !ok {
				return
			}
			fa, ok := st.Addr.(*ssa.FieldAddr)
			if !ok {
				return
			}
			tn, f := fieldOfAddr(fa)
			if tn != "RenderContext" || !scopeMaps[f] {
				return
			}
			n4++
			construct := "store RenderContext." + f
			why, fresh := freshMapFor(st.Val, 0, fa)
			if fresh {
				r.ok("R11.4", ssaName(fn), construct, w.posOf(in.Pos()), why, false)
			} else {
				r.bad("R11.4", ssaName(fn), construct, w.posOf(in.Pos()), "a scope map of a render context is assigned "+why+": two contexts (or the context and the caller) share one map, so writes in one scope appear in the other and a released context's map is recycled while still in use")
			}
		})
	}
	r.floor("stores to RenderContext scope-map fields", n4, 8)

	// ---- R11.6: every `with` variable is handed over.  Each pass of the loop over the node's
	// variables either leaves the function (an evaluation error) or binds the name on the
	// included template's context; a pass that skips the binding for some values (null) lets the
	// includer's variable of that name show through.
	setVar := w.method("RenderContext", "SetVariable")
	n6 := 0
	for _, pt := range parts {
		pf := pt.fn
		instrsOf(pf, func(in ssa.Instruction) {
			nx, ok := in.(*ssa.Next)
			if !ok {
				return
			}
			rg, ok := nx.Iter.(*ssa.Range)
			if !ok {
				return
			}
			if _, ok := fieldLoad(origin(rg.X), "IncludeNode", "variables"); !ok {
				return
			}
			header := nx.Block()
			apply := map[*ssa.BasicBlock]bool{}
			instrsOf(pf, func(x ssa.Instruction) {
				if c, ok := x.(ssa.CallInstruction); ok && calleeFunc(c) == setVar {
					apply[x.Block()] = true
				}
			})
			if len(apply) == 0 {
				return
			}
			n6++
			// the body: the successor of the header taken while the iteration goes on
			seenB := map[*ssa.BasicBlock]bool{}
			skip := false
			var dfs func(b *ssa.BasicBlock)
			dfs = func(b *ssa.BasicBlock) {
				if skip || seenB[b] || apply[b] {
					return
				}
				seenB[b] = true
				for _, sb := range b.Succs {
					if sb == header {
						skip = true
						return
					}
					dfs(sb)
				}
			}
			for _, sb := range header.Succs {
				if sb != header {
					dfs(sb)
				}
			}
			construct := "every with-variable is bound on the included context"
			if skip {
				r.bad("R11.6", ssaName(pf), construct, w.posOf(in.Pos()), "the loop over the `with` variables can go on to the next one without calling SetVariable for this one: for such values the included template sees the includer's variable of that name instead of the value passed")
			} else {
				r.ok("R11.6", ssaName(pf), construct, w.posOf(in.Pos()), "each pass binds the name or leaves the function", true)
			}
		})
	}
	r.floor("loops over the with-variables of an include", n6, 1)
	// composite literals of RenderContext (pool New) are fresh by construction: checked through the same stores in SSA
}

// ctxLeaves resolves a context value through phis: every leaf must be a constructor call.
func ctxLeaves(v ssa.Value, param *ssa.Parameter, ctors map[*ssa.Function]bool) (leaves []string, bad string) {
	seen := map[ssa.Value]bool{}
	var walk func(v ssa.Value)
	walk = func(v ssa.Value) {
		if seen[v] || bad != "" {
			return
		}
		seen[v] = true
		switch x := v.(type) {
		case *ssa.Phi:
			for _, e := range x.Edges {
				walk(e)
			}
		case *ssa.Parameter:
			if x == param {
				bad = "the including template's own context"
			} else {
				bad = "a context received as parameter " + x.Name()
			}
		case *ssa.Call:
			if f := x.Call.StaticCallee(); f != nil && ctors[f] {
				leaves = append(leaves, ssaName(f))
				return
			}
			bad = "a context of unknown origin (" + x.String() + ")"
		case *ssa.UnOp:
			// spilled local
			if u := unspill(x); u != x {
				walk(u)
				return
			}
			if al, ok := x.X.(*ssa.Alloc); ok && al.Referrers() != nil {
				any := false
				for _, ref := range *al.Referrers() {
					if st, ok := ref.(*ssa.Store); ok && st.Addr == al {
						any = true
						walk(st.Val)
					}
				}
				if any {
					return
				}
			}
			bad = "a context of unknown origin"
		default:
			bad = fmt.Sprintf("a context of unknown origin (%T)", v)
		}
	}
	walk(v)
	return
}

// freshMap: is the value a fresh map (pool Get, make, literal) or nil?
func freshMap(v ssa.Value, depth int) (string, bool) { return freshMapFor(v, depth, nil) }

// freshMapFor: as freshMap; additionally the value may be the current value of the very field
// it is stored to (target), which changes nothing (`ctx.m = emptied(ctx.m)`).
func freshMapFor(v ssa.Value, depth int, target *ssa.FieldAddr) (string, bool) {
	if depth > 6 {
		return "a value of unknown origin", false
	}
	if target != nil {
		if u, ok := v.(*ssa.UnOp); ok && u.Op == token.MUL {
			if fa, ok := u.X.(*ssa.FieldAddr); ok && fa.Field == target.Field && sameValue(fa.X, target.X) {
				return "the field's own current map", true
			}
		}
	}
	switch x := v.(type) {
	case *ssa.Call:
		// a helper of the package whose every result is fresh, or is one of its parameters and
		// the argument passed for it is fresh / the field's own map
		f := x.Call.StaticCallee()
		if f == nil || !isTwigFn(f) || len(f.Blocks) == 0 || x.Call.IsInvoke() {
			break
		}
		why, ok := "", true
		nret := 0
		instrsOf(f, func(in ssa.Instruction) {
			ret, isRet := in.(*ssa.Return)
			if !isRet || !ok {
				return
			}
			res := retResults(ret)
			if len(res) != 1 {
				why, ok = "a value of unknown origin", false
				return
			}
			nret++
			if p, isP := res[0].(*ssa.Parameter); isP {
				for i, fp := range f.Params {
					if fp == p && i < len(x.Call.Args) {
						if w2, ok2 := freshMapFor(x.Call.Args[i], depth+1, target); !ok2 {
							why, ok = w2, false
						}
						return
					}
				}
				why, ok = "a value of unknown origin", false
				return
			}
			if w2, ok2 := freshMapFor(res[0], depth+1, nil); !ok2 {
				why, ok = w2+" (returned by "+f.Name()+")", false
			}
		})
		if ok && nret > 0 {
			return "fresh from helper " + f.Name(), true
		}
		if !ok {
			return why, false
		}
	}
	switch x := v.(type) {
	case *ssa.Const:
		if x.Value == nil {
			return "nil", true
		}
	case *ssa.MakeMap:
		return "make(map)", true
	case *ssa.TypeAssert:
		if c, ok := x.X.(*ssa.Call); ok && isFunc(calleeFunc(c), "sync", "Pool", "Get") {
			return "a map from a pool", true
		}
	case *ssa.Phi:
		for _, e := range x.Edges {
			if why, ok := freshMapFor(e, depth+1, target); !ok {
				return why, false
			}
		}
		return "fresh on every edge", true
	case *ssa.Parameter:
		return "the caller's map (parameter " + x.Name() + ")", false
	case *ssa.UnOp:
		if fa, ok := x.X.(*ssa.FieldAddr); ok {
			tn, f := fieldOfAddr(fa)
			return "another object's map (" + tn + "." + f + ")", false
		}
	}
	return "a value of unknown origin", false
}

// isLoadError: the error value is result #1 of a call to Engine.Load (through phis).
func isLoadError(v ssa.Value, loadFn *types.Func) bool {
	return isLoadErrorIn(v, loadFn, map[*ssa.Function]bool{})
}

func isLoadErrorIn(v ssa.Value, loadFn *types.Func, helperSeen map[*ssa.Function]bool) bool {
	seen := map[ssa.Value]bool{}
	var walk func(v ssa.Value) bool
	walk = func(v ssa.Value) bool {
		if seen[v] {
			return true
		}
		seen[v] = true
		switch x := v.(type) {
		case *ssa.Extract:
			c, ok := x.Tuple.(*ssa.Call)
			if !ok {
				return false
			}
			if calleeFunc(c) == loadFn {
				return true
			}
			// a loading helper of the package: every error it returns is a Load error (or nil)
			if g := c.Call.StaticCallee(); g != nil && isTwigFn(g) && len(g.Blocks) > 0 && !helperSeen[g] {
				helperSeen[g] = true
				defer delete(helperSeen, g)
				all, n := true, 0
				instrsOf(g, func(in ssa.Instruction) {
					ret, isRet := in.(*ssa.Return)
					if !isRet {
						return
					}
					res := retResults(ret)
					if x.Index >= len(res) {
						all = false
						return
					}
					ev := res[x.Index]
					if isNilConst(ev) {
						return
					}
					n++
					if !isLoadErrorIn(ev, loadFn, helperSeen) {
						all = false
					}
				})
				return all && n > 0
			}
			return false
		case *ssa.Phi:
			for _, e := range x.Edges {
				if isNilConst(e) {
					continue
				}
				if !walk(e) {
					return false
				}
			}
			return true
		case *ssa.UnOp:
			// named result / spilled local: every non-nil store must be a Load error
			if al, ok := x.X.(*ssa.Alloc); ok && al.Referrers() != nil {
				n := 0
				for _, ref := range *al.Referrers() {
					if st, ok := ref.(*ssa.Store); ok && st.Addr == al && !isNilConst(st.Val) {
						n++
						if !walk(st.Val) {
							return false
						}
					}
				}
				return n > 0
			}
		}
		return false
	}
	return walk(v)
}

// templateLoaders: functions that obtain another template — they call Engine.Load, or a helper of
// the package that does and hands the *Template back.
func (w *World) templateLoaders() map[*ssa.Function]bool {
	if w.loadersMemo != nil {
		return w.loadersMemo
	}
	loadFn := w.method("Engine", "Load")
	loaders := map[*ssa.Function]bool{}
	returnsTemplate := func(f *ssa.Function) bool {
		res := f.Signature.Results()
		for i := 0; i < res.Len(); i++ {
			if isNamed(res.At(i).Type(), twigPath, "Template") {
				return true
			}
		}
		return false
	}
	for changed := true; changed; {
		changed = false
		for _, fn := range w.pkgFuncs() {
			if loaders[fn] {
				continue
			}
			instrsOf(fn, func(in ssa.Instruction) {
				c, ok := in.(ssa.CallInstruction)
				if !ok || loaders[fn] {
					return
				}
				if calleeFunc(c) == loadFn {
					loaders[fn] = true
					changed = true
					return
				}
				if g := c.Common().StaticCallee(); g != nil && loaders[g] && returnsTemplate(g) && g != fn {
					loaders[fn] = true
					changed = true
				}
			})
		}
	}
	w.loadersMemo = loaders
	return loaders
}

// checkResolvesThroughLoad: the Render method of a node that refers to another template reaches a
// successful return only through the engine's Load (directly or through a loading helper): no
// per-node or per-context shortcut decides which template is meant or whether it is (re)read —
// the engine's cache, reload policy and name resolution see every render.
func checkResolvesThroughLoad(w *World, r *Report, rule string, typeNames []string, consequence string) {
	loaders := w.templateLoaders()
	loadFn := w.method("Engine", "Load")
	n := 0
	for _, tn := range typeNames {
		m := w.tryMethod(tn, "Render")
		if m == nil {
			continue
		}
		fn := w.ssaFunc(m)
		n++
		isLoad := func(in ssa.Instruction) bool {
			c, ok := in.(ssa.CallInstruction)
			if !ok {
				return false
			}
			if _, isDefer := in.(*ssa.Defer); isDefer {
				return false
			}
			if calleeFunc(c) == loadFn {
				return true
			}
			g := c.Common().StaticCallee()
			return g != nil && loaders[g]
		}
		construct := "every successful render resolves the template through Engine.Load"
		bad := ""
		instrsOf(fn, func(in ssa.Instruction) {
			ret, ok := in.(*ssa.Return)
			if !ok || bad != "" {
				return
			}
			res := retResults(ret)
			if len(res) == 0 || errorSurelyNonNil(res[len(res)-1], ret.Block()) {
				return
			}
			if b, path := existsPathAvoiding(fn, in, isLoad, nil); b {
				bad = w.posOf(ret.Pos()) + " (path " + strings.Join(path, " → ") + ")"
			}
		})
		if bad == "" {
			r.ok(rule, ssaName(fn), construct, w.posOf(fn.Pos()), "no nil-error return is reachable without a call that loads the template", true)
		} else {
			r.bad(rule, ssaName(fn), construct, w.posOf(fn.Pos()), "a successful return at "+bad+" is reachable without asking the engine for the template: "+consequence)
		}
	}
	r.floor("template-referencing node renderers ("+strings.Join(typeNames, ", ")+")", n, len(typeNames))
}

// errorSurelyNonNil: the error value returned in block b cannot be nil: a freshly made error, the
// result of a constructor that always returns one, or a value tested != nil on the way.
func errorSurelyNonNil(v ssa.Value, b *ssa.BasicBlock) bool {
	if isNilConst(v) {
		return false
	}
	switch x := v.(type) {
	case *ssa.MakeInterface:
		return true
	case *ssa.Call:
		if g := x.Call.StaticCallee(); g != nil {
			if g.String() == "fmt.Errorf" || g.String() == "errors.New" || alwaysNonNilError(g) {
				return true
			}
		}
	}
	for d := b; d != nil; d = d.Idom() {
		p := d.Idom()
		if p == nil {
			break
		}
		for i, sc := range p.Succs {
			if sc != d || len(d.Preds) != 1 {
				continue
			}
			for _, cf := range edgeFacts(p, i) {
				bo, ok := cf.v.(*ssa.BinOp)
				if !ok || (bo.Op != token.NEQ && bo.Op != token.EQL) {
					continue
				}
				x, y := bo.X, bo.Y
				if isNilConst(x) {
					x, y = y, x
				}
				if !isNilConst(y) || !sameValue(x, v) {
					continue
				}
				nonNil := (bo.Op == token.NEQ) == cf.truth
				if nonNil {
					return true
				}
			}
		}
	}
	return false
}

// checkChainFlattening — R11.7: flattening a chain of contexts keeps the inner binding.  A
// variable is looked up innermost-first (own map, then .parent, …), which is what makes a
// `with` variable or a loop variable shadow the includer's.  Any loop that walks a context's
// .parent chain outwards and copies each level's variables into one map must therefore not
// overwrite: the store has to be controlled by an absence test of the same key in the
// destination.  (A copy made level by level in the other order is not matched by this rule.)
func checkChainFlattening(w *World, r *Report) {
	n := 0
	for _, fn := range w.pkgFuncs() {
		instrsOf(fn, func(in ssa.Instruction) {
			mu, ok := in.(*ssa.MapUpdate)
			if !ok {
				return
			}
			// the key comes from ranging over the variable map of a context …
			rng := rangeOfKey(mu.Key)
			if rng == nil {
				return
			}
			owner, ok := fieldLoad(rng.X, "RenderContext", "context")
			if !ok {
				return
			}
			// … that walks a parent chain: phi with an edge loading .parent of the phi itself
			ph, ok := unspill(owner).(*ssa.Phi)
			if !ok {
				return
			}
			walks := false
			for _, e := range ph.Edges {
				if base, ok := fieldLoad(e, "RenderContext", "parent"); ok && unspill(base) == ssa.Value(ph) {
					walks = true
				}
			}
			if !walks {
				return
			}
			n++
			construct := "copy of an enclosing context's variables keeps inner bindings"
			guarded := false
			for _, c := range controllingConds(in) {
				if lookupPresence(c, mu.Map, mu.Key) {
					guarded = true
				}
			}
			if guarded {
				r.ok("R11.7", ssaName(fn), construct, w.posOf(in.Pos()), "the store is controlled by a presence test of the same key in the destination", true)
			} else {
				r.bad("R11.7", ssaName(fn), construct, w.posOf(in.Pos()), "the loop walks the .parent chain outwards and stores each level's variables unconditionally: a binding of an outer context overwrites the inner one of the same name (a `with` variable loses against the includer's, a loop variable against the template's)")
			}
		})
	}
	r.Counts["outward walks of the context chain that copy variables"] = n
}

// rangeOfKey: v is the key produced by ranging over a map; returns the Range instruction.
func rangeOfKey(v ssa.Value) *ssa.Range {
	v = unspill(v)
	ex, ok := v.(*ssa.Extract)
	if !ok || ex.Index != 1 {
		return nil
	}
	nx, ok := ex.Tuple.(*ssa.Next)
	if !ok {
		return nil
	}
	rng, _ := nx.Iter.(*ssa.Range)
	return rng
}

// lookupPresence: c is (the negation of) the comma-ok result of looking key up in map m.
func lookupPresence(c ssa.Value, m, key ssa.Value) bool {
	for {
		if u, ok := c.(*ssa.UnOp); ok && u.Op == token.NOT {
			c = u.X
			continue
		}
		break
	}
	ex, ok := c.(*ssa.Extract)
	if !ok || ex.Index != 1 {
		return false
	}
	lk, ok := ex.Tuple.(*ssa.Lookup)
	if !ok || !lk.CommaOk {
		return false
	}
	return sameValue(unspill(lk.X), unspill(m)) && sameValue(unspill(lk.Index), unspill(key))
}

// checkReadsFollowChain — R11.8: reading a variable by name sees the enclosing contexts.  An
// included template runs in a child context whose own map holds only the `with` variables; the
// includer's variables are reached through .parent.  Every function that looks a name up in a
// RenderContext's variable map — and does not write the map under that key itself (save/restore
// bookkeeping is about one level by design) — must, on every path on which the lookup did not
// find the name, reach a continuation before it returns: a load of the context's .parent, or a
// call to another function that satisfies this rule.
func checkReadsFollowChain(w *World, r *Report) {
	type site struct {
		fn *ssa.Function
		lk *ssa.Lookup
	}
	var sites []site
	hasSite := map[*ssa.Function]bool{}
	for _, fn := range w.pkgFuncs() {
		// functions (with their closures) that store into the variable map are writers
		writes := false
		var scan func(f *ssa.Function)
		scan = func(f *ssa.Function) {
			instrsOf(f, func(in ssa.Instruction) {
				if mu, ok := in.(*ssa.MapUpdate); ok {
					if _, ok := fieldLoad(mu.Map, "RenderContext", "context"); ok {
						writes = true
					}
				}
			})
			for _, an := range f.AnonFuncs {
				scan(an)
			}
		}
		root := fn
		for root.Parent() != nil {
			root = root.Parent()
		}
		scan(root)
		if writes {
			continue
		}
		instrsOf(fn, func(in ssa.Instruction) {
			lk, ok := in.(*ssa.Lookup)
			if !ok {
				return
			}
			if _, ok := fieldLoad(lk.X, "RenderContext", "context"); !ok {
				return
			}
			if !decidesOrYields(lk) {
				return // remembered for later (save/restore records), not an answer
			}
			sites = append(sites, site{fn, lk})
			hasSite[fn] = true
		})
	}
	reader := map[*ssa.Function]bool{}
	for f := range hasSite {
		reader[f] = true
	}
	failing := map[*ssa.Lookup]string{}
	// delegates: functions without a lookup of their own that hand back what a reader (or another
	// delegate) returns — GetVariable once its plain-name case has moved into a helper
	delegates := func() map[*ssa.Function]bool {
		out := map[*ssa.Function]bool{}
		for grew := true; grew; {
			grew = false
			for _, g := range w.pkgFuncs() {
				if out[g] || hasSite[g] {
					continue
				}
				instrsOf(g, func(in ssa.Instruction) {
					ret, ok := in.(*ssa.Return)
					if !ok || out[g] {
						return
					}
					for _, res := range ret.Results {
						v := res
						if ex, ok := v.(*ssa.Extract); ok {
							v = ex.Tuple
						}
						if c, ok := v.(*ssa.Call); ok {
							if h := c.Call.StaticCallee(); h != nil && h != g && (reader[h] || out[h]) {
								out[g] = true
								grew = true
							}
						}
					}
				})
			}
		}
		return out
	}
	for changed := true; changed; {
		changed = false
		deleg := delegates()
		for _, s := range sites {
			if !reader[s.fn] {
				continue
			}
			gen := func(in ssa.Instruction) bool {
				if u, ok := in.(*ssa.UnOp); ok {
					if _, ok := fieldLoad(u, "RenderContext", "parent"); ok {
						return true
					}
				}
				if c, ok := in.(ssa.CallInstruction); ok {
					if g := c.Common().StaticCallee(); g != nil && (reader[g] || deleg[g]) && g != s.fn {
						return true
					}
					if g := c.Common().StaticCallee(); g != nil && g == s.fn {
						return true // recursion on the chain
					}
				}
				return false
			}
			found := func(b *ssa.BasicBlock, i int) bool {
				return anyEdgeFact(b, i, func(v ssa.Value, trueIdx int) bool {
					// found here — or found in another table consulted on the way (globals)
					ex, ok := v.(*ssa.Extract)
					if !ok || ex.Index != 1 || i != trueIdx {
						return false
					}
					if lk, ok := ex.Tuple.(*ssa.Lookup); ok {
						return lk.CommaOk
					}
					// … through a (value, found) helper of the package
					if c, ok := ex.Tuple.(*ssa.Call); ok {
						if g := c.Call.StaticCallee(); g != nil && isTwigFn(g) && g.Signature.Results().Len() == 2 {
							return types.Identical(g.Signature.Results().At(1).Type().Underlying(), types.Typ[types.Bool])
						}
					}
					return false
				})
			}
			bad := ""
			instrsOf(s.fn, func(in ssa.Instruction) {
				if _, ok := in.(*ssa.Return); !ok || bad != "" {
					return
				}
				if f, path := existsPathFromAvoiding(s.fn, s.lk, in, gen, found); f {
					bad = w.posOf(in.Pos()) + " (path " + strings.Join(path, " → ") + ")"
				}
			})
			if bad != "" {
				failing[s.lk] = bad
				reader[s.fn] = false
				changed = true
			}
		}
	}
	for _, s := range sites {
		construct := "a name not found in the context's own map is looked for in the enclosing contexts"
		if bad, isBad := failing[s.lk]; isBad || !reader[s.fn] {
			if bad == "" {
				bad = "another lookup of the function"
			}
			r.bad("R11.8", ssaName(s.fn), construct, w.posOf(s.lk.Pos()), "after this lookup misses, the return at "+bad+" is reached without consulting the context's .parent (directly or through a reader that does): inside an included template, a loop body or a macro the variables of the enclosing template read as absent here although {{ name }} prints them")
		} else {
			r.ok("R11.8", ssaName(s.fn), construct, w.posOf(s.lk.Pos()), "every miss path loads .parent or calls a reader that does", true)
		}
	}
	r.floor("by-name reads of a context's variable map", len(sites), 2)
}

// decidesOrYields: the result of the lookup reaches a branch or a return of its own function
// (through extraction, negation, comparison, interface conversion, phis) — as opposed to being
// put away in a closure or a record.
func decidesOrYields(lk *ssa.Lookup) bool {
	seen := map[ssa.Value]bool{}
	work := []ssa.Value{lk}
	for len(work) > 0 {
		v := work[len(work)-1]
		work = work[:len(work)-1]
		if seen[v] || v.Referrers() == nil {
			continue
		}
		seen[v] = true
		for _, ref := range *v.Referrers() {
			switch x := ref.(type) {
			case *ssa.If, *ssa.Return:
				return true
			case *ssa.Extract:
				work = append(work, x)
			case *ssa.Phi:
				work = append(work, x)
			case *ssa.UnOp:
				if x.Op == token.NOT {
					work = append(work, x)
				}
			case *ssa.BinOp:
				work = append(work, x)
			case *ssa.MakeInterface:
				work = append(work, x)
			case *ssa.ChangeInterface:
				work = append(work, x)
			case *ssa.TypeAssert:
				work = append(work, x)
			}
		}
	}
	return false
}

// checkNoWritesUpTheChain — R11.9: a context's variables are written by its own template only.
// No store into, and no delete from, the variable map of a context that was reached through a
// .parent link: an included template, a macro or a loop body that could assign in an enclosing
// context would change the includer's state.
func checkNoWritesUpTheChain(w *World, r *Report) {
	n := 0
	viaParent := func(v ssa.Value) bool {
		seen := map[ssa.Value]bool{}
		var walk func(v ssa.Value, d int) bool
		walk = func(v ssa.Value, d int) bool {
			v = unspill(v)
			if seen[v] || d > 8 {
				return false
			}
			seen[v] = true
			if _, ok := fieldLoad(v, "RenderContext", "parent"); ok {
				return true
			}
			if ph, ok := v.(*ssa.Phi); ok {
				for _, e := range ph.Edges {
					if walk(e, d+1) {
						return true
					}
				}
			}
			return false
		}
		return walk(v, 0)
	}
	for _, fn := range w.pkgFuncs() {
		instrsOf(fn, func(in ssa.Instruction) {
			var m ssa.Value
			what := ""
			switch x := in.(type) {
			case *ssa.MapUpdate:
				m, what = x.Map, "store into"
			case *ssa.Call:
				if b, ok := x.Call.Value.(*ssa.Builtin); ok && b.Name() == "delete" {
					m, what = x.Call.Args[0], "delete from"
				}
			}
			if m == nil {
				return
			}
			owner, ok := fieldLoad(m, "RenderContext", "context")
			if !ok {
				return
			}
			n++
			if viaParent(owner) {
				r.bad("R11.9", ssaName(fn), what+" the variables of an enclosing context", w.posOf(in.Pos()), "the variable map written here belongs to a context reached through .parent: a template rendered in a child context (an include, a macro, a loop body) changes what the enclosing template sees afterwards")
			}
		})
	}
	r.ok("R11.9", "(package)", "variable maps are written through their own context only", "-", fmt.Sprintf("%d stores/deletes on RenderContext.context, none through a .parent link", n), true)
	r.floor("writes to a context's variable map", n, 2)
}

// checkParsedBindingsKept — R11.11: what the template writes after `with` is what the node
// carries.  In the parser, a table of named expressions (map[string]Node: the variables of an
// include, of an embed, of a hash) only ever grows: entries are added as they are parsed and none
// is deleted or replaced afterwards.  Removing a "redundant" entry (`'title': title`) takes a
// binding away from the included template's own scope, where a layout it extends and the
// precedence over globals look for it.
func checkParsedBindingsKept(w *World, r *Report) {
	reach := w.parseReachable()
	isExprTable := func(t types.Type) bool {
		m, ok := t.Underlying().(*types.Map)
		if !ok {
			return false
		}
		return isNamed(m.Elem(), twigPath, "Node") || w.implementsNode(m.Elem())
	}
	n := 0
	for _, fn := range w.pkgFuncs() {
		if !reach[fn] {
			continue
		}
		instrsOf(fn, func(in ssa.Instruction) {
			switch x := in.(type) {
			case *ssa.MapUpdate:
				if isExprTable(x.Map.Type()) {
					n++
					r.ok("R11.11", ssaName(fn), "entry added to a table of parsed expressions", w.posOf(in.Pos()), "tables of parsed expressions only grow", false)
				}
			case ssa.CallInstruction:
				cc := x.Common()
				if b, ok := cc.Value.(*ssa.Builtin); ok && b.Name() == "delete" && len(cc.Args) > 0 && isExprTable(cc.Args[0].Type()) {
					n++
					r.bad("R11.11", ssaName(fn), "entry removed from a table of parsed expressions", w.posOf(in.Pos()), "the parser deletes a binding the template wrote: the included template's own scope no longer holds it, so a layout it extends renders without it and a global of the same name wins over the includer's value")
				}
				if g := cc.StaticCallee(); g != nil && (g.String() == "maps.DeleteFunc" || g.String() == "clear") && len(cc.Args) > 0 && isExprTable(cc.Args[0].Type()) {
					n++
					r.bad("R11.11", ssaName(fn), "entries removed from a table of parsed expressions", w.posOf(in.Pos()), "the parser deletes bindings the template wrote")
				}
			}
		})
	}
	r.floor("updates of tables of parsed expressions in the parser", n, 1)
}

// checkLocalsBeforeGlobals — R11.13: a variable bound in the context wins over a global of the
// same name.  In every function that looks a name up in the environment's globals, a lookup of the
// same name in the context's own variables comes first — it dominates the globals lookup.  `with`
// variables of an include, macro parameters and loop variables are such bindings: asked after the
// globals, a `site` passed to an include is hidden by the global `site`.
func checkLocalsBeforeGlobals(w *World, r *Report) {
	n := 0
	for _, fn := range w.pkgFuncs() {
		if fn.Signature.Recv() == nil || !isNamed(fn.Signature.Recv().Type(), twigPath, "RenderContext") {
			continue
		}
		instrsOf(fn, func(in ssa.Instruction) {
			gl, ok := in.(*ssa.Lookup)
			if !ok {
				return
			}
			if _, ok := fieldLoad(gl.X, "Environment", "globals"); !ok {
				return
			}
			if _, isParam := unspill(gl.Index).(*ssa.Parameter); !isParam {
				return
			}
			n++
			found := false
			instrsOf(fn, func(in2 ssa.Instruction) {
				ll, ok := in2.(*ssa.Lookup)
				if !ok || found {
					return
				}
				if _, ok := fieldLoad(ll.X, "RenderContext", "context"); !ok {
					return
				}
				if !sameValue(unspill(ll.Index), unspill(gl.Index)) {
					return
				}
				if ll.Block() == gl.Block() && instrIndex(ll) < instrIndex(gl) || ll.Block() != gl.Block() && ll.Block().Dominates(gl.Block()) {
					found = true
				}
			})
			// the globals lookup sits in a helper: at every call site of the helper the local
			// lookup of the name handed over comes first
			if !found {
				if p, ok := unspill(gl.Index).(*ssa.Parameter); ok {
					pi := -1
					for i, q := range fn.Params {
						if q == p {
							pi = i
						}
					}
					edges := realInEdges(fn)
					all := len(edges) > 0 && pi >= 0
					for _, e := range edges {
						if e.Site == nil || e.Site.Common().StaticCallee() != fn || pi >= len(e.Site.Common().Args) {
							all = false
							continue
						}
						arg := e.Site.Common().Args[pi]
						okSite := false
						instrsOf(e.Caller.Func, func(in2 ssa.Instruction) {
							ll, ok := in2.(*ssa.Lookup)
							if !ok || okSite {
								return
							}
							if _, ok := fieldLoad(ll.X, "RenderContext", "context"); !ok {
								return
							}
							if !sameValue(unspill(ll.Index), unspill(arg)) {
								return
							}
							sb := e.Site.Block()
							if ll.Block() == sb && instrIndex(ll) < instrIndex(e.Site) || ll.Block() != sb && ll.Block().Dominates(sb) {
								okSite = true
							}
						})
						if !okSite {
							all = false
						}
					}
					found = all
				}
			}
			construct := "the context's own variables are asked before the globals"
			if found {
				r.ok("R11.13", ssaName(fn), construct, w.posOf(gl.Pos()), "a lookup of the same name in RenderContext.context dominates the globals lookup", true)
			} else {
				r.bad("R11.13", ssaName(fn), construct, w.posOf(gl.Pos()), "the globals are consulted without the context's own variables having been asked first: a variable handed to an include with `with`, a macro parameter or a loop variable named like a global is hidden by the global")
			}
		})
	}
	r.floor("lookups of a name in the globals", n, 1)
}

// checkIncludeOutputUnchanged — R11.14: an include contributes exactly what the included template
// renders.  In IncludeNode.Render and the package functions it hands its writer to, whatever is
// written to that writer is not a slice or a trimmed / replaced form of rendered bytes: collecting
// the fragment in a buffer first is fine, cutting "the final line end" off it is not — that byte
// may be the end of an escaped value or of literal text the included template ends with.
func checkIncludeOutputUnchanged(w *World, r *Report) {
	n := 0
	isWriter := func(t types.Type) bool { return isNamed(t, "io", "Writer") }
	var family []*ssa.Function
	seenF := map[*ssa.Function]bool{}
	var add func(fn *ssa.Function, depth int)
	add = func(fn *ssa.Function, depth int) {
		if fn == nil || seenF[fn] || depth > 2 || len(fn.Blocks) == 0 {
			return
		}
		seenF[fn] = true
		family = append(family, fn)
		instrsOf(fn, func(in ssa.Instruction) {
			c, ok := in.(ssa.CallInstruction)
			if !ok {
				return
			}
			g := c.Common().StaticCallee()
			if g == nil || !isTwigFn(g) {
				return
			}
			for _, a := range c.Common().Args {
				if p, ok := unspill(a).(*ssa.Parameter); ok && isWriter(p.Type()) {
					// only helpers private to this renderer: not the general output helpers
					if g.Object() != nil && !g.Object().Exported() && len(realInEdges(g)) <= 2 {
						add(g, depth+1)
					}
				}
			}
		})
	}
	for _, fn := range w.pkgFuncs() {
		if fn.Name() == "Render" && fn.Signature.Recv() != nil && isNamed(fn.Signature.Recv().Type(), twigPath, "IncludeNode") && fn.Synthetic == "" {
			add(fn, 0)
		}
	}
	for _, fn := range family {
		var out *ssa.Parameter
		for _, p := range fn.Params {
			if isWriter(p.Type()) {
				out = p
			}
		}
		if out == nil {
			continue
		}
		instrsOf(fn, func(in ssa.Instruction) {
			c, ok := in.(ssa.CallInstruction)
			if !ok {
				return
			}
			cc := c.Common()
			var data ssa.Value
			if cc.IsInvoke() && unspill(cc.Value) == ssa.Value(out) && len(cc.Args) == 1 {
				data = cc.Args[0]
			} else if !cc.IsInvoke() && len(cc.Args) >= 2 && unspill(cc.Args[0]) == ssa.Value(out) {
				switch cc.Args[1].Type().Underlying().(type) {
				case *types.Basic, *types.Slice:
					data = cc.Args[1]
				}
			}
			if data == nil {
				return
			}
			n++
			bad := ""
			seen := map[ssa.Value]bool{}
			var walk func(v ssa.Value, d int)
			walk = func(v ssa.Value, d int) {
				v = unspill(v)
				if v == nil || seen[v] || d > 8 || bad != "" {
					return
				}
				seen[v] = true
				switch x := v.(type) {
				case *ssa.Phi:
					for _, e := range x.Edges {
						walk(e, d+1)
					}
				case *ssa.Slice:
					if x.Low != nil || x.High != nil {
						bad = "a slice of the rendered bytes"
					}
				case *ssa.Convert:
					walk(x.X, d+1)
				case *ssa.Call:
					if g := x.Call.StaticCallee(); g != nil && g.Pkg != nil && (g.Pkg.Pkg.Path() == "strings" || g.Pkg.Pkg.Path() == "bytes") && !strings.HasPrefix(g.Name(), "New") {
						bad = "the result of " + g.String()
					}
				}
			}
			walk(data, 0)
			construct := "what the include writes is what the included template rendered"
			if bad == "" {
				r.ok("R11.14", ssaName(fn), construct, w.posOf(in.Pos()), "not a cut or rewritten form of rendered bytes", true)
			} else {
				r.bad("R11.14", ssaName(fn), construct, w.posOf(in.Pos()), "the include writes "+bad+": bytes the included template produced — the line end of an escaped value, trailing literal text — are dropped on the way into the page")
			}
		})
	}
	r.Counts["writes of IncludeNode.Render and its helpers to the page"] = n
}

// checkScopesAskedInnermostFirst — R11.15: a name is looked for in the scopes from the inside out.
// No function reads a variable out of a context it reached by walking the parent links to their
// end (a loop `for r.parent != nil { r = r.parent }`) unless the read sits inside that walk: the
// render's outermost scope asked directly answers before the scopes in between, so the `with`
// variable of an include, a `set` or a loop variable of an intermediate template is passed over
// for the outermost binding of the same name.
func checkScopesAskedInnermostFirst(w *World, r *Report) {
	n := 0
	for _, fn := range w.pkgFuncs() {
		instrsOf(fn, func(in ssa.Instruction) {
			lk, ok := in.(*ssa.Lookup)
			if !ok {
				return
			}
			base, ok := fieldLoad(lk.X, "RenderContext", "context")
			if !ok {
				return
			}
			// the context read from: a phi that walks .parent?
			var walk *ssa.Phi
			for _, o := range originChain(base) {
				ph, ok := o.(*ssa.Phi)
				if !ok {
					continue
				}
				for _, e := range ph.Edges {
					if b2, ok := fieldLoad(unspill(e), "RenderContext", "parent"); ok {
						for _, o2 := range originChain(b2) {
							if o2 == ssa.Value(ph) {
								walk = ph
							}
						}
					}
				}
			}
			if walk == nil {
				return
			}
			n++
			// natural loop of the phi's block
			h := walk.Block()
			body := map[*ssa.BasicBlock]bool{h: true}
			var stack []*ssa.BasicBlock
			for _, p := range h.Preds {
				if h.Dominates(p) && !body[p] {
					body[p] = true
					stack = append(stack, p)
				}
			}
			for len(stack) > 0 {
				b := stack[len(stack)-1]
				stack = stack[:len(stack)-1]
				for _, p := range b.Preds {
					if !body[p] {
						body[p] = true
						stack = append(stack, p)
					}
				}
			}
			construct := "a context reached by walking the parent links is read during the walk"
			if body[lk.Block()] {
				r.ok("R11.15", ssaName(fn), construct, w.posOf(lk.Pos()), "the read is made at every step of the walk, innermost scope first", true)
			} else {
				r.bad("R11.15", ssaName(fn), construct, w.posOf(lk.Pos()), "the variable is read from the context the walk ends at (the outermost scope) without the scopes passed on the way having been asked: a binding of the same name made by an including template in between — a `with` variable, a `set`, a loop variable — is skipped")
			}
		})
	}
	r.Counts["reads of a context reached by a parent walk"] = n
}

// ctorReadsScope: does the context constructor f take variables (or a link) from the context it
// receives as argument ai?  It does not when all it does with that context is read fields that
// are neither maps nor contexts (environment, engine, sandbox switch, root template): a helper
// that builds a detached context for the same render.  Anything else — a map field read, the
// context stored or handed on to something that is not such a helper — counts as reading through.
func ctorReadsScope(f *ssa.Function, ai int, ctors map[*ssa.Function]bool, depth int) bool {
	if ai >= len(f.Params) || depth > 3 || len(f.Blocks) == 0 {
		return true
	}
	p := f.Params[ai]
	if p.Referrers() == nil {
		return false
	}
	for _, ref := range *p.Referrers() {
		switch x := ref.(type) {
		case *ssa.FieldAddr:
			ft := x.Type().(*types.Pointer).Elem()
			if _, isMap := ft.Underlying().(*types.Map); isMap {
				return true
			}
			if isNamed(ft, twigPath, "RenderContext") {
				return true
			}
			// the field itself must only be read
			if x.Referrers() != nil {
				for _, r2 := range *x.Referrers() {
					if u, ok := r2.(*ssa.UnOp); !ok || u.Op != token.MUL {
						return true
					}
				}
			}
		case *ssa.DebugRef:
		case *ssa.Call:
			g := x.Call.StaticCallee()
			if g == nil || !ctors[g] {
				return true
			}
			for k, a := range x.Call.Args {
				if a == ssa.Value(p) && ctorReadsScope(g, k, ctors, depth+1) {
					return true
				}
			}
		case *ssa.BinOp: // nil test
		default:
			return true
		}
	}
	return false
}
