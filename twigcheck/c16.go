package main

// C16 — a compiled template is interchangeable with its source.
//
// R16.1 writer/reader table agreement: the ordered list of wire operations extracted from the
//       serialiser equals the list extracted from the deserialiser (kind, width/type, byte order,
//       CompiledTemplate field), every field of CompiledTemplate occurs exactly once on each
//       side, the version written is the version accepted; the string helpers are a verified
//       pair under the same comparison.
// R16.2 no silent narrowing: a conversion of a length to a narrower unsigned type on the write
//       side is dominated by a bound check that returns an error.
// R16.3 the reader validates length prefixes against the remaining input before allocating.
// R16.4 the decoded-tree path is dead by construction: every type registered with gob has no
//       exported field, so the rendered behaviour is always that of Parse(Source).
// R16.5 one path function for compiled files: Load/Exists/Save/GetModifiedTime of the compiled
//       loader build the file name from (directory, name, extension) by equal expressions.

import (
	"fmt"
	"go/ast"
	"go/constant"
	"go/token"
	"go/types"
	"sort"
	"strings"

	"golang.org/x/tools/go/ssa"
)

func init() { register("C16", checkC16) }

type wireOp struct {
	kind   string // fixed | helper | raw
	typ    string // for fixed: the wire type
	order  string // for fixed: byte order
	field  string // CompiledTemplate field (or helper parameter) concerned; "" if none
	lenOf  bool   // writer: value is len(field); reader: the local later sizes the buffer of field
	cnst   string // writer: constant written; reader: constant the local is compared with
	helper string // helper function name
	local  string // reader: local variable receiving the value
	pos    token.Pos
	// kind "call": a call of a package function that itself performs wire operations
	callee *ast.FuncDecl
	args   []ast.Expr
	lhs    ast.Expr
	// fixed ops whose value (writer) / destination pointer (reader) is a parameter of the
	// enclosing function itself: index of that parameter (+1; 0 = none)
	paramIdx int
}

func (o wireOp) String() string {
	switch o.kind {
	case "fixed":
		s := fmt.Sprintf("fixed %s %s", o.typ, o.order)
		if o.lenOf {
			return s + " len(" + o.field + ")"
		}
		if o.cnst != "" {
			return s + " const " + o.cnst
		}
		return s + " " + o.field
	case "helper":
		return "lenprefixed(" + o.helper + ") " + o.field
	}
	return "raw " + o.field
}

// subjectField: the name of the field of a *CompiledTemplate (or the name of a parameter of the
// helper) that the expression denotes.
func (w *World) subjectField(e ast.Expr, params map[types.Object]bool) (string, bool) {
	name := ""
	isLen := false
	ast.Inspect(e, func(n ast.Node) bool {
		switch x := n.(type) {
		case *ast.CallExpr:
			if id, ok := x.Fun.(*ast.Ident); ok && id.Name == "len" {
				isLen = true
			}
		case *ast.SelectorExpr:
			if isNamed(w.Info.TypeOf(x.X), twigPath, "CompiledTemplate") {
				name = x.Sel.Name
				return false
			}
		case *ast.Ident:
			if o := w.Info.Uses[x]; o != nil && params[o] && name == "" {
				name = "param:" + x.Name
			}
		}
		return true
	})
	return name, isLen
}

func (w *World) wireOps(fd *ast.FuncDecl, writer bool) []wireOp {
	var ops []wireOp
	params := map[types.Object]bool{}
	if fd.Type.Params != nil {
		for _, f := range fd.Type.Params.List {
			for _, n := range f.Names {
				if o := w.Info.Defs[n]; o != nil {
					if _, isIface := o.Type().Underlying().(*types.Interface); !isIface {
						params[o] = true
					}
				}
			}
		}
	}
	ast.Inspect(fd.Body, func(n ast.Node) bool {
		switch x := n.(type) {
		case *ast.AssignStmt:
			// F, err = readString(r)  /  data := make([]byte, length)
			if len(x.Rhs) == 1 {
				if call, ok := x.Rhs[0].(*ast.CallExpr); ok {
					if f := w.callee(call); f != nil && f.Pkg() != nil && f.Pkg().Path() == twigPath && !writer && len(x.Lhs) >= 1 {
						if d := w.decls[f]; d != nil && d != fd && w.wireCapable(d, false, map[*ast.FuncDecl]bool{}) {
							ops = append(ops, wireOp{kind: "call", helper: f.Name(), callee: d, args: call.Args, lhs: x.Lhs[0], pos: call.Pos()})
							return false
						}
					}
				}
			}
		case *ast.CallExpr:
			switch {
			case w.calleeIs(x, "encoding/binary", "", "Write") && writer && len(x.Args) == 3:
				op := w.fixedWriteOp(types.ExprString(x.Args[1]), x.Args[2], x.Pos(), params)
				op.paramIdx = w.paramIndexOf(fd, x.Args[2])
				ops = append(ops, op)
			case w.calleeIs(x, "encoding/binary", "", "Read") && !writer && len(x.Args) == 3:
				op := w.fixedReadOp(fd, types.ExprString(x.Args[1]), x.Args[2], x.Pos(), params)
				op.paramIdx = w.paramIndexOf(fd, x.Args[2])
				ops = append(ops, op)
			case writer:
				if f := w.callee(x); f != nil && f.Pkg() != nil && f.Pkg().Path() == twigPath {
					if d := w.decls[f]; d != nil && d != fd && w.wireCapable(d, true, map[*ast.FuncDecl]bool{}) {
						ops = append(ops, wireOp{kind: "call", helper: f.Name(), callee: d, args: x.Args, pos: x.Pos()})
						return false
					}
				}
				// w.Write(bytes)
				if sel, ok := x.Fun.(*ast.SelectorExpr); ok && sel.Sel.Name == "Write" && len(x.Args) == 1 {
					if s := w.Info.Selections[sel]; s != nil {
						fld, _ := w.subjectField(x.Args[0], params)
						ops = append(ops, wireOp{kind: "raw", field: fld, pos: x.Pos()})
					}
				}
			case !writer && w.calleeDecl(x) != nil && w.calleeDecl(x) != fd && w.wireCapable(w.calleeDecl(x), false, map[*ast.FuncDecl]bool{}):
				ops = append(ops, wireOp{kind: "call", helper: w.calleeDecl(x).Name.Name, callee: w.calleeDecl(x), args: x.Args, pos: x.Pos()})
				return false
			case !writer && w.calleeIs(x, "io", "", "ReadFull") && len(x.Args) == 2:
				fld, _ := w.subjectField(x.Args[1], params)
				if fld == "" {
					if id, ok := x.Args[1].(*ast.Ident); ok {
						fld = "local:" + id.Name
					}
				}
				ops = append(ops, wireOp{kind: "raw", field: fld, pos: x.Pos()})
			}
		}
		return true
	})
	sort.SliceStable(ops, func(i, j int) bool { return ops[i].pos < ops[j].pos })
	return ops
}

// paramIndexOf: e is (exactly) a parameter of fd: its index + 1, else 0.
func (w *World) paramIndexOf(fd *ast.FuncDecl, e ast.Expr) int {
	id, ok := ast.Unparen(e).(*ast.Ident)
	if !ok || fd.Type.Params == nil {
		return 0
	}
	obj := w.Info.Uses[id]
	i := 0
	for _, f := range fd.Type.Params.List {
		for _, n := range f.Names {
			i++
			if w.Info.Defs[n] == obj && obj != nil {
				return i
			}
		}
		if len(f.Names) == 0 {
			i++
		}
	}
	return 0
}

func (w *World) fixedWriteOp(order string, val ast.Expr, pos token.Pos, params map[types.Object]bool) wireOp {
	op := wireOp{kind: "fixed", order: order, pos: pos}
	op.typ = w.Info.TypeOf(val).String()
	op.field, op.lenOf = w.subjectField(val, params)
	if tv := w.Info.Types[val]; tv.Value != nil {
		op.cnst = tv.Value.ExactString()
	}
	return op
}

// fixedReadOp: binary.Read(r, order, ptr) in (or on behalf of) function fd: what the destination
// is — a CompiledTemplate field, or a local whose later use (buffer size, comparison with a
// constant) is looked up in fd's body.
func (w *World) fixedReadOp(fd *ast.FuncDecl, order string, ptr ast.Expr, pos token.Pos, params map[types.Object]bool) wireOp {
	op := wireOp{kind: "fixed", order: order, pos: pos}
	if p, ok := w.Info.TypeOf(ptr).(*types.Pointer); ok {
		op.typ = p.Elem().String()
	}
	if u, ok := ast.Unparen(ptr).(*ast.UnaryExpr); ok && u.Op == token.AND {
		if fld, _ := w.subjectField(u.X, params); fld != "" && !strings.HasPrefix(fld, "param:") {
			op.field = fld
		} else if id, ok := u.X.(*ast.Ident); ok {
			op.local = id.Name
			lv := w.Info.Uses[id]
			// what is the local used for?
			ast.Inspect(fd.Body, func(m ast.Node) bool {
				switch y := m.(type) {
				case *ast.AssignStmt:
					// F = make([]byte, local) / data := make([]byte, local)
					if len(y.Rhs) == 1 {
						if mk, ok := y.Rhs[0].(*ast.CallExpr); ok {
							if id2, ok := mk.Fun.(*ast.Ident); ok && id2.Name == "make" && len(mk.Args) >= 2 && w.mentions(mk.Args[1], lv) {
								op.lenOf = true
								if fld, _ := w.subjectField(y.Lhs[0], params); fld != "" {
									op.field = fld
								} else if id3, ok := y.Lhs[0].(*ast.Ident); ok {
									op.field = "local:" + id3.Name
								}
							}
						}
					}
					// F, err = r.readBytes(local): a helper whose parameter sizes the buffer it returns
					if len(y.Rhs) == 1 {
						if call, ok := y.Rhs[0].(*ast.CallExpr); ok {
							if d := w.calleeDecl(call); d != nil && d != fd {
								for ai, arg := range call.Args {
									if !w.mentions(arg, lv) {
										continue
									}
									// the ai-th parameter of d
									var pobj types.Object
									k := 0
									for _, f := range d.Type.Params.List {
										for _, nm := range f.Names {
											if k == ai {
												pobj = w.Info.Defs[nm]
											}
											k++
										}
									}
									if pobj == nil {
										continue
									}
									sizes := false
									ast.Inspect(d.Body, func(q ast.Node) bool {
										if mk, ok := q.(*ast.CallExpr); ok {
											if id2, ok := mk.Fun.(*ast.Ident); ok && id2.Name == "make" && len(mk.Args) >= 2 && w.mentions(mk.Args[1], pobj) {
												sizes = true
											}
										}
										return true
									})
									if sizes {
										op.lenOf = true
										if fld, _ := w.subjectField(y.Lhs[0], params); fld != "" {
											op.field = fld
										} else if id3, ok := y.Lhs[0].(*ast.Ident); ok {
											op.field = "local:" + id3.Name
										}
									}
								}
							}
						}
					}
				case *ast.BinaryExpr:
					if (y.Op == token.NEQ || y.Op == token.EQL) && w.mentions(y.X, lv) {
						if tv := w.Info.Types[y.Y]; tv.Value != nil {
							op.cnst = tv.Value.ExactString()
						}
					}
				}
				return true
			})
		}
	}
	return op
}

func (w *World) calleeDecl(c *ast.CallExpr) *ast.FuncDecl {
	if f := w.callee(c); f != nil && f.Pkg() != nil && f.Pkg().Path() == twigPath {
		return w.decls[f]
	}
	return nil
}

// wireCapable: the function performs wire operations itself or through package functions it calls.
func (w *World) wireCapable(fd *ast.FuncDecl, writer bool, seen map[*ast.FuncDecl]bool) bool {
	if fd == nil || fd.Body == nil || seen[fd] {
		return false
	}
	seen[fd] = true
	if writer && w.usesBinary(fd, "Write") || !writer && w.usesBinary(fd, "Read") {
		return true
	}
	// raw transfers count as well: io.ReadFull on the read side, <io.Writer>.Write on the write side
	raw := false
	ast.Inspect(fd.Body, func(n ast.Node) bool {
		c, ok := n.(*ast.CallExpr)
		if !ok || raw {
			return !raw
		}
		if !writer && w.calleeIs(c, "io", "", "ReadFull") {
			raw = true
		}
		if writer {
			if sel, ok := c.Fun.(*ast.SelectorExpr); ok && sel.Sel.Name == "Write" && len(c.Args) == 1 {
				if tv := w.Info.TypeOf(sel.X); tv != nil && isNamed(tv, "io", "Writer") {
					raw = true
				}
			}
		}
		return !raw
	})
	if raw {
		return true
	}
	found := false
	ast.Inspect(fd.Body, func(n ast.Node) bool {
		if c, ok := n.(*ast.CallExpr); ok && !found {
			if d := w.calleeDecl(c); d != nil && w.wireCapable(d, writer, seen) {
				found = true
			}
		}
		return !found
	})
	return found
}

// flatWire: the wire operations of fd with the operations of called package functions spliced
// in at the call, their parameters (writer) resp. returned locals (reader) renamed to what the
// call site passes resp. assigns.
func (w *World) flatWire(fd *ast.FuncDecl, writer bool, depth int) []wireOp {
	var out []wireOp
	for _, op := range w.wireOps(fd, writer) {
		if op.kind != "call" {
			out = append(out, op)
			continue
		}
		if depth > 3 {
			out = append(out, wireOp{kind: "helper", helper: op.helper, pos: op.pos})
			continue
		}
		sub := w.flatWire(op.callee, writer, depth+1)
		// renaming
		ren := map[string]string{}
		callerParams := map[types.Object]bool{}
		if fd.Type.Params != nil {
			for _, f := range fd.Type.Params.List {
				for _, n := range f.Names {
					if o := w.Info.Defs[n]; o != nil {
						if _, isIface := o.Type().Underlying().(*types.Interface); !isIface {
							callerParams[o] = true
						}
					}
				}
			}
		}
		if writer {
			i := 0
			for _, f := range op.callee.Type.Params.List {
				for _, n := range f.Names {
					if i < len(op.args) {
						if fld, _ := w.subjectField(op.args[i], callerParams); fld != "" {
							ren["param:"+n.Name] = fld
						}
					}
					i++
				}
			}
		} else if op.lhs != nil {
			target, _ := w.subjectField(op.lhs, callerParams)
			if target == "" || strings.HasPrefix(target, "param:") {
				if id, ok := op.lhs.(*ast.Ident); ok {
					target = "local:" + id.Name
				}
			}
			// locals of the callee that flow into its first result
			ast.Inspect(op.callee.Body, func(n ast.Node) bool {
				ret, ok := n.(*ast.ReturnStmt)
				if !ok || len(ret.Results) == 0 {
					return true
				}
				ast.Inspect(ret.Results[0], func(m ast.Node) bool {
					if id, ok := m.(*ast.Ident); ok {
						if _, isVar := w.Info.Uses[id].(*types.Var); isVar {
							ren["local:"+id.Name] = target
						}
					}
					return true
				})
				return true
			})
		}
		for _, so := range sub {
			if so.kind == "fixed" && so.paramIdx > 0 && so.paramIdx-1 < len(op.args) {
				// binary.Write(w, order, v) / binary.Read(r, order, v) with v a parameter of the
				// helper: the operation is the caller's, with the caller's argument
				arg := op.args[so.paramIdx-1]
				var rebuilt wireOp
				if writer {
					rebuilt = w.fixedWriteOp(so.order, arg, op.pos, callerParams)
				} else {
					rebuilt = w.fixedReadOp(fd, so.order, arg, op.pos, callerParams)
				}
				rebuilt.paramIdx = w.paramIndexOf(fd, arg)
				out = append(out, rebuilt)
				continue
			}
			if nf, ok := ren[so.field]; ok {
				so.field = nf
			}
			so.pos = op.pos
			out = append(out, so)
		}
	}
	return out
}

// usesBinary: does the function body call binary.Write / binary.Read directly?
func (w *World) usesBinary(fd *ast.FuncDecl, fn string) bool {
	found := false
	ast.Inspect(fd.Body, func(n ast.Node) bool {
		if c, ok := n.(*ast.CallExpr); ok && w.calleeIs(c, "encoding/binary", "", fn) {
			found = true
		}
		return true
	})
	return found
}

func checkC16(w *World, r *Report) {
	r.Explanation = "Decides the codec half of C16 for every source, name and timestamp: (R16.1) the ordered wire operations of SerializeCompiledTemplate and of deserializeBinaryFormat agree element-wise in kind, width, signedness, byte order and CompiledTemplate field, cover every field exactly once, agree on the version byte, and the string helpers form a pair under the same comparison; (R16.2) every narrowing of a length on the write side is guarded by a bound check that returns an error; (R16.3) every length prefix read from the input is compared with the remaining input before it sizes an allocation; (R16.4) every type registered with gob has no exported field, so LoadFromCompiled can only ever obtain its tree by parsing the stored source; (R16.5) the compiled loader derives file names by one expression shape. Not decided: rendered equality for every context (argued from R16.4 and determinism of Parse); the legacy gob container format. (R16.7) a function that writes a compiled file returns a nil error only behind the write on every path."
	r.Explanation += " Rules added in later rounds: (R16.1c) compiled templates are written only by constructor/deserialiser; (R16.8) name → file is injective; (R16.9) a loaded tree is the parse of the stored source. (R16.10) Template.Compile builds from the receiver's own source. (R16.11) the reader does not judge the content of decoded strings."
	r.Explanation += " Round 9: (R16.12) every constructor of a Template sets the fields its siblings derive from the tree."
	r.Explanation += " Round 10: (R16.13) no size class selects a different writer or reader."
	r.Explanation += " Round 14: (R16.14) rendering does not branch on where a template came from."
	r.RuleText = "obligation = one pair of wire operations / one field / one narrowing / one length prefix / one gob registration / one path expression; non-trivial = pairs and dominance checks"
	r.Trusted = []string{"encoding/binary fixed-size encoding is its own inverse for equal type and byte order", "io.ReadFull reads exactly len(buf) bytes"}

	var writers, readers []*ast.FuncDecl
	for _, fd := range w.sortedDecls() {
		if w.usesBinary(fd, "Write") {
			writers = append(writers, fd)
		}
		if w.usesBinary(fd, "Read") {
			readers = append(readers, fd)
		}
	}
	r.floor("functions using binary.Write", len(writers), 1)
	r.floor("functions using binary.Read", len(readers), 1)

	// the serialiser / deserialiser of CompiledTemplate: among the functions that (transitively)
	// perform wire operations, the one whose flattened sequence names the most CompiledTemplate
	// fields (helpers called from it are spliced into its sequence)
	type side struct {
		fd  *ast.FuncDecl
		ops []wireOp
	}
	fields := func(ops []wireOp) int {
		n := 0
		for _, o := range ops {
			if o.field != "" && !strings.HasPrefix(o.field, "local:") && !strings.HasPrefix(o.field, "param:") {
				n++
			}
		}
		return n
	}
	// a reader that fills locals and builds the struct in one literal at the end: the literal
	// says which local is which field
	fieldOfLocal := func(fd *ast.FuncDecl, ops []wireOp) []wireOp {
		ren := map[string]string{}
		ast.Inspect(fd.Body, func(n ast.Node) bool {
			cl, ok := n.(*ast.CompositeLit)
			if !ok || !isNamed(w.Info.TypeOf(cl), twigPath, "CompiledTemplate") {
				return true
			}
			for _, el := range cl.Elts {
				kv, ok := el.(*ast.KeyValueExpr)
				if !ok {
					continue
				}
				key, ok := kv.Key.(*ast.Ident)
				if !ok {
					continue
				}
				// Field: x   /   Field: T(x)
				val := ast.Unparen(kv.Value)
				if c, ok := val.(*ast.CallExpr); ok && len(c.Args) == 1 {
					if tv, ok := w.Info.Types[c.Fun]; ok && tv.IsType() {
						val = ast.Unparen(c.Args[0])
					}
				}
				if id, ok := val.(*ast.Ident); ok {
					ren[id.Name] = key.Name
				}
			}
			return true
		})
		if len(ren) == 0 {
			return ops
		}
		out := make([]wireOp, len(ops))
		for i, o := range ops {
			if strings.HasPrefix(o.field, "local:") {
				if f, ok := ren[strings.TrimPrefix(o.field, "local:")]; ok {
					o.field = f
				}
			} else if o.field == "" && o.local != "" {
				if f, ok := ren[o.local]; ok {
					o.field = f
				}
			}
			out[i] = o
		}
		return out
	}
	var mainW, mainR *side
	for _, fd := range w.sortedDecls() {
		if fd.Body == nil {
			continue
		}
		if w.wireCapable(fd, true, map[*ast.FuncDecl]bool{}) {
			s := &side{fd, w.flatWire(fd, true, 0)}
			if fields(s.ops) > 0 && (mainW == nil || len(s.ops) > len(mainW.ops)) {
				mainW = s
			}
		}
		if w.wireCapable(fd, false, map[*ast.FuncDecl]bool{}) {
			s := &side{fd, fieldOfLocal(fd, w.flatWire(fd, false, 0))}
			if fields(s.ops) > 0 && (mainR == nil || len(s.ops) > len(mainR.ops)) {
				mainR = s
			}
		}
	}
	if mainW == nil || mainR == nil {
		cannotDecide("R16.1: could not identify the serialiser/deserialiser of CompiledTemplate")
	}
	w.compareWire(r, mainW.fd, mainR.fd, mainW.ops, mainR.ops, false, true)

	// every field of CompiledTemplate exactly once on each side
	st := w.structOf("CompiledTemplate")
	for i := 0; i < st.NumFields(); i++ {
		f := st.Field(i).Name()
		nw, nr := 0, 0
		for _, o := range mainW.ops {
			if o.field == f && !o.lenOf {
				nw++
			}
		}
		for _, o := range mainR.ops {
			if o.field == f && !(o.kind == "fixed" && o.lenOf) {
				nr++
			}
		}
		construct := "field CompiledTemplate." + f + " on the wire exactly once each way"
		if nw == 1 && nr == 1 {
			r.ok("R16.1", "(codec)", construct, "-", "written once, read once", true)
		} else {
			r.bad("R16.1", "(codec)", construct, "-", fmt.Sprintf("the field is written %d time(s) and read %d time(s): it does not survive the round trip", nw, nr))
		}
	}

	checkFieldCorrespondence(w, r)
	// every function on the write side of the codec (it performs wire operations itself or through
	// package helpers) is looked at for narrowed lengths
	var writeSide []*ast.FuncDecl
	for _, fd := range w.sortedDecls() {
		if w.wireCapable(fd, true, map[*ast.FuncDecl]bool{}) {
			writeSide = append(writeSide, fd)
		}
	}
	checkNarrowing(w, r, writeSide)
	checkLengthPrefixes(w, r, "R16.3")
	checkGobDead(w, r)
	checkCompiledPaths(w, r)
	checkNameToFileInjective(w, r)
	// R16.6: nothing on the compile / load / serialise paths memoises in a package-level table
	// anything that is not a function of the table's key (a parsed tree keyed by name+timestamp…)
	codec := map[*ssa.Function]bool{}
	var roots []*ssa.Function
	for _, nm := range []string{"LoadFromCompiled", "CompileTemplate", "SerializeCompiledTemplate", "DeserializeCompiledTemplate"} {
		if f := w.tryFn(nm); f != nil {
			roots = append(roots, w.ssaFunc(f))
		}
	}
	cut := map[*ssa.Function]bool{}
	if m := w.tryMethod("Parser", "Parse"); m != nil {
		cut[w.ssaFunc(m)] = true
	}
	for f := range w.reachableFromCut(roots, cut) {
		codec[f] = true
	}
	checkGlobalMemos(w, r, "R16.6", func(f *ssa.Function) bool { return codec[f] })
	checkSaveWrites(w, r)
	checkCompiledImmutable(w, r)
	checkLoadedTreeIsParsed(w, r)
	checkCompileUsesOwnSource(w, r)
	checkReaderAcceptsWhatWriterWrites(w, r)
	checkConstructorsAgreeOnTree(w, r)
	checkCodecSizeClasses(w, r)
	checkRenderingIgnoresProvenance(w, r)
}

func (w *World) compareWire(r *Report, wfd, rfd *ast.FuncDecl, wo, ro []wireOp, helper bool, helperPairOK bool) bool {
	name := w.declName(wfd) + " ↔ " + w.declName(rfd)
	allOK := true
	if len(wo) != len(ro) {
		var ws, rs []string
		for _, o := range wo {
			ws = append(ws, o.String())
		}
		for _, o := range ro {
			rs = append(rs, o.String())
		}
		r.bad("R16.1", name, "same number of wire operations", w.pos(wfd), fmt.Sprintf("the writer performs %d wire operations %v, the reader %d %v", len(wo), ws, len(ro), rs))
		return false
	}
	for i := range wo {
		a, b := wo[i], ro[i]
		construct := fmt.Sprintf("wire op #%d %s", i+1, a.String())
		why := ""
		switch {
		case a.kind != b.kind:
			why = fmt.Sprintf("writer %s, reader %s", a.String(), b.String())
		case a.kind == "fixed" && a.typ != b.typ:
			why = fmt.Sprintf("width/signedness differ: written as %s, read as %s", a.typ, b.typ)
		case a.kind == "fixed" && a.order != b.order:
			why = fmt.Sprintf("byte order differs: written %s, read %s", a.order, b.order)
		case a.kind == "fixed" && a.lenOf != b.lenOf:
			why = "one side treats the value as a length prefix, the other does not"
		case a.kind == "fixed" && a.cnst != "" && a.cnst != b.cnst:
			why = fmt.Sprintf("the writer writes constant %s, the reader accepts %q", a.cnst, b.cnst)
		case a.kind == "helper" && !helperPairOK:
			why = "the string helpers are not a verified writer/reader pair"
		}
		if why == "" && !helper {
			// field correspondence
			af, bf := a.field, b.field
			if a.kind == "fixed" && a.cnst != "" {
				af, bf = "", ""
			}
			if af != bf {
				why = fmt.Sprintf("the writer's value comes from field %q, the reader stores into %q", af, bf)
			}
		}
		if why == "" {
			r.ok("R16.1", name, construct, w.posOf(a.pos), "reader: "+b.String(), true)
		} else {
			allOK = false
			r.bad("R16.1", name, construct, w.posOf(a.pos), "writer and reader disagree: "+why)
		}
	}
	return allOK
}

// checkNarrowing: R16.2
func checkNarrowing(w *World, r *Report, writers []*ast.FuncDecl) {
	n := 0
	for _, fd := range writers {
		fn := w.ssaFunc(w.Info.Defs[fd.Name].(*types.Func))
		instrsOf(fn, func(in ssa.Instruction) {
			cv, ok := in.(*ssa.Convert)
			if !ok {
				return
			}
			dst, ok := cv.Type().Underlying().(*types.Basic)
			if !ok || dst.Kind() != types.Uint32 && dst.Kind() != types.Uint16 && dst.Kind() != types.Uint8 && dst.Kind() != types.Int32 {
				return
			}
			lc, ok := cv.X.(*ssa.Call)
			if !ok {
				return
			}
			if b, ok := lc.Call.Value.(*ssa.Builtin); !ok || b.Name() != "len" {
				return
			}
			n++
			construct := fmt.Sprintf("%s(len(%s))", dst.Name(), describe(lc.Call.Args[0]))
			// a dominating comparison of len(same operand) with a constant whose failing side returns
			guarded := false
			for _, b := range fn.Blocks {
				v, _, ok := ifCond(b)
				if !ok {
					continue
				}
				bo, ok := v.(*ssa.BinOp)
				if !ok {
					continue
				}
				isLenOfSame := func(x ssa.Value) bool {
					if c, ok := x.(*ssa.Convert); ok {
						x = c.X
					}
					c, ok := x.(*ssa.Call)
					if !ok {
						return false
					}
					bi, ok := c.Call.Value.(*ssa.Builtin)
					return ok && bi.Name() == "len" && sameValue(c.Call.Args[0], lc.Call.Args[0])
				}
				_, cy := bo.Y.(*ssa.Const)
				_, cx := bo.X.(*ssa.Const)
				if !((isLenOfSame(bo.X) && cy) || (isLenOfSame(bo.Y) && cx)) {
					continue
				}
				for i, s := range b.Succs {
					other := b.Succs[1-i]
					if (s == cv.Block() || s.Dominates(cv.Block())) && len(s.Preds) == 1 && endsInReturn(other) {
						guarded = true
					}
				}
			}
			if guarded {
				r.ok("R16.2", ssaName(fn), construct, w.posOf(cv.Pos()), "dominated by a bound check whose failing side returns", true)
			} else {
				r.bad("R16.2", ssaName(fn), construct, w.posOf(cv.Pos()), "a length is narrowed to "+dst.Name()+" without a bound check: a value of 4 GiB or more is written with a truncated length prefix and cannot be read back")
			}
		})
	}
	r.floor("length narrowings on the write side", n, 1)
}

func endsInReturn(b *ssa.BasicBlock) bool {
	seen := map[*ssa.BasicBlock]bool{}
	for b != nil && !seen[b] {
		seen[b] = true
		if len(b.Instrs) == 0 {
			return false
		}
		switch b.Instrs[len(b.Instrs)-1].(type) {
		case *ssa.Return:
			return true
		case *ssa.Jump:
			b = b.Succs[0]
		default:
			return false
		}
	}
	return false
}

// checkLengthPrefixes: a value read with binary.Read that sizes a make() must first be compared
// with the remaining input.
func checkLengthPrefixes(w *World, r *Report, rule string) {
	n := 0
	for _, fn := range w.pkgFuncs() {
		instrsOf(fn, func(in ssa.Instruction) {
			ms, ok := in.(*ssa.MakeSlice)
			if !ok {
				return
			}
			// length derives from a local that binary.Read filled
			var src *ssa.Alloc
			var walk func(v ssa.Value, d int)
			walk = func(v ssa.Value, d int) {
				if d > 4 || src != nil {
					return
				}
				switch x := v.(type) {
				case *ssa.Convert:
					walk(x.X, d+1)
				case *ssa.UnOp:
					if al, ok := x.X.(*ssa.Alloc); ok && al.Referrers() != nil {
						for _, ref := range *al.Referrers() {
							if mi, ok := ref.(*ssa.MakeInterface); ok && mi.Referrers() != nil {
								for _, r2 := range *mi.Referrers() {
									if c, ok := r2.(ssa.CallInstruction); ok && isFunc(calleeFunc(c), "encoding/binary", "", "Read") {
										src = al
									}
								}
							}
						}
					}
				}
			}
			walk(ms.Len, 0)
			// … or from a parameter of a reader helper (`readBytes(n uint32)`): the buffer it sizes
			// is filled by io.ReadFull in the same function, so n is a length prefix by role
			var srcParam *ssa.Parameter
			if src == nil {
				v := ms.Len
				for d := 0; d < 4; d++ {
					if cv, ok := v.(*ssa.Convert); ok {
						v = cv.X
					}
				}
				if p, ok := v.(*ssa.Parameter); ok {
					fills := false
					instrsOf(fn, func(x ssa.Instruction) {
						if c, ok := x.(ssa.CallInstruction); ok && isFunc(calleeFunc(c), "io", "", "ReadFull") {
							fills = true
						}
					})
					if fills {
						srcParam = p
					}
				}
			}
			if src == nil && srcParam == nil {
				return
			}
			n++
			construct := "allocation sized by a length prefix read from the input"
			// a dominating comparison involving a load of src and a Len()/len() of the input
			guarded := false
			for _, b := range fn.Blocks {
				v, _, ok := ifCond(b)
				if !ok {
					continue
				}
				bo, ok := v.(*ssa.BinOp)
				if !ok {
					continue
				}
				mentionsSrc := func(x ssa.Value) bool {
					for d := 0; d < 4; d++ {
						switch y := x.(type) {
						case *ssa.Convert:
							x = y.X
							continue
						case *ssa.UnOp:
							return src != nil && y.X == ssa.Value(src)
						case *ssa.Parameter:
							return srcParam != nil && y == srcParam
						}
						break
					}
					return false
				}
				isRemaining := func(x ssa.Value) bool {
					for d := 0; d < 4; d++ {
						switch y := x.(type) {
						case *ssa.Convert:
							x = y.X
							continue
						case *ssa.Call:
							if f := calleeFunc(y); f != nil && f.Name() == "Len" {
								return true
							}
							if bi, ok := y.Call.Value.(*ssa.Builtin); ok && bi.Name() == "len" {
								return true
							}
						}
						break
					}
					return false
				}
				if !((mentionsSrc(bo.X) && isRemaining(bo.Y)) || (mentionsSrc(bo.Y) && isRemaining(bo.X))) {
					continue
				}
				for i, s := range b.Succs {
					other := b.Succs[1-i]
					if (s == ms.Block() || s.Dominates(ms.Block())) && len(s.Preds) == 1 && endsInReturn(other) {
						guarded = true
					}
				}
			}
			if guarded {
				r.ok(rule, ssaName(fn), construct, w.posOf(ms.Pos()), "compared with the remaining input first; the failing side returns an error", true)
			} else {
				r.bad(rule, ssaName(fn), construct, w.posOf(ms.Pos()), "up to 4 GiB are allocated on the word of five input bytes: the length read from the data is not compared with the remaining input before make()")
			}
		})
	}
	r.floor("allocations sized by a length read from input", n, 1)
}

// checkGobDead: R16.4
func checkGobDead(w *World, r *Report) {
	n := 0
	for _, fd := range w.sortedDecls() {
		ast.Inspect(fd.Body, func(nd ast.Node) bool {
			c, ok := nd.(*ast.CallExpr)
			if !ok || !w.calleeIs(c, "encoding/gob", "", "Register") || len(c.Args) != 1 {
				return true
			}
			t := deref(w.Info.TypeOf(c.Args[0]))
			st, ok := t.Underlying().(*types.Struct)
			if !ok {
				return true
			}
			n++
			var exported []string
			// gob can encode a struct only through exported fields whose own type is
			// encodable; an embedded struct without such fields does not count
			var encodable func(t types.Type, depth int) bool
			encodable = func(t types.Type, depth int) bool {
				es, ok := deref(t).Underlying().(*types.Struct)
				if !ok {
					return true
				}
				if depth > 4 {
					return true
				}
				for i := 0; i < es.NumFields(); i++ {
					if es.Field(i).Exported() && encodable(es.Field(i).Type(), depth+1) {
						return true
					}
				}
				return false
			}
			for i := 0; i < st.NumFields(); i++ {
				f := st.Field(i)
				if f.Exported() && encodable(f.Type(), 0) {
					exported = append(exported, f.Name())
				}
			}
			construct := "gob-registered " + types.TypeString(t, func(*types.Package) string { return "" }) + " has no exported field"
			if len(exported) == 0 {
				r.ok("R16.4", w.declName(fd), construct, w.pos(c), "gob cannot encode it: the compiled form never carries a tree, LoadFromCompiled always parses Source", false)
			} else {
				r.bad("R16.4", w.declName(fd), construct, w.pos(c), fmt.Sprintf("the node type has exported fields %v: gob can now encode a partial tree (unexported fields are dropped), and LoadFromCompiled would render that instead of parsing the source", exported))
			}
			return true
		})
	}
	r.floor("gob registrations", n, 5)
	// LoadFromCompiled: the parse fallback is taken whenever the decoded tree is nil
	lf := w.ssaFunc(w.fn("LoadFromCompiled"))
	parse := w.method("Parser", "Parse")
	found := false
	seenLF := map[*ssa.Function]bool{}
	var scanLF func(g *ssa.Function, d int)
	scanLF = func(g *ssa.Function, d int) {
		if g == nil || seenLF[g] || d > 3 || found {
			return
		}
		seenLF[g] = true
		instrsOf(g, func(in ssa.Instruction) {
			c, ok := in.(ssa.CallInstruction)
			if !ok {
				return
			}
			if calleeFunc(c) == parse {
				found = true
			}
			// through unexported helpers of the package
			if h := c.Common().StaticCallee(); h != nil && isTwigFn(h) && h.Object() != nil && !h.Object().Exported() {
				scanLF(h, d+1)
			}
		})
	}
	scanLF(lf, 0)
	if found {
		r.ok("R16.4", ssaName(lf), "falls back to parsing the stored source", w.posOf(lf.Pos()), "calls Parser.Parse", false)
	} else {
		r.bad("R16.4", ssaName(lf), "falls back to parsing the stored source", w.posOf(lf.Pos()), "LoadFromCompiled never parses the stored source")
	}
}

// checkCompiledPaths: R16.5
func checkCompiledPaths(w *World, r *Report) {
	tn := w.tryLookup("CompiledLoader")
	if tn == nil {
		r.note("no CompiledLoader type: R16.5 not applicable")
		return
	}
	shapes := map[string][]string{}
	n := 0
	for _, fd := range w.sortedDecls() {
		if fd.Recv == nil || len(fd.Recv.List) == 0 || !isNamed(w.Info.TypeOf(fd.Recv.List[0].Type), twigPath, "CompiledLoader") {
			continue
		}
		ast.Inspect(fd.Body, func(nd ast.Node) bool {
			c, ok := nd.(*ast.CallExpr)
			if !ok || !w.calleeIs(c, "path/filepath", "", "Join") {
				return true
			}
			// only paths derived from a template name: the call mentions a string parameter
			usesParam := false
			ast.Inspect(c, func(m ast.Node) bool {
				if id, ok := m.(*ast.Ident); ok {
					if v, ok := w.Info.Uses[id].(*types.Var); ok && fd.Type.Params != nil {
						for _, pf := range fd.Type.Params.List {
							for _, pn := range pf.Names {
								if w.Info.Defs[pn] == v && types.Identical(v.Type(), types.Typ[types.String]) {
									usesParam = true
								}
							}
						}
					}
				}
				return true
			})
			if !usesParam {
				return true
			}
			n++
			shape := normaliseExpr(types.ExprString(c))
			shapes[shape] = append(shapes[shape], w.declName(fd)+" ("+w.pos(c)+")")
			return true
		})
	}
	if n == 0 {
		r.note("CompiledLoader builds no file paths with filepath.Join")
		return
	}
	// the dominant shape is the reference; every other shape must only differ by the name of the name-variable
	var keys []string
	for k := range shapes {
		keys = append(keys, k)
	}
	sort.Slice(keys, func(i, j int) bool {
		return len(shapes[keys[i]]) > len(shapes[keys[j]]) || (len(shapes[keys[i]]) == len(shapes[keys[j]]) && keys[i] < keys[j])
	})
	ref := keys[0]
	for _, k := range keys {
		for _, site := range shapes[k] {
			construct := "compiled file path expression in " + strings.SplitN(site, " ", 2)[0]
			if k == ref {
				r.ok("R16.5", "(CompiledLoader)", construct, "-", "shape "+k, true)
			} else if strings.Contains(k, "fileExtension") == strings.Contains(ref, "fileExtension") && strings.Contains(k, "directory") == strings.Contains(ref, "directory") {
				r.ok("R16.5", "(CompiledLoader)", construct, "-", "shape "+k+" (same directory and extension components)", true)
			} else {
				r.bad("R16.5", "(CompiledLoader)", construct, "-", fmt.Sprintf("file name built as %s here but as %s elsewhere: what one method writes another does not find", k, ref))
			}
		}
	}
}

func normaliseExpr(s string) string {
	return strings.Join(strings.Fields(s), " ")
}

var _ = constant.MakeBool

// checkFieldCorrespondence: R16.1b — where a CompiledTemplate is built from a Template and a
// Template from a CompiledTemplate, name/source/lastModified are copied field to same-named field.
func checkFieldCorrespondence(w *World, r *Report) {
	n := 0
	pairs := map[string]string{"Name": "name", "Source": "source", "LastModified": "lastModified"}
	inv := map[string]string{}
	for k, v := range pairs {
		inv[v] = k
	}
	for _, fd := range w.sortedDecls() {
		ast.Inspect(fd.Body, func(nd ast.Node) bool {
			cl, ok := nd.(*ast.CompositeLit)
			if !ok {
				return true
			}
			t := w.Info.TypeOf(cl)
			toCompiled := isNamed(t, twigPath, "CompiledTemplate")
			toTemplate := isNamed(t, twigPath, "Template")
			if !toCompiled && !toTemplate {
				return true
			}
			for _, el := range cl.Elts {
				kv, ok := el.(*ast.KeyValueExpr)
				if !ok {
					continue
				}
				key := kv.Key.(*ast.Ident).Name
				valExpr := kv.Value
				// a local that is a plain copy of a field (x := compiled.Source … source: x)
				if id, isID := ast.Unparen(valExpr).(*ast.Ident); isID {
					if obj := w.Info.Uses[id]; obj != nil {
						var rhs ast.Expr
						nDef := 0
						ast.Inspect(fd.Body, func(m ast.Node) bool {
							if as, ok := m.(*ast.AssignStmt); ok && len(as.Lhs) == len(as.Rhs) {
								for i, l := range as.Lhs {
									if lid, ok := l.(*ast.Ident); ok && (w.Info.Defs[lid] == obj || w.Info.Uses[lid] == obj) {
										nDef++
										rhs = as.Rhs[i]
									}
								}
							}
							return true
						})
						if nDef == 1 {
							if _, isSel := ast.Unparen(rhs).(*ast.SelectorExpr); isSel {
								valExpr = ast.Unparen(rhs)
							}
						}
					}
				}
				sel, ok := valExpr.(*ast.SelectorExpr)
				if !ok {
					// not a plain field copy: if the value still mentions the counterpart
					// struct, the field is transformed on its way through compile/load
					mentionsOther := false
					ast.Inspect(kv.Value, func(m ast.Node) bool {
						if s2, ok := m.(*ast.SelectorExpr); ok {
							t2 := w.Info.TypeOf(s2.X)
							if (toCompiled && isNamed(t2, twigPath, "Template")) || (toTemplate && isNamed(t2, twigPath, "CompiledTemplate")) {
								mentionsOther = true
							}
						}
						return true
					})
					// … or if the counterpart is a parameter of the function at all (the value
					// went through a local first)
					counterpart := "Template"
					if toTemplate {
						counterpart = "CompiledTemplate"
					}
					if fd.Type.Params != nil {
						for _, pf := range fd.Type.Params.List {
							if isNamed(w.Info.TypeOf(pf.Type), twigPath, counterpart) {
								mentionsOther = true
							}
						}
					}
					_, tracked := pairs[key]
					if toTemplate {
						tracked = inv[key] != ""
					}
					if tracked && mentionsOther {
						n++
						r.bad("R16.1", w.declName(fd), fmt.Sprintf("%s: %s", key, types.ExprString(kv.Value)), w.pos(kv), "the field is not copied but computed from the counterpart's field: name, source or timestamp are altered by compile/load, so the compiled form is not interchangeable with the source")
					}
					continue
				}
				var want string
				switch {
				case toCompiled && isNamed(w.Info.TypeOf(sel.X), twigPath, "Template"):
					want = pairs[key]
				case toTemplate && isNamed(w.Info.TypeOf(sel.X), twigPath, "CompiledTemplate"):
					want = inv[key]
				default:
					continue
				}
				if want == "" {
					continue
				}
				n++
				construct := fmt.Sprintf("%s: %s", key, types.ExprString(kv.Value))
				if sel.Sel.Name == want {
					r.ok("R16.1", w.declName(fd), construct, w.pos(kv), "copied from the same-named field", true)
				} else {
					r.bad("R16.1", w.declName(fd), construct, w.pos(kv), fmt.Sprintf("field %s is filled from %s instead of %s: name, source or timestamp do not survive compile/load", key, sel.Sel.Name, want))
				}
			}
			return true
		})
	}
	r.floor("compile/load field copies", n, 4)
}

// checkSaveWrites — R16.7: saving means writing.  A function of the package that writes a
// compiled template to a file (it contains an os.WriteFile / file Write call) reports success
// only after it wrote: every return with a nil error lies behind the write on every path.  A
// "nothing to do, the file looks up to date" early return leaves the previous template's bytes
// under the name, and what is read back is no longer what was compiled.
func checkSaveWrites(w *World, r *Report) {
	isWrite := func(in ssa.Instruction) bool {
		c, ok := in.(ssa.CallInstruction)
		if !ok {
			return false
		}
		f := calleeFunc(c)
		if f == nil || f.Pkg() == nil {
			return false
		}
		switch f.FullName() {
		case "os.WriteFile", "io/ioutil.WriteFile", "(*os.File).Write", "(*os.File).WriteString", "(*os.File).WriteAt", "(*bufio.Writer).Flush":
			return true
		}
		return false
	}
	n := 0
	for _, fn := range w.pkgFuncs() {
		has := false
		instrsOf(fn, func(in ssa.Instruction) {
			if isWrite(in) {
				has = true
			}
		})
		ei := errResultIndex(fn.Signature)
		if !has || ei < 0 {
			continue
		}
		n++
		construct := "success is reported only after the file was written"
		bad := ""
		instrsOf(fn, func(in ssa.Instruction) {
			ret, ok := in.(*ssa.Return)
			if !ok || bad != "" {
				return
			}
			res := retResults(ret)
			if ei >= len(res) || !isNilConst(res[ei]) {
				return
			}
			if found, path := existsPathAvoiding(fn, in, isWrite, nil); found {
				bad = w.posOf(ret.Pos()) + " (path " + strings.Join(path, " → ") + ")"
			}
		})
		if bad == "" {
			r.ok("R16.7", ssaName(fn), construct, w.posOf(fn.Pos()), "every nil-error return is preceded by the write on every path", true)
		} else {
			r.bad("R16.7", ssaName(fn), construct, bad, "the function can return nil without having written the file: the caller believes the compiled template was saved, but the file keeps what an earlier save (of another source) put there, so the compiled form read back no longer renders like the source")
		}
	}
	r.floor("functions writing compiled files", n, 1)
}

// checkNameToFileInjective — R16.8: two template names never share a file.  In the methods of
// the package's loaders (and the helpers they call with the name), a template name reaches
// filepath.Join / a file-system call only through concatenation and joining; it does not pass
// through a string function that maps different names to one result (Replace/ReplaceAll/Map,
// case folding, trimming, Base).  "Keeping the compiled directory flat" by turning `/` into
// `_` makes `admin/index` and `admin_index` one file: the second save overwrites the first and
// one of the two names reads back the other's template.
func checkNameToFileInjective(w *World, r *Report) {
	lossy := map[string]bool{
		"strings.Replace": true, "strings.ReplaceAll": true, "strings.Map": true, "strings.ToLower": true, "strings.ToUpper": true,
		"strings.Title": true, "strings.TrimSpace": true, "strings.Trim": true, "strings.TrimLeft": true, "strings.TrimRight": true,
		"strings.TrimPrefix": true, "strings.TrimSuffix": true, "strings.Fields": true, "strings.Split": true, "strings.SplitN": true,
		"path/filepath.Base": true, "path.Base": true, "strings.ToValidUTF8": true, "(*strings.Replacer).Replace": true,
	}
	iface, ok := w.named("Loader").Underlying().(*types.Interface)
	if !ok {
		return
	}
	isLoader := func(t types.Type) bool {
		if _, isI := t.Underlying().(*types.Interface); isI {
			return false
		}
		return types.Implements(t, iface) || types.Implements(types.NewPointer(t), iface)
	}
	fsCall := func(f *types.Func) bool {
		if f == nil || f.Pkg() == nil {
			return false
		}
		switch f.Pkg().Path() {
		case "os":
			switch f.Name() {
			case "Stat", "Lstat", "ReadFile", "WriteFile", "Open", "OpenFile", "Create", "Remove", "MkdirAll", "Rename":
				return true
			}
		}
		return false
	}
	n := 0
	for _, fn := range w.pkgFuncs() {
		recv := fn.Signature.Recv()
		if recv == nil || !isLoader(deref(recv.Type())) || fn.Synthetic != "" {
			continue
		}
		// the name parameter: string parameters of the method
		var nameParams []*ssa.Parameter
		for _, p := range fn.Params[1:] {
			if types.Identical(p.Type(), types.Typ[types.String]) {
				nameParams = append(nameParams, p)
			}
		}
		if len(nameParams) == 0 {
			continue
		}
		instrsOf(fn, func(in ssa.Instruction) {
			c, ok := in.(*ssa.Call)
			if !ok || !fsCall(calleeFunc(c)) || len(c.Call.Args) == 0 {
				return
			}
			// backward slice of the path argument
			var found, viaName bool
			var where string
			seen := map[ssa.Value]bool{}
			var walk func(v ssa.Value, d int)
			walk = func(v ssa.Value, d int) {
				if seen[v] || d > 14 {
					return
				}
				seen[v] = true
				switch x := v.(type) {
				case *ssa.Parameter:
					for _, p := range nameParams {
						if x == p {
							viaName = true
						}
					}
					if x.Parent() != fn {
						// a helper's parameter: the slice was entered through a call below
						viaName = viaName || types.Identical(x.Type(), types.Typ[types.String])
					}
				case *ssa.BinOp:
					walk(x.X, d+1)
					walk(x.Y, d+1)
				case *ssa.Phi:
					for _, e := range x.Edges {
						walk(e, d+1)
					}
				case *ssa.UnOp:
					if u := unspill(x); u != ssa.Value(x) {
						walk(u, d+1)
					}
				case *ssa.Slice:
					if _, isAl := x.X.(*ssa.Alloc); isAl {
						for _, e := range variadicElems(x) {
							if e != ssa.Value(x) {
								walk(e, d+1)
							}
						}
					} else {
						walk(x.X, d+1)
					}
				case *ssa.Call:
					f := calleeFunc(x)
					full := ""
					if f != nil {
						full = f.FullName()
					}
					if lossy[full] {
						// only if the name flows into it
						sub := map[ssa.Value]bool{}
						nameIn := false
						var reach func(a ssa.Value, dd int)
						reach = func(a ssa.Value, dd int) {
							if sub[a] || dd > 10 {
								return
							}
							sub[a] = true
							switch y := a.(type) {
							case *ssa.Parameter:
								if types.Identical(y.Type(), types.Typ[types.String]) {
									nameIn = true
								}
							case *ssa.BinOp:
								reach(y.X, dd+1)
								reach(y.Y, dd+1)
							case *ssa.Call:
								for _, b := range y.Call.Args {
									reach(b, dd+1)
								}
							case *ssa.Slice:
								if _, isAl := y.X.(*ssa.Alloc); isAl {
									for _, e := range variadicElems(y) {
										if e != ssa.Value(y) {
											reach(e, dd+1)
										}
									}
								} else {
									reach(y.X, dd+1)
								}
							case *ssa.Phi:
								for _, e := range y.Edges {
									reach(e, dd+1)
								}
							case *ssa.UnOp:
								if u := unspill(y); u != ssa.Value(y) {
									reach(u, dd+1)
								}
							}
						}
						for _, a := range x.Call.Args {
							reach(a, 0)
						}
						if nameIn {
							found, where = true, full+" at "+w.posOf(x.Pos())
						}
					}
					if g := x.Call.StaticCallee(); g != nil && isTwigFn(g) && len(g.Blocks) > 0 {
						// a path helper of the package: its results
						instrsOf(g, func(gi ssa.Instruction) {
							if ret, ok := gi.(*ssa.Return); ok {
								for _, rv := range retResults(ret) {
									if types.Identical(rv.Type(), types.Typ[types.String]) {
										walk(rv, d+1)
									}
								}
							}
						})
						return
					}
					for _, a := range x.Call.Args {
						walk(a, d+1)
					}
				}
			}
			walk(c.Call.Args[0], 0)
			if !viaName {
				return
			}
			n++
			construct := "template name reaches " + calleeFunc(c).Name() + " without a many-to-one transformation"
			if found {
				r.bad("R16.8", ssaName(fn), construct, w.posOf(in.Pos()), "on its way into the file name the template name passes through "+where+", which maps different names to the same string: two templates share one file, so what is read back under a name can be another template's source")
			} else {
				r.ok("R16.8", ssaName(fn), construct, w.posOf(in.Pos()), "the name is only concatenated and joined", true)
			}
		})
	}
	r.floor("file-system calls on paths derived from a template name", n, 4)
}

// checkLoadedTreeIsParsed — R16.9: the tree of a template loaded from its compiled form is
// Parse(Source) (or the gob-decoded AST, which R16.4 shows can never decode).  Every value that
// can be stored into the nodes field of the Template built by LoadFromCompiled is the first
// result of Parser.Parse or the variable handed to the decoder.  A shortcut that builds the
// tree another way ("static sources need no parser") has to reproduce the tokenizer — comments,
// escapes, whitespace control — and renders differently from the source wherever it does not.
func checkLoadedTreeIsParsed(w *World, r *Report) {
	obj, _ := w.tryLookup("LoadFromCompiled").(*types.Func)
	if obj == nil {
		r.note("no LoadFromCompiled function: R16.9 not applicable")
		return
	}
	n := checkTreeIsParsed(w, r, "R16.9", w.ssaFunc(obj))
	r.floor("stores of the loaded template's tree", n, 1)
}

// checkTreesAreParsed — R14.10: every template's tree is what the parser made of its source.  In
// every function of the package that stores a Template's nodes, the stored tree comes — on every
// edge, through helpers — from Parser.Parse (or was handed in as a parameter): a helper that
// builds a tree itself for sources that "contain no tags" is a second grammar, chosen by a scan
// of the text.
func checkTreesAreParsed(w *World, r *Report) {
	n := 0
	for _, fn := range w.pkgFuncs() {
		if fn.Name() == "LoadFromCompiled" {
			continue // R16.9
		}
		n += checkTreeIsParsed(w, r, "R14.10", fn)
	}
	r.floor("stores of a template's tree", n, 1)
}

func checkTreeIsParsed(w *World, r *Report, rule string, fn *ssa.Function) int {
	parse := w.method("Parser", "Parse")
	n := 0
	instrsOf(fn, func(in ssa.Instruction) {
		st, ok := in.(*ssa.Store)
		if !ok {
			return
		}
		if _, ok := fieldAddr(st.Addr, "Template", "nodes"); !ok {
			return
		}
		n++
		construct := "tree of the loaded template comes from Parse(Source)"
		bad := ""
		seen := map[ssa.Value]bool{}
		var walk func(v ssa.Value, d int)
		walk = func(v ssa.Value, d int) {
			if seen[v] || d > 10 || bad != "" {
				return
			}
			seen[v] = true
			switch x := v.(type) {
			case *ssa.Const:
				return
			case *ssa.Parameter:
				if rule != "R16.9" {
					// an exported constructor is handed its tree by the library's user
					// (NewTemplate); an unexported one by the package: what its callers pass
					pf := x.Parent()
					if pf.Object() == nil || pf.Object().Exported() {
						return
					}
					idx := -1
					for i, q := range pf.Params {
						if q == x {
							idx = i
						}
					}
					for _, e := range realInEdges(pf) {
						if e.Site == nil || e.Site.Common().StaticCallee() != pf || idx < 0 || idx >= len(e.Site.Common().Args) {
							continue
						}
						walk(e.Site.Common().Args[idx], d+1)
					}
					return
				}
			case *ssa.Phi:
				for _, e := range x.Edges {
					walk(e, d+1)
				}
				return
			case *ssa.Extract:
				if c, ok := x.Tuple.(*ssa.Call); ok && calleeFunc(c) == parse && x.Index == 0 {
					return
				}
				if c, ok := x.Tuple.(*ssa.Call); ok {
					if g := c.Call.StaticCallee(); g != nil && w.inPkg(g) && len(g.Blocks) > 0 {
						// a helper: its first results
						instrsOf(g, func(gi ssa.Instruction) {
							if ret, ok := gi.(*ssa.Return); ok {
								res := retResults(ret)
								if x.Index < len(res) {
									walk(res[x.Index], d+1)
								}
							}
						})
						return
					}
				}
			case *ssa.UnOp:
				if al, ok := x.X.(*ssa.Alloc); ok && al.Referrers() != nil {
					// the local the decoder fills, or a local assigned on several paths
					for _, ref := range *al.Referrers() {
						switch y := ref.(type) {
						case *ssa.Store:
							if y.Addr == ssa.Value(al) {
								walk(y.Val, d+1)
							}
						}
					}
					return
				}
			case *ssa.MakeInterface:
				walk(x.X, d+1)
				return
			case *ssa.Call:
				// a helper with one result (decodeCompiledAST): what it returns
				if g := x.Call.StaticCallee(); g != nil && w.inPkg(g) && len(g.Blocks) > 0 && g.Signature.Results().Len() == 1 && calleeFunc(x) != parse {
					instrsOf(g, func(gi ssa.Instruction) {
						if ret, ok := gi.(*ssa.Return); ok {
							walk(retResults(ret)[0], d+1)
						}
					})
					return
				}
			}
			bad = describe(v)
		}
		walk(st.Val, 0)
		if bad == "" {
			r.ok(rule, ssaName(fn), construct, w.posOf(in.Pos()), "every source of the stored tree is Parser.Parse (or the decoder's variable / a parameter)", true)
		} else {
			r.bad(rule, ssaName(fn), construct, w.posOf(in.Pos()), "the tree stored in the template can come from "+bad+", not from parsing the source: the template then renders like its source only where that shortcut reproduces the tokenizer and parser exactly (comments, escaped delimiters, whitespace control)")
		}
	})
	return n
}

// checkCompiledImmutable — R16.1c: what was compiled is what is stored.  The fields of a
// CompiledTemplate are assigned only while the value is being built (in the function that
// allocates it: the compiler's literal, the decoder's fresh value); no function rewrites a
// field of a compiled template it received from a call or a parameter ("goes by the name it was
// asked for"): name, source and timestamps of the compiled form are those of the template.
func checkCompiledImmutable(w *World, r *Report) {
	n, bad := 0, 0
	for _, fn := range w.pkgFuncs() {
		instrsOf(fn, func(in ssa.Instruction) {
			st, ok := in.(*ssa.Store)
			if !ok {
				return
			}
			fa, ok := st.Addr.(*ssa.FieldAddr)
			if !ok {
				return
			}
			tn, f := fieldOfAddr(fa)
			if tn != "CompiledTemplate" {
				return
			}
			n++
			base := fa.X
			for k := 0; k < 3; k++ {
				if u := unspill(base); u != base {
					base = u
				}
			}
			fresh := false
			switch x := base.(type) {
			case *ssa.Alloc:
				fresh = true
			case *ssa.Phi:
				fresh = true
				for _, e := range x.Edges {
					if _, isAl := e.(*ssa.Alloc); !isAl {
						fresh = false
					}
				}
			}
			if fresh {
				r.ok("R16.1", ssaName(fn), "store CompiledTemplate."+f, w.posOf(in.Pos()), "field of the value being built in this function", false)
			} else {
				bad++
				r.bad("R16.1", ssaName(fn), "store CompiledTemplate."+f, w.posOf(in.Pos()), "the field "+f+" of a compiled template that was built elsewhere is overwritten: the compiled form no longer carries the name/source/timestamps of the template it was compiled from, so what is read back (and how its relative includes resolve) differs from the original")
			}
		})
	}
	r.Counts["stores to CompiledTemplate fields"] = n
}

// checkCompileUsesOwnSource — R16.10: compiling a template compiles THAT template.  Every
// *CompiledTemplate a method of Template returns is, through phis and helpers that receive the
// template itself, a freshly built CompiledTemplate whose Source is the template's own source
// field — never something read from a file or decoded from bytes: the stored compiled form may
// belong to another version of the source than the one the engine holds and renders.
func checkCompileUsesOwnSource(w *World, r *Report) {
	n := 0
	var okValue func(v ssa.Value, tmpl ssa.Value, depth int) string
	okValue = func(v ssa.Value, tmpl ssa.Value, depth int) string {
		v = unspill(v)
		if depth > 6 {
			return "too deep"
		}
		switch x := v.(type) {
		case *ssa.Const:
			return ""
		case *ssa.Phi:
			for _, e := range x.Edges {
				if why := okValue(e, tmpl, depth+1); why != "" {
					return why
				}
			}
			return ""
		case *ssa.Extract:
			return okValue(x.Tuple, tmpl, depth)
		case *ssa.Alloc:
			// &CompiledTemplate{…}: Source must be tmpl.source
			found := ""
			for _, ref := range *x.Referrers() {
				fa, ok := ref.(*ssa.FieldAddr)
				if !ok || fa.Referrers() == nil {
					continue
				}
				if _, f := fieldOfAddr(fa); f != "Source" {
					continue
				}
				for _, r2 := range *fa.Referrers() {
					if st, ok := r2.(*ssa.Store); ok && st.Addr == ssa.Value(fa) {
						if base, ok := fieldLoad(unspill(st.Val), "Template", "source"); ok && sameValue(unspill(base), unspill(tmpl)) {
							found = "ok"
						} else {
							return "a CompiledTemplate whose Source is not the template's own source field"
						}
					}
				}
			}
			if found == "" {
				return "a CompiledTemplate without a Source taken from the template"
			}
			return ""
		case *ssa.Call:
			g := x.Call.StaticCallee()
			if g == nil || !isTwigFn(g) || len(g.Blocks) == 0 {
				return "the result of " + x.Call.String()
			}
			idx := -1
			for i, a := range x.Call.Args {
				if sameValue(unspill(a), unspill(tmpl)) {
					idx = i
				}
			}
			if idx < 0 || idx >= len(g.Params) {
				return "the result of " + g.Name() + ", which is not handed the template"
			}
			why := ""
			instrsOf(g, func(in ssa.Instruction) {
				if ret, ok := in.(*ssa.Return); ok && why == "" && len(ret.Results) > 0 {
					why = okValue(retResults(ret)[0], g.Params[idx], depth+1)
				}
			})
			return why
		}
		return v.String()
	}
	for _, fn := range w.pkgFuncs() {
		if fn.Signature.Recv() == nil || fn.Synthetic != "" || !isNamed(deref(fn.Signature.Recv().Type()), twigPath, "Template") {
			continue
		}
		if fn.Signature.Results().Len() == 0 || !isNamed(deref(fn.Signature.Results().At(0).Type()), twigPath, "CompiledTemplate") {
			continue
		}
		n++
		why := ""
		instrsOf(fn, func(in ssa.Instruction) {
			if ret, ok := in.(*ssa.Return); ok && why == "" {
				why = okValue(retResults(ret)[0], fn.Params[0], 0)
			}
		})
		construct := "the compiled form is built from the template's own source"
		if why == "" {
			r.ok("R16.10", ssaName(fn), construct, w.posOf(fn.Pos()), "every returned CompiledTemplate takes Source from the receiver's source field", true)
		} else {
			r.bad("R16.10", ssaName(fn), construct, w.posOf(fn.Pos()), "the method can return "+why+": a compiled form that was read back (from the compiled store, from bytes) can belong to another version of the source than the template the engine holds, so the compiled template renders differently from the template it was made from")
		}
	}
	r.floor("Template methods returning a compiled form", n, 1)
}

// checkReaderAcceptsWhatWriterWrites — R16.11: the reader does not judge content.  In the
// functions reachable from DeserializeCompiledTemplate, no return of a surely non-nil error is
// control dependent on a call that inspects a decoded string (the Name / Source fields of the
// compiled template, or a string read from the input): the writer stores any byte string, so a
// "sanity check" on the text — valid UTF-8, no NUL, a maximum line length — makes templates that
// compile fine fail to load.
func checkReaderAcceptsWhatWriterWrites(w *World, r *Report) {
	root := w.tryFn("DeserializeCompiledTemplate")
	if root == nil {
		return
	}
	cut := map[*ssa.Function]bool{}
	if m := w.tryMethod("Parser", "Parse"); m != nil {
		cut[w.ssaFunc(m)] = true
	}
	n := 0
	decodedString := func(v ssa.Value) bool {
		v = unspill(v)
		if b, ok := v.Type().Underlying().(*types.Basic); !ok || b.Kind() != types.String {
			return false
		}
		if t, f := originField(v, 0); t == "CompiledTemplate" && (f == "Name" || f == "Source") {
			return true
		}
		if ex, ok := v.(*ssa.Extract); ok {
			if c, ok := ex.Tuple.(*ssa.Call); ok {
				if g := c.Call.StaticCallee(); g != nil && isTwigFn(g) && strings.HasPrefix(strings.ToLower(g.Name()), "read") {
					return true
				}
			}
		}
		return false
	}
	for fn := range w.reachableFromCut([]*ssa.Function{w.ssaFunc(root)}, cut) {
		if !isTwigFn(fn) {
			continue
		}
		instrsOf(fn, func(in ssa.Instruction) {
			ret, ok := in.(*ssa.Return)
			if !ok {
				return
			}
			res := retResults(ret)
			if len(res) == 0 || !errorSurelyNonNil(res[len(res)-1], ret.Block()) {
				return
			}
			n++
			bad := ""
			for _, c := range controllingConds(in) {
				var facts []condFact
				expandCond(c, true, &facts, 0)
				expandCond(c, false, &facts, 0)
				for _, cf := range facts {
					call, ok := cf.v.(*ssa.Call)
					if !ok {
						continue
					}
					for _, a := range call.Call.Args {
						if decodedString(a) {
							bad = call.Call.String()
						}
					}
				}
			}
			construct := "an error return does not depend on what a decoded string contains"
			if bad != "" {
				r.bad("R16.11", ssaName(fn), construct, w.posOf(ret.Pos()), "the reader rejects the data depending on "+bad+" — a judgement about the text of a name or source the writer stores without looking at it: a template whose source has such bytes compiles and saves, and then cannot be loaded")
			} else {
				r.ok("R16.11", ssaName(fn), construct, w.posOf(ret.Pos()), "controlled by read errors, lengths and the version only", false)
			}
		})
	}
	r.floor("error returns on the deserialising side", n, 3)
}

// checkConstructorsAgreeOnTree — R16.12: a template built from compiled bytes carries everything
// a template built from source carries.  Every place that builds a Template and stores a tree in
// it is compared with its siblings: a field that some constructor fills with a value computed
// from the tree (an index of the top-level blocks, a table of macros, a flag "extends something")
// is filled by every constructor that stores a tree — in particular by LoadFromCompiled.  A
// derived field missing at one site is zero there, and the render code that reads it sees a
// template without blocks exactly when the template came from compiled bytes.
func checkConstructorsAgreeOnTree(w *World, r *Report) {
	type site struct {
		fn     *ssa.Function
		al     *ssa.Alloc
		tree   ssa.Value
		fields map[int]ssa.Value
	}
	var sites []*site
	tmpl := w.named("Template")
	st := tmpl.Underlying().(*types.Struct)
	for _, fn := range w.pkgFuncs() {
		instrsOf(fn, func(in ssa.Instruction) {
			al, ok := in.(*ssa.Alloc)
			if !ok || !types.Identical(deref(al.Type()), tmpl) || al.Referrers() == nil {
				return
			}
			s := &site{fn: fn, al: al, fields: map[int]ssa.Value{}}
			for _, ref := range *al.Referrers() {
				fa, ok := ref.(*ssa.FieldAddr)
				if !ok || fa.Referrers() == nil {
					continue
				}
				for _, r2 := range *fa.Referrers() {
					if store, ok := r2.(*ssa.Store); ok && store.Addr == ssa.Value(fa) {
						s.fields[fa.Field] = store.Val
						if st.Field(fa.Field).Name() == "nodes" {
							s.tree = store.Val
						}
					}
				}
			}
			if s.tree != nil && !isNilConst(s.tree) {
				sites = append(sites, s)
			}
		})
	}
	dependsOn := func(v, on ssa.Value) bool {
		seen := map[ssa.Value]bool{}
		var walk func(v ssa.Value, d int) bool
		walk = func(v ssa.Value, d int) bool {
			if v == nil || seen[v] || d > 8 {
				return false
			}
			seen[v] = true
			if v == on || sameValue(unspill(v), unspill(on)) {
				return true
			}
			if in, ok := v.(ssa.Instruction); ok {
				for _, op := range in.Operands(nil) {
					if *op != nil && walk(*op, d+1) {
						return true
					}
				}
			}
			return false
		}
		return walk(v, 0)
	}
	derived := map[int]string{}
	for _, s := range sites {
		for f, v := range s.fields {
			if st.Field(f).Name() == "nodes" {
				continue
			}
			if dependsOn(v, s.tree) {
				derived[f] = ssaName(s.fn)
			}
		}
	}
	for _, s := range sites {
		construct := "the template is built with every field its siblings derive from the tree"
		var missing []string
		for f, by := range derived {
			if _, ok := s.fields[f]; !ok {
				missing = append(missing, st.Field(f).Name()+" (computed from the tree in "+by+")")
			}
		}
		sort.Strings(missing)
		if len(missing) > 0 {
			r.bad("R16.12", ssaName(s.fn), construct, w.posOf(s.al.Pos()), "this constructor stores a tree but leaves "+strings.Join(missing, ", ")+" empty: code that reads the field sees a different template here than for the same source built elsewhere — a compiled template is not interchangeable with its source")
		} else {
			r.ok("R16.12", ssaName(s.fn), construct, w.posOf(s.al.Pos()), fmt.Sprintf("%d field(s) derived from the tree anywhere; all set here", len(derived)), len(derived) > 0)
		}
	}
	r.floor("constructions of a Template around a tree", len(sites), 2)
}

// checkCodecSizeClasses — R16.13: how a compiled template is written does not depend on how big it
// is.  In every function on the serialising / deserialising paths, a branch that compares a size
// (len/cap, a Size()/Len()/Cap() method, arithmetic on them) with a constant >= 16 never decides
// which wire-level function runs: the two exclusive regions call the same set of functions that
// read fields of CompiledTemplate or emit/consume bytes.  A "fast path for big templates" is a
// second serialiser; it has to agree with the reader field by field, and only templates above the
// threshold would show that it does not.
func checkCodecSizeClasses(w *World, r *Report) {
	var roots []*ssa.Function
	for _, nm := range []string{"SerializeCompiledTemplate", "DeserializeCompiledTemplate", "CompileTemplate", "LoadFromCompiled"} {
		if f := w.tryFn(nm); f != nil {
			roots = append(roots, w.ssaFunc(f))
		}
	}
	cut := map[*ssa.Function]bool{}
	if m := w.tryMethod("Parser", "Parse"); m != nil {
		cut[w.ssaFunc(m)] = true
	}
	codec := w.reachableFromCut(roots, cut)
	// wire-level functions: read CompiledTemplate fields, or move bytes
	wire := map[*ssa.Function]bool{}
	for _, fn := range w.pkgFuncs() {
		if !codec[fn] {
			continue
		}
		instrsOf(fn, func(in ssa.Instruction) {
			switch x := in.(type) {
			case *ssa.FieldAddr:
				if t, _ := fieldOfAddr(x); t == "CompiledTemplate" {
					wire[fn] = true
				}
			case ssa.CallInstruction:
				cc := x.Common()
				if b, ok := cc.Value.(*ssa.Builtin); ok && (b.Name() == "append" || b.Name() == "copy") && len(cc.Args) > 0 {
					if sl, ok := cc.Args[0].Type().Underlying().(*types.Slice); ok && types.Identical(sl.Elem(), types.Typ[types.Byte]) {
						wire[fn] = true
					}
				}
				if g := cc.StaticCallee(); g != nil && g.Pkg != nil {
					switch g.Pkg.Pkg.Path() {
					case "encoding/binary":
						wire[fn] = true
					case "bytes", "io":
						if strings.HasPrefix(g.Name(), "Write") || strings.HasPrefix(g.Name(), "Read") {
							wire[fn] = true
						}
					}
				}
			}
		})
	}
	for changed := true; changed; {
		changed = false
		for _, fn := range w.pkgFuncs() {
			if !codec[fn] || wire[fn] {
				continue
			}
			instrsOf(fn, func(in ssa.Instruction) {
				if c, ok := in.(ssa.CallInstruction); ok {
					if g := c.Common().StaticCallee(); g != nil && wire[g] && !wire[fn] {
						wire[fn] = true
						changed = true
					}
				}
			})
		}
	}
	n := 0
	for _, fn := range w.pkgFuncs() {
		if !codec[fn] {
			continue
		}
		for _, b := range fn.Blocks {
			v, trueIdx, ok := ifCond(b)
			if !ok {
				continue
			}
			bo, ok := v.(*ssa.BinOp)
			if !ok {
				continue
			}
			switch bo.Op {
			case token.LSS, token.LEQ, token.GTR, token.GEQ:
			default:
				continue
			}
			var sz string
			var cst *ssa.Const
			if c, ok := bo.Y.(*ssa.Const); ok {
				if s, ok := sizeValue(bo.X, 0); ok {
					sz, cst = s, c
				}
			} else if c, ok := bo.X.(*ssa.Const); ok {
				if s, ok := sizeValue(bo.Y, 0); ok {
					sz, cst = s, c
				}
			}
			if cst == nil || cst.Value == nil || cst.Value.Kind() != constant.Int {
				continue
			}
			th, exact := constant.Int64Val(cst.Value)
			if th < 16 || (exact && th >= 1<<31) {
				continue // tiny thresholds are structure tests; 4 GiB limits are the format's range checks
			}
			n++
			region := func(s *ssa.BasicBlock) map[string]bool {
				set := map[string]bool{}
				if len(s.Preds) != 1 {
					return set
				}
				for _, blk := range fn.Blocks {
					if blk != s && !s.Dominates(blk) {
						continue
					}
					for _, in := range blk.Instrs {
						if c, ok := in.(ssa.CallInstruction); ok {
							if g := c.Common().StaticCallee(); g != nil && wire[g] {
								set[ssaName(g)] = true
							}
						}
					}
				}
				return set
			}
			st, sf := region(b.Succs[trueIdx]), region(b.Succs[1-trueIdx])
			var onlyT, onlyF []string
			for k := range st {
				if !sf[k] {
					onlyT = append(onlyT, k)
				}
			}
			for k := range sf {
				if !st[k] {
					onlyF = append(onlyF, k)
				}
			}
			sort.Strings(onlyT)
			sort.Strings(onlyF)
			construct := fmt.Sprintf("%s %s %d", sz, bo.Op, th)
			if len(onlyT)+len(onlyF) == 0 {
				r.ok("R16.13", ssaName(fn), construct, w.posOf(bo.Pos()), "both sides run the same wire-level functions", true)
			} else {
				r.bad("R16.13", ssaName(fn), construct, w.posOf(bo.Pos()), fmt.Sprintf("the size class selects how the template is written or read: only one side calls {%s}, only the other {%s} — a second serialiser for big templates has to reproduce the format field by field, and only templates above the threshold show whether it does", strings.Join(onlyT, ", "), strings.Join(onlyF, ", ")))
			}
		}
	}
	r.Counts["size-threshold branches in the codec"] = n
}

// checkRenderingIgnoresProvenance — R16.14: a template renders the same wherever it came from.  A
// template rebuilt from compiled data has no loader and no modification time; outside Engine.Load
// (whose reload test is about the cache, not about rendering) no branch of the code a render can
// reach is decided by Template.loader or Template.lastModified: what is done only for
// loader-backed templates is not done for the compiled twin of the same source.
func checkRenderingIgnoresProvenance(w *World, r *Report) {
	reach := w.renderReachable()
	loadParts := w.loadPartsSet()
	n := 0
	for _, fn := range w.pkgFuncs() {
		if !reach[fn] || loadParts[fn] {
			continue
		}
		for _, b := range fn.Blocks {
			if len(b.Instrs) == 0 {
				continue
			}
			ifi, ok := b.Instrs[len(b.Instrs)-1].(*ssa.If)
			if !ok {
				continue
			}
			n++
			var facts []condFact
			expandCond(ifi.Cond, true, &facts, 0)
			for _, cf := range facts {
				field := ""
				var ops []*ssa.Value
				if in, ok := cf.v.(ssa.Instruction); ok {
					ops = in.Operands(nil)
				}
				vals := []ssa.Value{cf.v}
				for _, o := range ops {
					if *o != nil {
						vals = append(vals, *o)
					}
				}
				for _, v := range vals {
					v = unspill(v)
					if ta, ok := v.(*ssa.TypeAssert); ok {
						v = unspill(ta.X)
					}
					for _, f := range []string{"loader", "lastModified"} {
						if _, ok := fieldLoad(v, "Template", f); ok {
							field = f
						}
					}
				}
				if field != "" {
					r.bad("R16.14", ssaName(fn), "no render-time branch on Template."+field, w.posOf(ifi.Cond.Pos()), "what a render does here depends on whether the template has a "+field+": a template loaded from compiled data has none, so it renders differently from the original it was compiled from")
				}
			}
		}
	}
	r.Counts["branches examined for provenance tests"] = n
	r.ok("R16.14", "(package)", "rendering does not ask where a template came from", "-", fmt.Sprintf("%d branches in render-reachable code outside Engine.Load examined", n), true)
}
