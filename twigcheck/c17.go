package main

// C17 — failures during rendering always surface as errors that wrap their cause.
//
// R17.1 no propagating error is dropped: the error result of every call that can carry a
//       callback/loader/nested-template failure (dynamic FilterFunc/FunctionFunc/TestFunc calls,
//       Loader methods, Node.Render, render closures, and every package function that
//       transitively returns such an error) reaches a Return of the enclosing function, through
//       phis, wrapping calls (%w, NewError, Err: field, errors.Join); on the non-nil edge of every
//       nil test of that error no path returns a nil error; and the error is not reduced to its
//       text (err.Error(), %v/%s) on its only way out.
// R17.2 failed lookups are errors: a lookup of a filter/function/test name in the environment
//       maps whose not-found edge reaches a nil-error return is a violation.
// R17.3 the top level keeps the cause and returns no partial output.

import (
	"fmt"
	"go/token"
	"go/types"
	"sort"
	"strings"

	"golang.org/x/tools/go/ssa"
)

func init() { register("C17", checkC17) }

var errorType = types.Universe.Lookup("error").Type()

func errResultIndex(sig *types.Signature) int {
	r := sig.Results()
	for i := 0; i < r.Len(); i++ {
		if types.Identical(r.At(i).Type(), errorType) {
			return i
		}
	}
	return -1
}

type errAnalysis struct {
	fwdMemo map[[2]interface{}]int
	depMemo map[[2]interface{}][]int
	depBusy map[[2]interface{}]bool
	wdMemo  map[[2]interface{}]int
	w       *World
	named   map[string]types.Type
	prop    map[*ssa.Function]bool
}

func (a *errAnalysis) baseProp(c ssa.CallInstruction) string {
	cc := c.Common()
	if cc.IsInvoke() {
		rt := cc.Value.Type()
		switch {
		case isNamed(rt, twigPath, "Node") && cc.Method.Name() == "Render":
			return "Node.Render"
		case isNamed(rt, twigPath, "Loader"), isNamed(rt, twigPath, "TimestampAwareLoader"):
			return "Loader." + cc.Method.Name()
		}
		return ""
	}
	if cc.StaticCallee() == nil {
		if _, isBuiltin := cc.Value.(*ssa.Builtin); isBuiltin {
			return ""
		}
		t := cc.Value.Type()
		for _, nm := range []string{"FilterFunc", "FunctionFunc", "TestFunc"} {
			if types.Identical(t, a.named[nm]) {
				return "dynamic " + nm
			}
		}
		if sig, ok := t.Underlying().(*types.Signature); ok && errResultIndex(sig) >= 0 {
			return "closure " + types.TypeString(t, func(p *types.Package) string { return "" })
		}
	}
	return ""
}

func (a *errAnalysis) propKind(c ssa.CallInstruction) string {
	if k := a.baseProp(c); k != "" {
		return k
	}
	if f := c.Common().StaticCallee(); f != nil && a.prop[f] {
		return "call " + ssaName(f)
	}
	return ""
}

// errValues returns the error-typed values produced by a call.
func errValues(v ssa.Value) []ssa.Value {
	if tup, ok := v.Type().(*types.Tuple); ok {
		var res []ssa.Value
		if v.Referrers() == nil {
			return nil
		}
		for _, r := range *v.Referrers() {
			if ex, ok := r.(*ssa.Extract); ok && types.Identical(tup.At(ex.Index).Type(), errorType) {
				res = append(res, ex)
			}
		}
		return res
	}
	if types.Identical(v.Type(), errorType) {
		return []ssa.Value{v}
	}
	return nil
}

type errFlow struct {
	reachesReturn bool
	textOnly      []string // uses that keep only the text
	nilTests      []*ssa.BinOp
	derived       map[ssa.Value]bool // values that carry the error (or a wrapping of it)
	deposits      []*ssa.Parameter   // pointer parameters into a field of which the error was stored
}

// wrapsArg: does the call keep the cause reachable for its argument v?
// forwardsParam: every error g returns (other than nil) derives from its parameter i — it is the
// parameter itself, or wraps it in one of the accepted ways.
func (a *errAnalysis) forwardsParam(g *ssa.Function, i int) bool {
	if a.fwdMemo == nil {
		a.fwdMemo = map[[2]interface{}]int{}
	}
	key := [2]interface{}{g, i}
	switch a.fwdMemo[key] {
	case 1:
		return false // in progress
	case 2:
		return true
	case 3:
		return false
	}
	a.fwdMemo[key] = 1
	ok := false
	defer func() {
		if ok {
			a.fwdMemo[key] = 2
		} else {
			a.fwdMemo[key] = 3
		}
	}()
	if len(g.Blocks) == 0 || i >= len(g.Params) {
		return false
	}
	ei := errResultIndex(g.Signature)
	if ei < 0 {
		return false
	}
	fl := a.flow(g.Params[i])
	all, n := true, 0
	instrsOf(g, func(in ssa.Instruction) {
		ret, isRet := in.(*ssa.Return)
		if !isRet {
			return
		}
		res := retResults(ret)
		if ei >= len(res) {
			all = false
			return
		}
		if isNilConst(res[ei]) {
			return
		}
		if !fl.derived[res[ei]] {
			// a collection of errors that is empty has nothing to forward: a return taken only
			// where len(param) == 0 need not derive from it
			if _, isSlice := g.Params[i].Type().Underlying().(*types.Slice); isSlice && underEmptyParam(g.Params[i], ret.Block()) {
				return
			}
			all = false
			return
		}
		n++
	})
	ok = all && n > 0
	return ok
}

func wrapsArg(c ssa.CallInstruction, v ssa.Value) (wrapped bool, textOnly string) {
	cc := c.Common()
	f := cc.StaticCallee()
	name := ""
	if f != nil {
		name = f.String()
	}
	switch {
	case name == "fmt.Errorf":
		if len(cc.Args) > 0 {
			if s, ok := constString(cc.Args[0]); ok {
				if strings.Contains(s, "%w") {
					return true, ""
				}
				return false, "fmt.Errorf without %w"
			}
		}
		return true, ""
	case name == "errors.Join":
		return true, ""
	case strings.HasSuffix(name, "twig.NewError"), strings.HasSuffix(name, "twig.WrapError"):
		return true, ""
	case name == "fmt.Sprintf" || name == "fmt.Sprint" || name == "fmt.Fprintf":
		return false, name + " (text only)"
	}
	return false, ""
}

func (a *errAnalysis) flow(ev ssa.Value) *errFlow {
	fl := &errFlow{derived: map[ssa.Value]bool{}}
	var walk func(v ssa.Value)
	walk = func(v ssa.Value) {
		if fl.derived[v] || v.Referrers() == nil {
			return
		}
		fl.derived[v] = true
		for _, r := range *v.Referrers() {
			switch x := r.(type) {
			case *ssa.Return:
				fl.reachesReturn = true
			case *ssa.Phi:
				walk(x)
			case *ssa.MakeInterface:
				walk(x)
			case *ssa.ChangeInterface:
				walk(x)
			case *ssa.BinOp:
				if (x.Op == token.NEQ || x.Op == token.EQL) && (isNilConst(x.X) || isNilConst(x.Y)) {
					fl.nilTests = append(fl.nilTests, x)
				}
			case *ssa.Store:
				if x.Val != v {
					continue
				}
				switch ad := x.Addr.(type) {
				case *ssa.Alloc:
					// local variable (named result, captured variable): follow its loads
					for _, ar := range *ad.Referrers() {
						if ld, ok := ar.(*ssa.UnOp); ok && ld.Op == token.MUL {
							walk(ld)
						}
					}
				case *ssa.FieldAddr:
					// l.errs = append(l.errs, wrap(err)): put away in the object a parameter
					// points to (a collector the caller asks for its verdict later)
					if p, ok := ad.X.(*ssa.Parameter); ok {
						fl.deposits = append(fl.deposits, p)
					}
					// &EnhancedError{Err: err}: stored into a struct that is itself an error
					_, fname := fieldOfAddr(ad)
					if fname == "Err" || fname == "err" || fname == "cause" {
						walk(ad.X)
						// the struct pointer is what travels on
						if al, ok := ad.X.(*ssa.Alloc); ok {
							walk(al)
						}
					}
				case *ssa.IndexAddr:
					// element of a slice (variadic args, collected errors): follow the slice
					walk(ad.X)
					if sl, ok := ad.X.(*ssa.Alloc); ok {
						for _, ar := range *sl.Referrers() {
							if s, ok := ar.(*ssa.Slice); ok {
								walk(s)
							}
						}
					}
				}
			case *ssa.Slice:
				walk(x)
			case *ssa.IndexAddr:
				// element of a derived slice (collected errors): follow its loads
				if x.X == v && x.Referrers() != nil {
					for _, ar := range *x.Referrers() {
						if ld, ok := ar.(*ssa.UnOp); ok && ld.Op == token.MUL {
							walk(ld)
						}
					}
				}
			case ssa.CallInstruction:
				cc := x.Common()
				if b, ok := cc.Value.(*ssa.Builtin); ok && b.Name() == "append" {
					if val, ok := r.(ssa.Value); ok {
						walk(val)
					}
					continue
				}
				if cc.IsInvoke() && cc.Method.Name() == "Error" && cc.Value == v {
					fl.textOnly = append(fl.textOnly, "err.Error()")
					continue
				}
				if g := cc.StaticCallee(); g != nil && isTwigFn(g) && len(g.Blocks) > 0 {
					collected := false
					for ai, arg := range cc.Args {
						if arg != v || ai >= len(g.Params) {
							continue
						}
						if _, isPtr := v.Type().Underlying().(*types.Pointer); isPtr && !types.Identical(v.Type(), errorType) {
							// a collector object asked for its verdict
							if a.withdraws(g, ai) {
								if val, ok := r.(ssa.Value); ok {
									for _, e := range errValues(val) {
										walk(e)
									}
									collected = true
								}
							}
							continue
						}
						// an error handed to a collector: the object carries it from here on
						for _, j := range a.depositsOf(g, ai) {
							if j < len(cc.Args) {
								walk(cc.Args[j])
								collected = true
							}
						}
					}
					if collected {
						continue
					}
				}
				wrapped, text := wrapsArg(x, v)
				if !wrapped && text == "" {
					// a helper of the package that hands its error parameter on (decorated or not)
					if g := cc.StaticCallee(); g != nil && isTwigFn(g) {
						for ai, arg := range cc.Args {
							if arg == v && a.forwardsParam(g, ai) {
								wrapped = true
							}
						}
					}
				}
				if wrapped {
					if val, ok := r.(ssa.Value); ok {
						walk(val)
					}
				} else if text != "" {
					fl.textOnly = append(fl.textOnly, text)
				}
			case *ssa.TypeAssert, *ssa.Extract:
				// errors.As-style inspection or tuple plumbing
				if val, ok := r.(ssa.Value); ok {
					if _, isEx := r.(*ssa.Extract); isEx {
						walk(val)
					}
				}
			}
		}
	}
	walk(ev)
	return fl
}

func checkC17(w *World, r *Report) {
	r.Explanation = "Decides the error-discipline clause of C17 for every template structure and every failing invocation: (R17.1) in every function reachable from render roots or Engine.Load, the error result of every call that can carry a callback, loader or nested-template failure reaches a Return of the enclosing function (through phis, named results, %w/NewError/Err-field/errors.Join wrapping); on the non-nil edge of each nil test of that error no path returns a nil error unless the error was classified with errors.Is/As first; and the cause is not reduced to text on its only way out; (R17.2) the not-found edge of every filter/function/test name lookup never reaches a nil-error return; (R17.3) EnhancedError.Unwrap returns the wrapped cause and the string-returning top-level renders return \"\" whenever they return a non-nil error. (R17.4) a call expression is never answered by a tolerant accessor (a function that returns nil, nil for what it does not find). Not decided: errors turned into values inside user callbacks; the documented tolerances (undefined variables/attributes)."
	r.Explanation += " Rules added in later rounds: (R17.5) a node that names a filter applies it before any successful return. (R17.1) an error in a loop is tested or consumed before the call is made again; collector objects are followed. (R17.6) imports render the library on every successful path."
	r.Explanation += " Round 9: (R17.7) deferred functions do not overwrite an error already set."
	r.Explanation += " Round 11: (R17.1) only a not-found classification may end a failure."
	r.Explanation += " Round 13: (R17.1) no nil-error return is reachable from a propagating call without a look at its error."
	r.RuleText = "obligation = one propagating call site (R17.1), one name lookup (R17.2), one top-level return (R17.3); non-trivial = all R17.1/R17.2 sites (each needs value flow + path search)"
	r.Trusted = []string{"fmt.Errorf %w, errors.Join keep the cause reachable", "call graph over-approximation"}

	_, sp := w.ssa()
	a := &errAnalysis{w: w, named: map[string]types.Type{}, prop: map[*ssa.Function]bool{}}
	for _, nm := range []string{"FilterFunc", "FunctionFunc", "TestFunc"} {
		a.named[nm] = sp.Pkg.Scope().Lookup(nm).Type()
	}
	fns := w.pkgFuncs()
	// fixed point: functions that return the error of a propagating call
	for changed := true; changed; {
		changed = false
		for _, fn := range fns {
			if a.prop[fn] || errResultIndex(fn.Signature) < 0 {
				continue
			}
			instrsOf(fn, func(in ssa.Instruction) {
				if a.prop[fn] {
					return
				}
				c, ok := in.(ssa.CallInstruction)
				if !ok || a.propKind(c) == "" {
					return
				}
				if v, ok := in.(ssa.Value); ok {
					for _, ev := range errValues(v) {
						if a.flow(ev).reachesReturn {
							a.prop[fn] = true
							changed = true
						}
					}
				}
			})
		}
	}
	r.floor("propagating functions (transitively return a callback/loader/render error)", len(a.prop), 20)

	reach := w.renderReachable()
	for f := range w.reachableFrom([]*ssa.Function{w.ssaFunc(w.method("Engine", "Load"))}) {
		reach[f] = true
	}

	nSites := 0
	for _, fn := range fns {
		if !reach[fn] {
			continue
		}
		instrsOf(fn, func(in ssa.Instruction) {
			c, ok := in.(ssa.CallInstruction)
			if !ok {
				return
			}
			kind := a.propKind(c)
			if kind == "" || errResultIndex(c.Common().Signature()) < 0 {
				return
			}
			nSites++
			construct := "error of " + kind
			pos := w.posOf(in.Pos())
			v, isVal := in.(ssa.Value)
			if !isVal {
				// go / defer: result discarded
				if _, isDefer := in.(*ssa.Defer); isDefer {
					r.ok("R17.1", ssaName(fn), construct, pos, "deferred call: its error cannot change the result of a finished render", false)
					return
				}
				r.bad("R17.1", ssaName(fn), construct, pos, "the error result is discarded (go statement)")
				return
			}
			evs := errValues(v)
			if why, ok := w.c17Exception(fn, kind); ok && len(evs) == 0 {
				r.except("R17.1", ssaName(fn), construct, pos, why)
				return
			}
			if len(evs) == 0 {
				r.bad("R17.1", ssaName(fn), construct, pos, "the error result is discarded (`_` or unused): a failure of this call becomes output with a nil error")
				return
			}
			for _, ev := range evs {
				fl := a.flow(ev)
				if why, ok := w.c17Exception(fn, kind); ok && !fl.reachesReturn {
					r.except("R17.1", ssaName(fn), construct, pos, why)
					continue
				}
				if !fl.reachesReturn {
					if len(fl.textOnly) > 0 {
						r.bad("R17.1", ssaName(fn), construct, pos, "cause lost: the error only survives as text ("+strings.Join(uniqStrings(fl.textOnly), ", ")+"), so errors.Is/errors.As cannot find the original failure")
					} else {
						r.bad("R17.1", ssaName(fn), construct, pos, "the error never reaches a return of the enclosing function (only compared with nil / logged): the failure is replaced by output with a nil error")
					}
					continue
				}
				// a call in a loop: its error is looked at before the next pass makes the call
				// again (an error that only lives in a variable the next pass overwrites is lost
				// for every pass but the last)
				if ci, isInstr := v.(ssa.Instruction); isInstr && overwrittenUnseen(ci, fl) {
					r.bad("R17.1", ssaName(fn), construct, pos, "the call sits in a loop and the loop can come round to it again without any test of this error in between: the error of every pass but the last is overwritten unseen, so a failure is replaced by output (or by an unrelated later error)")
					continue
				}
				// strong clause: on the non-nil edge no path returns a nil error
				if msg := a.nilReturnOnFailure(fn, ev, fl, strings.HasPrefix(kind, "Loader.")); msg != "" {
					r.bad("R17.1", ssaName(fn), construct, pos, msg)
					continue
				}
				// no way from the call to a `return …, nil` on which this error was never looked at
				if ci, isInstr := v.(ssa.Instruction); isInstr && len(fl.deposits) == 0 {
					if msg := a.nilReturnUnseen(fn, ci, ev, fl); msg != "" {
						r.bad("R17.1", ssaName(fn), construct, pos, msg)
						continue
					}
				}
				r.ok("R17.1", ssaName(fn), construct, pos, "reaches a return on every failure path", true)
			}
		})
	}
	r.floor("propagating call sites on render/load paths", nSites, 60)

	a.checkLookups(r, reach)
	checkCallsNotTolerant(w, r)
	a.checkTopLevel(r)
	a.checkLoadersExhausted(r)
	checkNamedFilterApplied(w, r)
	checkImportsRenderLibrary(w, r, "R17.6")
	checkDeferredOverwrites(w, r)
}

func uniqStrings(s []string) []string {
	sort.Strings(s)
	return uniq(s)
}

// nilReturnOnFailure: from the non-nil successor of a nil test of ev, is there a path to a
// Return whose error operand is the nil constant, that does not pass a classification of the
// error (errors.Is / errors.As true edge) and does not re-assign a new propagating call to the
// same variable (retry)?
func (a *errAnalysis) nilReturnOnFailure(fn *ssa.Function, ev ssa.Value, fl *errFlow, retryLoop bool) string {
	ei := errResultIndex(fn.Signature)
	if ei < 0 {
		return ""
	}
	for _, bo := range fl.nilTests {
		// find the If that uses this comparison
		if bo.Referrers() == nil {
			continue
		}
		for _, ref := range *bo.Referrers() {
			iff, ok := ref.(*ssa.If)
			if !ok {
				continue
			}
			b := iff.Block()
			_, trueIdx, _ := ifCond(b)
			nonNil := b.Succs[trueIdx]
			if bo.Op == token.EQL {
				nonNil = b.Succs[1-trueIdx]
			}
			seen := map[*ssa.BasicBlock]bool{}
			var bad string
			var dfs func(blk *ssa.BasicBlock)
			origin := b
			if oi, ok := ev.(ssa.Instruction); ok {
				origin = oi.Block()
			}
			dfs = func(blk *ssa.BasicBlock) {
				if seen[blk] || bad != "" {
					return
				}
				seen[blk] = true
				// loader calls only: back at a block that dominates the failing call, the next
				// iteration of the enclosing loop tries the next loader; a later success
				// legitimately supersedes this failure ("the first loader that has the name
				// wins"), and a failure of all of them must have reached a return through the
				// value flow checked above.  For every other call going round the loop is not
				// a retry but "carry on with the next item", i.e. a swallowed failure.
				if retryLoop && blk != origin && blk.Dominates(origin) {
					return
				}
				for _, in := range blk.Instrs {
					switch x := in.(type) {
					case *ssa.Return:
						res := retResults(x)
						if ei < len(res) && isNilConst(res[ei]) {
							bad = a.w.posOf(x.Pos())
						}
						return
					case ssa.CallInstruction:
						// retry / fallback: another propagating call takes over
						if a.propKind(x) != "" {
							return
						}
					}
				}
				// classification: errors.Is / errors.As on this error ends the obligation on the true edge
				// (only "it does not exist" is a failure the package is allowed to answer itself —
				// `ignore missing`, the fall-back from a relative to the plain name, the next
				// loader; sorting failures by any other type or sentinel and then returning nil
				// swallows them)
				classify := func(f *types.Func, args []ssa.Value) bool {
					if !isFunc(f, "errors", "", "Is") || len(args) < 2 || !fl.derived[args[0]] {
						return false
					}
					for _, o := range originChain(args[1]) {
						if u, ok := o.(*ssa.UnOp); ok && u.Op == token.MUL {
							if g, ok := u.X.(*ssa.Global); ok {
								switch g.Name() {
								case "ErrTemplateNotFound", "ErrNotExist":
									return true
								}
							}
						}
					}
					return false
				}
				for i, s := range blk.Succs {
					if anyEdgeFact(blk, i, func(v ssa.Value, trueIdx int) bool {
						return i == trueIdx && trueImpliesCall(v, classify, 0)
					}) {
						continue
					}
					dfs(s)
				}
			}
			dfs(nonNil)
			if bad != "" {
				return "on the path where this error is non-nil the function can return a nil error (" + bad + "): the failure is replaced by partial/default output"
			}
		}
	}
	return ""
}

// checkLookups: R17.2
func (a *errAnalysis) checkLookups(r *Report, reach map[*ssa.Function]bool) {
	w := a.w
	n := 0
	for _, fn := range w.pkgFuncs() {
		if !reach[fn] || errResultIndex(fn.Signature) < 0 {
			continue
		}
		ei := errResultIndex(fn.Signature)
		instrsOf(fn, func(in ssa.Instruction) {
			var tn, f string
			var tuple ssa.Value
			switch x := in.(type) {
			case *ssa.Lookup:
				if !x.CommaOk {
					return
				}
				u, ok := x.X.(*ssa.UnOp)
				if !ok {
					return
				}
				fa, ok := u.X.(*ssa.FieldAddr)
				if !ok {
					return
				}
				tn, f = fieldOfAddr(fa)
				tuple = x
			case *ssa.Call:
				// v, ok := ctx.lookupFilter(name): the lookup sits in a helper
				o, fld, _, ok := lookupHelper(x.Call.StaticCallee())
				if !ok {
					return
				}
				tn, f, tuple = o, fld, x
			default:
				return
			}
			if tn != "Environment" || !(f == "filters" || f == "functions" || f == "tests") {
				return
			}
			// the ok value and its If
			var okv ssa.Value
			if tuple.Referrers() == nil {
				return
			}
			for _, ref := range *tuple.Referrers() {
				if ex, isEx := ref.(*ssa.Extract); isEx && ex.Index == 1 {
					okv = ex
				}
			}
			if okv == nil || okv.Referrers() == nil {
				return
			}
			for _, ref := range *okv.Referrers() {
				iff, isIf := ref.(*ssa.If)
				if !isIf {
					continue
				}
				n++
				b := iff.Block()
				_, trueIdx, _ := ifCond(b)
				notFound := b.Succs[1-trueIdx]
				// does the not-found edge reach a nil-error return without calling anything
				// that could still resolve the name (built-ins, macros)?
				seen := map[*ssa.BasicBlock]bool{}
				bad := ""
				var dfs func(blk *ssa.BasicBlock)
				dfs = func(blk *ssa.BasicBlock) {
					if seen[blk] || bad != "" {
						return
					}
					seen[blk] = true
					for _, x := range blk.Instrs {
						switch y := x.(type) {
						case *ssa.Return:
							res := retResults(y)
							if ei < len(res) && isNilConst(res[ei]) {
								// a nil-error return: acceptable only if it returns a real result
								// computed after the failed lookup (built-in fallback)
								allZero := true
								for i, rv := range res {
									if i == ei {
										continue
									}
									if !isNilConst(rv) && !isZeroValue(rv) {
										allZero = false
									}
								}
								if allZero {
									bad = w.posOf(y.Pos())
								}
							}
							return
						}
					}
					for _, s := range blk.Succs {
						dfs(s)
					}
				}
				dfs(notFound)
				construct := "lookup in Environment." + f
				if bad != "" {
					r.bad("R17.2", ssaName(fn), construct, w.posOf(in.Pos()), "when the name is not registered the function can return a zero value with a nil error ("+bad+"): an unresolvable name is replaced by empty output")
				} else {
					r.ok("R17.2", ssaName(fn), construct, w.posOf(in.Pos()), "the not-found edge never returns (zero value, nil error)", true)
				}
			}
		})
	}
	r.floor("filter/function/test name lookups", n, 3)
}

// checkLoadersExhausted (R17.1, loader clause): loader failures may be superseded by a later
// loader's success, never by nothing — where the walk over the loaders produced no template,
// Engine.Load returns a non-nil error on every path (no "keep the cached copy" fallback that
// turns a failing loader into stale output with a nil error).
func (a *errAnalysis) checkLoadersExhausted(r *Report) {
	w := a.w
	fn, region := w.loadNilRegion()
	if region == nil {
		return
	}
	ei := errResultIndex(fn.Signature)
	n := 0
	instrsOf(fn, func(in ssa.Instruction) {
		ret, ok := in.(*ssa.Return)
		if !ok || !(region == ret.Block() || region.Dominates(ret.Block())) {
			return
		}
		res := retResults(ret)
		if ei < 0 || ei >= len(res) {
			return
		}
		n++
		construct := "error returned when every loader failed"
		if isNilConst(res[ei]) {
			r.bad("R17.1", ssaName(fn), construct, w.posOf(ret.Pos()), "on the path where no loader delivered the template Engine.Load returns a nil error: the loaders' failures (a missing file, an I/O error) are replaced by whatever is returned instead — stale output — and never reach the caller")
		} else {
			r.ok("R17.1", ssaName(fn), construct, w.posOf(ret.Pos()), "a non-nil error is returned", true)
		}
	})
	r.Counts["returns of Engine.Load after the loaders were exhausted"] = n
}

// checkTopLevel: R17.3
func (a *errAnalysis) checkTopLevel(r *Report) {
	w := a.w
	// Unwrap of EnhancedError returns the Err field
	if m := w.tryMethod("EnhancedError", "Unwrap"); m != nil {
		fn := w.ssaFunc(m)
		good := false
		instrsOf(fn, func(in ssa.Instruction) {
			if ret, ok := in.(*ssa.Return); ok && len(ret.Results) == 1 {
				if _, ok := fieldLoad(ret.Results[0], "EnhancedError", "Err"); ok {
					good = true
				}
			}
		})
		if good {
			r.ok("R17.3", ssaName(fn), "Unwrap returns the wrapped cause", w.posOf(fn.Pos()), "returns the Err field", false)
		} else {
			r.bad("R17.3", ssaName(fn), "Unwrap returns the wrapped cause", w.posOf(fn.Pos()), "EnhancedError.Unwrap does not return the Err field: errors.Is/As cannot see through the top-level wrapper")
		}
	} else {
		r.bad("R17.3", "(*EnhancedError)", "Unwrap returns the wrapped cause", "-", "EnhancedError has no Unwrap method")
	}
	// string-returning renders return "" with a non-nil error
	n := 0
	for _, pair := range [][2]string{{"Engine", "Render"}, {"Template", "Render"}} {
		m := w.tryMethod(pair[0], pair[1])
		if m == nil {
			continue
		}
		fn := w.ssaFunc(m)
		sig := fn.Signature
		if sig.Results().Len() != 2 || !types.Identical(sig.Results().At(0).Type(), types.Typ[types.String]) {
			continue
		}
		instrsOf(fn, func(in ssa.Instruction) {
			ret, ok := in.(*ssa.Return)
			if !ok {
				return
			}
			res := retResults(ret)
			if isNilConst(res[1]) {
				return // success return
			}
			n++
			if e0, ok := res[0].(*ssa.Extract); ok {
				if e1, ok := res[1].(*ssa.Extract); ok && e0.Tuple == e1.Tuple {
					r.ok("R17.3", ssaName(fn), "empty output with a non-nil error", w.posOf(ret.Pos()), "forwards both results of "+e0.Tuple.String()+" unchanged (the callee is checked by the same rule)", false)
					return
				}
			}
			if s, ok := constString(res[0]); ok && s == "" {
				r.ok("R17.3", ssaName(fn), "empty output with a non-nil error", w.posOf(ret.Pos()), `returns "" together with the error`, false)
			} else {
				r.bad("R17.3", ssaName(fn), "empty output with a non-nil error", w.posOf(ret.Pos()), "a return that may carry a non-nil error also returns (partial) output instead of the empty string")
			}
		})
	}
	r.floor("error returns of string-returning top-level renders", n, 2)
}

// c17Exceptions: frozen, one entry per (function, callee kind), each confirmed by reading.
var c17Exceptions = map[string]string{
	"(*Engine).Load | Loader.GetModifiedTime": "a failing timestamp query never hides a failure: in the staleness test an error forces a reload (which re-raises any real loader failure through loader.Load), and at load time an unknown timestamp (0) only makes the template eligible for reload later",
}

// c17Exception: the frozen table, where "(*Engine).Load" stands for Engine.Load together with
// the unexported helpers it calls statically inside the package (the function split in parts
// is still the same code).
func (w *World) c17Exception(fn *ssa.Function, kind string) (string, bool) {
	if why, ok := c17Exceptions[ssaName(fn)+" | "+kind]; ok {
		return why, true
	}
	why, ok := c17Exceptions["(*Engine).Load | "+kind]
	if !ok {
		return "", false
	}
	if w.loadPartsSet()[fn] {
		return why + " (in " + ssaName(fn) + ", a part of Engine.Load)", true
	}
	return "", false
}

// loadPartsSet: Engine.Load and the unexported functions it calls statically (depth <= 3).
func (w *World) loadPartsSet() map[*ssa.Function]bool {
	if w.loadParts == nil {
		w.loadParts = map[*ssa.Function]bool{}
		root := w.ssaFunc(w.method("Engine", "Load"))
		w.loadParts[root] = true
		queue := []*ssa.Function{root}
		for depth := 0; depth < 3; depth++ {
			var next []*ssa.Function
			for _, f := range queue {
				instrsOf(f, func(in ssa.Instruction) {
					if c, ok := in.(ssa.CallInstruction); ok {
						g := c.Common().StaticCallee()
						if g != nil && isTwigFn(g) && g.Object() != nil && !g.Object().Exported() && !w.loadParts[g] {
							w.loadParts[g] = true
							next = append(next, g)
						}
					}
				})
			}
			queue = next
		}
	}
	return w.loadParts
}

var _ = fmt.Sprintf

// checkCallsNotTolerant (R17.4): a call expression (FunctionNode) is never answered by one of the
// tolerant accessors — functions that return (nil, nil) for something they do not find, which is
// the documented behaviour for undefined variables, attributes and items.  Forwarding such a
// result for `lib.name()` turns an unknown macro or function into empty output with a nil error.
func checkCallsNotTolerant(w *World, r *Report) {
	eval := w.ssaFunc(w.method("RenderContext", "EvaluateExpression"))
	// tolerant accessors: (value, error) functions with a `return nil, nil`
	tolerant := map[*ssa.Function]bool{}
	for _, fn := range w.pkgFuncs() {
		if fn == eval || fn.Signature.Results().Len() != 2 {
			continue
		}
		instrsOf(fn, func(in ssa.Instruction) {
			if ret, ok := in.(*ssa.Return); ok {
				res := retResults(ret)
				if len(res) == 2 && isNilConst(res[0]) && isNilConst(res[1]) {
					tolerant[fn] = true
				}
			}
		})
	}
	// the FunctionNode arm(s)
	var arms []*ssa.BasicBlock
	instrsOf(eval, func(in ssa.Instruction) {
		ta, ok := in.(*ssa.TypeAssert)
		if !ok || !ta.CommaOk || !isNamed(ta.AssertedType, twigPath, "FunctionNode") || ta.Referrers() == nil {
			return
		}
		for _, ref := range *ta.Referrers() {
			if ex, ok := ref.(*ssa.Extract); ok && ex.Index == 1 && ex.Referrers() != nil {
				for _, r2 := range *ex.Referrers() {
					if i, ok := r2.(*ssa.If); ok {
						arms = append(arms, i.Block().Succs[0])
					}
				}
			}
		}
	})
	n := 0
	for _, arm := range arms {
		instrsOf(eval, func(in ssa.Instruction) {
			ret, ok := in.(*ssa.Return)
			if !ok || !(arm == ret.Block() || arm.Dominates(ret.Block())) {
				return
			}
			res := retResults(ret)
			if len(res) != 2 {
				return
			}
			n++
			construct := "a call expression is not answered by a tolerant accessor"
			var g *ssa.Function
			if ex, ok := res[0].(*ssa.Extract); ok {
				if c, ok := ex.Tuple.(*ssa.Call); ok {
					g = c.Call.StaticCallee()
				}
			}
			if g != nil && tolerant[g] {
				r.bad("R17.4", ssaName(eval), construct, w.posOf(ret.Pos()), "the value of a call expression is the result of "+g.Name()+", which returns (nil, nil) for what it does not find: calling an unknown macro or function of a library renders as empty output instead of failing")
			} else {
				r.ok("R17.4", ssaName(eval), construct, w.posOf(ret.Pos()), "the returned value comes from the function/macro call machinery (or is an error return)", false)
			}
		})
	}
	r.floor("returns in the FunctionNode arm of EvaluateExpression", n, 3)
}

// underEmptyParam: block b is reached only where len(p) == 0 was found true (or len(p) != 0 /
// len(p) > 0 false).
func underEmptyParam(p *ssa.Parameter, b *ssa.BasicBlock) bool {
	for d := b.Idom(); d != nil; d = d.Idom() {
		v, trueIdx, ok := ifCond(d)
		if !ok {
			continue
		}
		bo, ok := v.(*ssa.BinOp)
		if !ok {
			continue
		}
		c, isLen := bo.X.(*ssa.Call)
		if !isLen {
			continue
		}
		bi, isB := c.Call.Value.(*ssa.Builtin)
		if !isB || bi.Name() != "len" || len(c.Call.Args) != 1 || unspill(c.Call.Args[0]) != ssa.Value(p) {
			continue
		}
		k, isC := intConst(bo.Y)
		if !isC || k != 0 {
			continue
		}
		emptyIdx := -1
		switch bo.Op {
		case token.EQL, token.LEQ:
			emptyIdx = trueIdx
		case token.NEQ, token.GTR:
			emptyIdx = 1 - trueIdx
		}
		if emptyIdx < 0 {
			continue
		}
		e := d.Succs[emptyIdx]
		if len(e.Preds) == 1 && (e == b || e.Dominates(b)) {
			return true
		}
	}
	return false
}

// checkNamedFilterApplied — R17.5: a node that names a filter applies it.  In the Render method
// of every node type that carries a filter name (`{% apply f %}`), no return that can carry a
// nil error is reachable without the call that applies that filter: a fast path that skips the
// call ("the body is empty, nothing to filter") also skips the lookup, so an unknown or failing
// filter goes unreported for some bodies.
func checkNamedFilterApplied(w *World, r *Report) {
	applyFilter := w.method("RenderContext", "ApplyFilter")
	n := 0
	for _, nt := range w.nodeStructs() {
		st, ok := nt.Underlying().(*types.Struct)
		if !ok {
			continue
		}
		hasFilter := false
		for i := 0; i < st.NumFields(); i++ {
			if st.Field(i).Name() == "filter" && types.Identical(st.Field(i).Type(), types.Typ[types.String]) {
				hasFilter = true
			}
		}
		m := w.tryMethod(nt.Obj().Name(), "Render")
		if !hasFilter || m == nil {
			continue
		}
		fn := w.ssaFunc(m)
		isApply := func(in ssa.Instruction) bool {
			c, ok := in.(ssa.CallInstruction)
			if !ok {
				return false
			}
			if _, isDefer := in.(*ssa.Defer); isDefer {
				return false
			}
			check := func(c ssa.CallInstruction) bool {
				if calleeFunc(c) != applyFilter {
					return false
				}
				args := callArgs(c)
				if len(args) == 0 {
					return false
				}
				_, f := originField(args[0], 0)
				return f == "filter"
			}
			if check(c) {
				return true
			}
			// through a helper of the package that is handed the node or the name
			if g := c.Common().StaticCallee(); g != nil && isTwigFn(g) && len(g.Blocks) > 0 && g != fn {
				found := false
				instrsOf(g, func(x ssa.Instruction) {
					if c2, ok := x.(ssa.CallInstruction); ok && calleeFunc(c2) == applyFilter {
						found = true
					}
				})
				return found
			}
			return false
		}
		has := false
		instrsOf(fn, func(in ssa.Instruction) {
			if isApply(in) {
				has = true
			}
		})
		if !has {
			continue // the node's filter is applied elsewhere (expression evaluation): R07.5
		}
		n++
		construct := "the named filter is applied before any successful return"
		bad := ""
		instrsOf(fn, func(in ssa.Instruction) {
			ret, ok := in.(*ssa.Return)
			if !ok || bad != "" {
				return
			}
			res := retResults(ret)
			if len(res) == 0 || errorSurelyNonNil(res[len(res)-1], ret.Block()) {
				return
			}
			if found, path := existsPathAvoiding(fn, in, isApply, nil); found {
				bad = w.posOf(ret.Pos()) + " (path " + strings.Join(path, " → ") + ")"
			}
		})
		if bad == "" {
			r.ok("R17.5", ssaName(fn), construct, w.posOf(fn.Pos()), "every return that can carry a nil error lies behind the ApplyFilter call", true)
		} else {
			r.bad("R17.5", ssaName(fn), construct, w.posOf(fn.Pos()), "a return at "+bad+" can succeed without the node's filter having been applied (or even looked up): for the bodies that take this path an unknown or failing filter is not reported")
		}
	}
	r.Counts["node renderers that apply a named filter"] = n
}

// depositsOf: the indices of the pointer parameters of g into whose pointee the error handed in
// as parameter i is stored (wrapped or not).
func (a *errAnalysis) depositsOf(g *ssa.Function, i int) []int {
	if a.depMemo == nil {
		a.depMemo = map[[2]interface{}][]int{}
		a.depBusy = map[[2]interface{}]bool{}
	}
	key := [2]interface{}{g, i}
	if r, ok := a.depMemo[key]; ok {
		return r
	}
	if a.depBusy[key] || i >= len(g.Params) {
		return nil
	}
	a.depBusy[key] = true
	defer delete(a.depBusy, key)
	fl := a.flow(g.Params[i])
	var out []int
	for _, p := range fl.deposits {
		for j, q := range g.Params {
			if q == p {
				out = append(out, j)
			}
		}
	}
	a.depMemo[key] = out
	return out
}

// withdraws: some error g returns derives from a field of the object its parameter j points to.
func (a *errAnalysis) withdraws(g *ssa.Function, j int) bool {
	if a.wdMemo == nil {
		a.wdMemo = map[[2]interface{}]int{}
	}
	key := [2]interface{}{g, j}
	switch a.wdMemo[key] {
	case 1, 3:
		return false
	case 2:
		return true
	}
	a.wdMemo[key] = 1
	res := false
	if j < len(g.Params) && errResultIndex(g.Signature) >= 0 {
		instrsOf(g, func(in ssa.Instruction) {
			u, ok := in.(*ssa.UnOp)
			if !ok || u.Op != token.MUL || res {
				return
			}
			fa, ok := u.X.(*ssa.FieldAddr)
			if !ok || fa.X != ssa.Value(g.Params[j]) {
				return
			}
			// only fields that hold errors
			ft := u.Type()
			if sl, isSl := ft.Underlying().(*types.Slice); isSl {
				ft = sl.Elem()
			}
			if !types.Identical(ft, errorType) {
				return
			}
			if a.flow(u).reachesReturn {
				res = true
			}
		})
	}
	if res {
		a.wdMemo[key] = 2
	} else {
		a.wdMemo[key] = 3
	}
	return res
}

// overwrittenUnseen: the block of call c lies on a cycle that passes no nil test of the call's
// error (and no instruction that puts the error away: a wrapping call, an append, a store into a
// collector).
func overwrittenUnseen(c ssa.Instruction, fl *errFlow) bool {
	home := c.Block()
	tests := map[*ssa.BasicBlock]bool{}
	for _, bo := range fl.nilTests {
		if bo.Referrers() == nil {
			continue
		}
		for _, ref := range *bo.Referrers() {
			if iff, ok := ref.(*ssa.If); ok {
				tests[iff.Block()] = true
			}
		}
	}
	// consumers other than tests: calls/stores that take a derived value
	for v := range fl.derived {
		if v.Referrers() == nil {
			continue
		}
		for _, ref := range *v.Referrers() {
			switch x := ref.(type) {
			case ssa.CallInstruction:
				if x != c {
					tests[x.Block()] = true
				}
			case *ssa.Store:
				if _, isAlloc := x.Addr.(*ssa.Alloc); !isAlloc {
					tests[x.Block()] = true
				}
			case *ssa.Return:
				tests[x.Block()] = true
			}
		}
	}
	if tests[home] {
		// the test may precede the call in the same block (loop rotated): only a test after it counts
		after := false
		seenCall := false
		for _, in := range home.Instrs {
			if in == c {
				seenCall = true
				continue
			}
			if !seenCall {
				continue
			}
			if _, ok := in.(*ssa.If); ok {
				after = true
			}
			if _, ok := in.(ssa.CallInstruction); ok {
				after = true
			}
			if _, ok := in.(*ssa.Return); ok {
				after = true
			}
		}
		if after {
			return false
		}
	}
	seen := map[*ssa.BasicBlock]bool{}
	var dfs func(b *ssa.BasicBlock) bool
	dfs = func(b *ssa.BasicBlock) bool {
		if b == home {
			return true
		}
		if seen[b] || tests[b] {
			return false
		}
		seen[b] = true
		for _, s := range b.Succs {
			if dfs(s) {
				return true
			}
		}
		return false
	}
	for _, s := range home.Succs {
		if dfs(s) {
			return true
		}
	}
	return false
}

// checkDeferredOverwrites — R17.7: cleanup does not erase the failure.  A function literal that
// is deferred and assigns the enclosing function's error result (`err = w.Flush()`,
// `err = f.Close()`) does so only where that result is still nil: an unconditional assignment
// replaces the error a render returned with the — usually nil — result of the cleanup.
func checkDeferredOverwrites(w *World, r *Report) {
	n := 0
	for _, fn := range w.pkgFuncs() {
		instrsOf(fn, func(in ssa.Instruction) {
			d, ok := in.(*ssa.Defer)
			if !ok {
				return
			}
			mc, ok := d.Call.Value.(*ssa.MakeClosure)
			if !ok {
				return
			}
			g, ok := mc.Fn.(*ssa.Function)
			if !ok {
				return
			}
			for i, b := range mc.Bindings {
				al, ok := b.(*ssa.Alloc)
				if !ok || i >= len(g.FreeVars) || !types.Identical(deref(al.Type()), errorType) {
					continue
				}
				fv := g.FreeVars[i]
				if fv.Referrers() == nil {
					continue
				}
				for _, ref := range *fv.Referrers() {
					st, ok := ref.(*ssa.Store)
					if !ok || st.Addr != ssa.Value(fv) {
						continue
					}
					n++
					guarded := false
					for _, c := range controllingConds(st) {
						var facts []condFact
						expandCond(c, true, &facts, 0)
						for _, cf := range facts {
							bo, ok := cf.v.(*ssa.BinOp)
							if !ok || (bo.Op != token.EQL && bo.Op != token.NEQ) {
								continue
							}
							for _, pr := range [][2]ssa.Value{{bo.X, bo.Y}, {bo.Y, bo.X}} {
								if u, ok := pr[0].(*ssa.UnOp); ok && u.X == ssa.Value(fv) && isNilConst(pr[1]) {
									guarded = true
								}
							}
						}
					}
					construct := "deferred assignment of the error result"
					if guarded {
						r.ok("R17.7", ssaName(g), construct, w.posOf(st.Pos()), "made only under a test of the result itself", true)
					} else {
						r.bad("R17.7", ssaName(g), construct, w.posOf(st.Pos()), "the deferred function assigns the enclosing function's error result whatever it holds: an error returned by the render is replaced by the result of the cleanup call, so a failed render reports success (and its partial output has been delivered)")
					}
				}
			}
		})
	}
	r.Counts["deferred assignments of an error result"] = n
}

// nilReturnUnseen: a path leads from the call to a return whose error result is the constant nil
// without crossing any test of the error (or of a value derived from it) and without handing the
// error on (to a return, a collector, a wrapping call): on that path nobody knows whether the call
// failed, and the function reports success.
func (a *errAnalysis) nilReturnUnseen(fn *ssa.Function, call ssa.Instruction, ev ssa.Value, fl *errFlow) string {
	ei := errResultIndex(fn.Signature)
	if ei < 0 {
		return ""
	}
	// blocks in which the error is tested or used
	seenIn := map[*ssa.BasicBlock]bool{}
	for v := range fl.derived {
		if v.Referrers() == nil {
			continue
		}
		for _, ref := range *v.Referrers() {
			switch ref.(type) {
			case *ssa.DebugRef:
				continue
			}
			if ref.Block() != nil {
				// a comparison / call / return / store that involves the error
				if _, isPhi := ref.(*ssa.Phi); isPhi {
					continue
				}
				if _, isExtract := ref.(*ssa.Extract); isExtract {
					continue
				}
				seenIn[ref.Block()] = true
			}
		}
	}
	start := call.Block()
	visited := map[*ssa.BasicBlock]bool{}
	bad := ""
	var dfs func(b *ssa.BasicBlock, first bool)
	dfs = func(b *ssa.BasicBlock, first bool) {
		if bad != "" || (visited[b] && !first) {
			return
		}
		visited[b] = true
		if seenIn[b] && !first {
			return
		}
		if first && seenIn[b] {
			// the call's own block: uses after the call in the same block count
			for _, in := range b.Instrs[instrIndex(call)+1:] {
				for v := range fl.derived {
					for _, op := range in.Operands(nil) {
						if *op == v {
							if _, isEx := in.(*ssa.Extract); !isEx {
								return
							}
						}
					}
				}
			}
		}
		if len(b.Instrs) > 0 {
			if ret, ok := b.Instrs[len(b.Instrs)-1].(*ssa.Return); ok {
				res := retResults(ret)
				if ei < len(res) && isNilConst(res[ei]) {
					bad = a.w.posOf(ret.Pos())
				}
				return
			}
		}
		for _, s := range b.Succs {
			if s == start {
				continue // round the loop to the call again: another call, another error
			}
			dfs(s, false)
		}
	}
	dfs(start, true)
	if bad == "" {
		return ""
	}
	return "a path leads from this call to the `nil` error return at " + bad + " without any test or use of the error on the way: when the call fails on that path the function still reports success, and the failure is replaced by output"
}
