package main

// C12 — macros bind arguments positionally with defaults, alike however they are reached.
//
// R12.1 single choke point: MacroNode.body is rendered by exactly one function; every call form
//       reaches the body only through it, so the forms cannot differ in binding.
// R12.2 total positional binding: in that function, on every path through one iteration over
//       n.params exactly one binding of the parameter is made on the macro's own context; its
//       value is args[i] with the loop's own index under i < len(args), the evaluated default
//       under membership in n.defaults, or nil.
// R12.3 macro scope: the body (and macro text) renders in a context that is a fresh
//       NewRenderContext result, never the caller's context.
// R12.4 uniform arguments: every call of the choke point passes an argument slice that is a
//       forwarded parameter / captured variable, or is built by evaluating n.args[i] in index
//       order with EvaluateExpression.

import (
	"fmt"
	"go/token"
	"go/types"
	"strings"

	"golang.org/x/tools/go/ssa"
)

func init() { register("C12", checkC12) }

func checkC12(w *World, r *Report) {
	r.Explanation = "Decides the binding clauses of C12 that are visible in the shape of the code, for every macro signature, argument list and call form: (R12.1) exactly one function renders MacroNode.body, so direct, _self, import and from-import calls share one binding routine; (R12.2) on every path through one iteration over the parameters exactly one binding is made on the macro's context — args[i] with the iteration's own index under i < len(args), else the evaluated default if the parameter has one, else nil — so arguments bind positionally, defaults fill omissions and extra arguments are never read; (R12.3) the body and macro text render in a fresh context (assignments in the body cannot reach the caller); (R12.4) every caller passes arguments that are forwarded unchanged or evaluated from n.args in index order. (R12.5) import and from-import reach a successful return only through Engine.Load, so they always bind the macros of the library they name. Not decided: agreement of the two macro declaration parsers, the mini-interpreter for macro text (renderVariableString), values of default expressions."
	r.Explanation += " Rules added in later rounds: (R12.6) the parser never evaluates; (R12.7) imports render the library; (R12.8) chain walks are not bounded by constants. (R12.2) default/null bindings only where no argument was supplied at the position. (R12.9) a macro node stores the declaration it was given."
	r.Explanation += " Round 9: (R12.10) the macro table has four writers; (R12.11) qualified calls keep their qualifier."
	r.Explanation += " Round 10: (R12.12) import binds its alias with SetVariable."
	r.Explanation += " Round 12: (R12.13) a macro definition registers itself whatever the table holds."
	r.Explanation += " Round 13: (R12.14) nodes own the tables they are built with."
	r.RuleText = "obligation = one render site of a macro body / one binding / one caller; non-trivial = all"
	r.Trusted = []string{"field-of-origin classification (MacroNode.params/defaults/body)"}

	// ---- R12.1
	renderers := map[*ssa.Function][]ssa.Instruction{}
	for _, fn := range w.pkgFuncs() {
		instrsOf(fn, func(in ssa.Instruction) {
			if t, f, ok := renderOf(in); ok && t == "MacroNode" && f == "body" {
				renderers[fn] = append(renderers[fn], in)
			}
		})
	}
	if len(renderers) == 0 {
		cannotDecide("R12.1: no function renders MacroNode.body")
	}
	var choke *ssa.Function
	for fn := range renderers {
		if choke == nil || ssaName(fn) < ssaName(choke) {
			choke = fn
		}
	}
	if len(renderers) == 1 {
		r.ok("R12.1", ssaName(choke), "single function renders MacroNode.body", w.posOf(choke.Pos()), "all call forms share this binding routine", true)
	} else {
		var names []string
		for fn := range renderers {
			names = append(names, ssaName(fn))
		}
		r.bad("R12.1", "(package)", "single function renders MacroNode.body", "-", fmt.Sprintf("%d functions render macro bodies (%s): call forms can differ in how they bind arguments", len(names), strings.Join(names, ", ")))
	}

	setVar := w.method("RenderContext", "SetVariable")
	evalM := w.method("RenderContext", "EvaluateExpression")
	ctors := w.ctxConstructors()

	// the binder: the function that iterates over MacroNode.params (the choke point itself, or
	// the function that calls it after binding the parameters)
	binder := choke
	hasParamLoop := func(fn *ssa.Function) bool {
		found := false
		instrsOf(fn, func(in ssa.Instruction) {
			if u, ok := in.(*ssa.UnOp); ok && u.Op == token.MUL {
				if ia, ok := u.X.(*ssa.IndexAddr); ok {
					if t, f := originField(ia.X, 0); t == "MacroNode" && f == "params" {
						found = true
					}
				}
			}
		})
		return found
	}
	viaObject := false
	var chokeCall ssa.CallInstruction
	var binderCall *ssa.Call // when the binder is a sibling of the body renderer: its call in their common caller
	if !hasParamLoop(choke) {
		binder = nil
		if node := w.callgraph().Nodes[choke]; node != nil {
			for _, e := range node.In {
				if e.Site != nil && e.Site.Common().StaticCallee() == choke && hasParamLoop(e.Caller.Func) {
					binder, chokeCall = e.Caller.Func, e.Site
				}
			}
		}
		// … or a sibling: a function F calls both the binder (which has the parameter loop) and
		// the function that renders the body, handing the same fresh context to both
		var siblingCtx ssa.Value
		if binder == nil {
			if node := w.callgraph().Nodes[choke]; node != nil {
				for _, e := range node.In {
					if e.Site == nil || e.Site.Common().StaticCallee() != choke {
						continue
					}
					f := e.Caller.Func
					instrsOf(f, func(in ssa.Instruction) {
						c, ok := in.(*ssa.Call)
						if !ok || binder != nil {
							return
						}
						b := c.Call.StaticCallee()
						if b == nil || b == choke || !hasParamLoop(b) {
							return
						}
						// both are methods called on one and the same call object (a struct that
						// carries the macro, its fresh context and the arguments)
						if choke.Signature.Recv() != nil && b.Signature.Recv() != nil && len(c.Call.Args) > 0 && len(e.Site.Common().Args) > 0 &&
							types.Identical(choke.Signature.Recv().Type(), b.Signature.Recv().Type()) &&
							sameValue(unspill(c.Call.Args[0]), unspill(e.Site.Common().Args[0])) {
							binder, chokeCall, binderCall = b, e.Site, c
							viaObject = true
							return
						}
						// the context given to the body renderer is also given to the binder
						for ci, cp := range choke.Params {
							if !isNamed(cp.Type(), twigPath, "RenderContext") || ci >= len(e.Site.Common().Args) {
								continue
							}
							bodyCtx := e.Site.Common().Args[ci]
							for _, ba := range c.Call.Args {
								if ba == bodyCtx {
									binder, chokeCall, siblingCtx = b, e.Site, bodyCtx
									binderCall = c
								}
							}
						}
					})
				}
			}
		}
		if binder == nil {
			cannotDecide("R12.2: no function iterating over MacroNode.params renders the macro body or calls the function that does (%s)", ssaName(choke))
		}
		_ = siblingCtx
	}

	// ---- R12.3
	var macroCtx ssa.Value
	for _, in := range renderers[choke] {
		c := in.(ssa.CallInstruction)
		for _, a := range c.Common().Args {
			if isNamed(a.Type(), twigPath, "RenderContext") {
				// the renderer split off the binder: the context is what the binder passes
				if p, isP := a.(*ssa.Parameter); isP && chokeCall != nil {
					for i, cp := range choke.Params {
						if cp == p && i < len(chokeCall.Common().Args) {
							a = chokeCall.Common().Args[i]
						}
					}
				}
				if _, isP := a.(*ssa.Parameter); !isP {
					a = origin(a) // carried in a field of the call object
				}
				leaves, bad := ctxLeaves(a, nil, ctors)
				if bad == "" && len(leaves) > 0 {
					r.ok("R12.3", ssaName(choke), "macro body renders in a fresh context", w.posOf(in.Pos()), strings.Join(leaves, "/"), true)
					macroCtx = a
				} else {
					r.bad("R12.3", ssaName(choke), "macro body renders in a fresh context", w.posOf(in.Pos()), "the macro body can render in "+bad+": assignments made in the macro reach the caller and the caller's variables are not shadowed by the parameters")
				}
			}
		}
	}
	// the body renderer split off the binder receives its context as a parameter: every call of
	// it — not only the binder's — must hand it a fresh context
	for _, in := range renderers[choke] {
		c := in.(ssa.CallInstruction)
		for _, a := range c.Common().Args {
			p, isP := a.(*ssa.Parameter)
			if !isP || !isNamed(a.Type(), twigPath, "RenderContext") {
				continue
			}
			idx := -1
			for i, cp := range choke.Params {
				if cp == p {
					idx = i
				}
			}
			for _, e := range realInEdges(choke) {
				if e.Site == nil || (chokeCall != nil && e.Site == chokeCall) || idx < 0 || idx >= len(e.Site.Common().Args) {
					continue
				}
				leaves, bad := ctxLeaves(e.Site.Common().Args[idx], nil, ctors)
				if bad == "" && len(leaves) > 0 {
					r.ok("R12.3", ssaName(e.Caller.Func), "macro body renders in a fresh context", w.posOf(e.Site.Pos()), strings.Join(leaves, "/"), true)
				} else {
					r.bad("R12.3", ssaName(e.Caller.Func), "macro body renders in a fresh context", w.posOf(e.Site.Pos()), "this call of the body renderer "+choke.Name()+" hands it "+bad+": on that path assignments made in the macro reach the caller")
				}
			}
		}
	}
	// other render-like calls inside the choke point that receive a context (macro text)
	instrsOf(choke, func(in ssa.Instruction) {
		c, ok := in.(*ssa.Call)
		if !ok {
			return
		}
		f := c.Call.StaticCallee()
		if f == nil || !w.inPkg(f) || calleeFunc(c) == setVar || calleeFunc(c) == evalM {
			return
		}
		takesWriter := false
		for _, a := range c.Call.Args {
			if isNamed(a.Type(), "io", "Writer") {
				takesWriter = true
			}
		}
		if !takesWriter {
			return
		}
		for _, a := range c.Call.Args {
			if isNamed(a.Type(), twigPath, "RenderContext") {
				if p, isP := a.(*ssa.Parameter); isP && chokeCall != nil {
					for i, cp := range choke.Params {
						if cp == p && i < len(chokeCall.Common().Args) {
							a = chokeCall.Common().Args[i]
						}
					}
				}
				if _, isP := a.(*ssa.Parameter); !isP {
					a = origin(a)
				}
				leaves, bad := ctxLeaves(a, nil, ctors)
				if bad == "" && len(leaves) > 0 {
					r.ok("R12.3", ssaName(choke), "macro text renders in a fresh context ("+ssaName(f)+")", w.posOf(in.Pos()), strings.Join(leaves, "/"), true)
				} else {
					r.bad("R12.3", ssaName(choke), "macro text renders in a fresh context ("+ssaName(f)+")", w.posOf(in.Pos()), "macro text is rendered in "+bad)
				}
			}
		}
	})

	checkResolvesThroughLoad(w, r, "R12.5", []string{"ImportNode", "FromImportNode"}, "the directive keeps whatever macros are bound under its names already instead of binding the macros of the library it names: a macro reached through this import is another macro than the same name reached through `import … as`")

	// ---- R12.2
	if binderCall != nil && macroCtx != nil {
		// inside the sibling binder the macro's context is the parameter that receives it
		for i, a := range binderCall.Call.Args {
			if a == macroCtx && i < len(binder.Params) {
				macroCtx = binder.Params[i]
			}
		}
	}
	checkMacroBinding(w, r, binder, macroCtx, setVar, evalM)

	// ---- R12.4
	n4 := 0
	var checkCallers func(target *ssa.Function, depth int)
	seenTargets := map[*ssa.Function]bool{}
	checkCallers = func(target *ssa.Function, depth int) {
		if seenTargets[target] || depth > 2 {
			return
		}
		seenTargets[target] = true
		targetObj, _ := target.Object().(*types.Func)
		if targetObj == nil {
			return
		}
		// which parameter carries the argument list?
		argIdx := -1
		for i, p := range target.Params {
			if sl, ok := p.Type().Underlying().(*types.Slice); ok {
				if it, ok := sl.Elem().Underlying().(*types.Interface); ok && it.NumMethods() == 0 {
					argIdx = i
				}
			}
		}
		if argIdx < 0 {
			return
		}
		for _, fn := range w.pkgFuncs() {
			instrsOf(fn, func(in ssa.Instruction) {
				c, ok := in.(ssa.CallInstruction)
				if !ok || calleeFunc(c) != targetObj {
					return
				}
				cc := c.Common()
				ai := argIdx
				if cc.IsInvoke() {
					ai--
				}
				if ai < 0 || ai >= len(cc.Args) {
					return
				}
				last := cc.Args[ai]
				// a function that only hands its own argument list on is transparent: its callers
				// are the call forms
				if p, isP := last.(*ssa.Parameter); isP && depth < 2 && fn.Object() != nil && p.Parent() == fn {
					checkCallers(fn, depth+1)
					return
				}
				n4++
				construct := "arguments handed to " + ssaName(target)
				// a call form that answers with a callable (a function literal rendered later) must
				// evaluate the arguments where the call expression is evaluated and capture them:
				// evaluated inside the literal they see the variables of the moment of rendering
				if fn.Parent() != nil {
					lazy := false
					seenV := map[ssa.Value]bool{}
					var walk func(v ssa.Value)
					walk = func(v ssa.Value) {
						if seenV[v] {
							return
						}
						seenV[v] = true
						switch y := v.(type) {
						case *ssa.Extract:
							if c2, ok := y.Tuple.(*ssa.Call); ok && c2.Parent() == fn {
								lazy = true
							}
						case *ssa.MakeSlice:
							if y.Parent() == fn {
								lazy = true
							}
						case *ssa.Slice:
							walk(y.X)
						case *ssa.Phi:
							for _, e := range y.Edges {
								walk(e)
							}
						case *ssa.UnOp:
							if al, ok := y.X.(*ssa.Alloc); ok && al.Referrers() != nil {
								for _, ref := range *al.Referrers() {
									if st, ok := ref.(*ssa.Store); ok && st.Addr == ssa.Value(al) {
										walk(st.Val)
									}
								}
							}
						}
					}
					walk(last)
					if lazy {
						r.bad("R12.4", ssaName(fn), construct, w.posOf(in.Pos()), "the argument expressions are evaluated inside the function literal that renders the macro later, not where the call expression is evaluated: between the two moments variables can be re-assigned (`{% set x = m(v) %}{% set v = … %}{{ x }}`), so this call form binds other values than the others")
						return
					}
				}
				if why := macroArgsOrigin(w, last, evalM, 0); why != "" {
					r.ok("R12.4", ssaName(fn), construct, w.posOf(in.Pos()), why, true)
				} else {
					r.bad("R12.4", ssaName(fn), construct, w.posOf(in.Pos()), "the argument list of this call form is neither forwarded unchanged nor built by evaluating the call's argument expressions in order: this way of reaching a macro binds different values than the others")
				}
			})
		}
	}
	callersOf := binder
	if viaObject && binderCall != nil {
		// the argument list is put into the call object by the function that builds it
		callersOf = binderCall.Parent()
	}
	checkCallers(callersOf, 0)
	r.floor("call sites of the macro choke point", n4, 1)
	checkParserDoesNotEvaluate(w, r)
	checkImportsRenderLibrary(w, r, "R12.7")
	checkMacroKeepsDeclaration(w, r)
	checkMacroTableWriters(w, r)
	checkQualifiedCallsKeepQualifier(w, r)
	checkImportBindsVariable(w, r)
	checkMacroRegistersItself(w, r)
	checkNodesOwnTheirTables(w, r)
	checkChainWalkBounds(w, r, "R12.8")
}

// macroArgsOrigin: "" if unknown; else a description of an accepted origin.
func macroArgsOrigin(w *World, v ssa.Value, evalM *types.Func, depth int) string {
	return macroArgsOriginSrc(w, v, evalM, depth, nil)
}

// macroArgsOriginSrc: srcOK, if set, decides whether the node list whose elements are evaluated
// is the call's argument list (used when the evaluation loop lives in a helper that receives
// the list as a parameter).
func macroArgsOriginSrc(w *World, v ssa.Value, evalM *types.Func, depth int, srcOK func(ssa.Value) bool) string {
	if depth > 6 {
		return ""
	}
	switch x := v.(type) {
	case *ssa.Extract:
		// args, err := ctx.evaluateArguments(n.args): a helper of the package whose slice result is
		// built by evaluating its node-list parameter in order, handed the call's args
		c, ok := x.Tuple.(*ssa.Call)
		if !ok || x.Index != 0 {
			return ""
		}
		h := c.Call.StaticCallee()
		if h == nil || !isTwigFn(h) || len(h.Blocks) == 0 {
			return ""
		}
		okAll, n := true, 0
		instrsOf(h, func(in ssa.Instruction) {
			ret, isRet := in.(*ssa.Return)
			if !isRet || !okAll {
				return
			}
			res := retResults(ret)
			if len(res) == 0 || isNilConst(res[0]) {
				return
			}
			n++
			why := macroArgsOriginSrc(w, res[0], evalM, depth+1, func(src ssa.Value) bool {
				p, isP := unspill(src).(*ssa.Parameter)
				if !isP {
					// the helper is handed the call node itself and reads its args field
					if base, ok := fieldLoad(unspill(src), "FunctionNode", "args"); ok {
						if bp, ok := unspill(base).(*ssa.Parameter); ok && bp.Parent() == h {
							return true
						}
					}
					return false
				}
				for k, hp := range h.Params {
					if hp == p && k < len(c.Call.Args) {
						_, f := originField(c.Call.Args[k], 0)
						return f == "args"
					}
				}
				return false
			})
			if why == "" {
				okAll = false
			}
		})
		if okAll && n > 0 {
			return "built by " + h.Name() + ", which evaluates the call's argument expressions args[i] into position i"
		}
		return ""
	case *ssa.Parameter:
		return "forwards its own args parameter unchanged"
	case *ssa.FreeVar:
		// captured variable of a closure: look at the binding in the parent
		fn := x.Parent()
		idx := -1
		for i, fv := range fn.FreeVars {
			if fv == x {
				idx = i
			}
		}
		par := fn.Parent()
		if par == nil || idx < 0 {
			return ""
		}
		res := ""
		instrsOf(par, func(in ssa.Instruction) {
			mc, ok := in.(*ssa.MakeClosure)
			if !ok || mc.Fn != ssa.Value(fn) || idx >= len(mc.Bindings) || res != "" {
				return
			}
			b := mc.Bindings[idx]
			if al, ok := b.(*ssa.Alloc); ok {
				// every store into the captured variable must have an accepted origin
				okAll, n := true, 0
				var first string
				for _, ref := range *al.Referrers() {
					if st, ok := ref.(*ssa.Store); ok && st.Addr == al {
						n++
						why := macroArgsOriginSrc(w, st.Val, evalM, depth+1, srcOK)
						if why == "" {
							okAll = false
						} else if first == "" {
							first = why
						}
					}
				}
				if okAll && n > 0 {
					res = "captured variable: " + first
				}
			} else {
				res = macroArgsOriginSrc(w, b, evalM, depth+1, srcOK)
			}
		})
		return res
	case *ssa.UnOp:
		if x.Op == token.MUL {
			if fv, ok := x.X.(*ssa.FreeVar); ok {
				return macroArgsOriginSrc(w, fv, evalM, depth+1, srcOK)
			}
			// a field of the receiver of a small "deferred call" type: what every construction
			// of that type stored there
			if p, field, ok := paramOrigin(x); ok && field >= 0 {
				if cvs, ok := constructionValues(p.Type(), field); ok {
					first := ""
					for _, cv := range cvs {
						why := macroArgsOriginSrc(w, cv.val, evalM, depth+1, srcOK)
						if why == "" {
							return ""
						}
						if first == "" {
							first = why
						}
					}
					if first != "" {
						return "field of a deferred-call value: " + first
					}
				}
			}
			if al, ok := x.X.(*ssa.Alloc); ok && al.Referrers() != nil {
				okAll, n := true, 0
				var first string
				for _, ref := range *al.Referrers() {
					if st, ok := ref.(*ssa.Store); ok && st.Addr == al {
						n++
						why := macroArgsOriginSrc(w, st.Val, evalM, depth+1, srcOK)
						if why == "" {
							okAll = false
						} else if first == "" {
							first = why
						}
					}
				}
				if okAll && n > 0 {
					return first
				}
			}
		}
	case *ssa.Slice:
		return macroArgsOriginSrc(w, x.X, evalM, depth+1, srcOK)
	case *ssa.Phi:
		var first string
		for _, e := range x.Edges {
			why := macroArgsOriginSrc(w, e, evalM, depth+1, srcOK)
			if why == "" {
				return ""
			}
			if first == "" {
				first = why
			}
		}
		return first
	case *ssa.MakeSlice:
		// args := make([]interface{}, len(n.args)); args[i] = eval(n.args[i])
		if x.Referrers() == nil {
			return ""
		}
		n := 0
		// element addresses: directly on the slice, or on loads of the local it is stored in
		var refs []ssa.Instruction
		refs = append(refs, *x.Referrers()...)
		for _, ref := range *x.Referrers() {
			if st, ok := ref.(*ssa.Store); ok && st.Val == ssa.Value(x) {
				if al, ok := st.Addr.(*ssa.Alloc); ok && singleStore(al) != nil {
					for _, ar := range *al.Referrers() {
						if ld, ok := ar.(*ssa.UnOp); ok && ld.Referrers() != nil {
							refs = append(refs, *ld.Referrers()...)
						}
					}
				}
			}
		}
		for _, ref := range refs {
			ia, ok := ref.(*ssa.IndexAddr)
			if !ok || ia.Referrers() == nil {
				continue
			}
			for _, r2 := range *ia.Referrers() {
				st, ok := r2.(*ssa.Store)
				if !ok || st.Addr != ia {
					continue
				}
				n++
				ex, ok := st.Val.(*ssa.Extract)
				if !ok {
					return ""
				}
				c, ok := ex.Tuple.(*ssa.Call)
				if !ok || calleeFunc(c) != evalM {
					return ""
				}
				// the evaluated node is <node>.args[i] with the same index as the store
				src := callArgs(c)[0]
				u, ok := src.(*ssa.UnOp)
				if !ok {
					return ""
				}
				sia, ok := u.X.(*ssa.IndexAddr)
				if !ok || sia.Index != ia.Index {
					return ""
				}
				if srcOK != nil {
					if !srcOK(sia.X) {
						return ""
					}
				} else if _, f := originField(sia.X, 0); f != "args" {
					return ""
				}
			}
		}
		if n > 0 {
			return "built by evaluating the call's argument expressions args[i] into position i"
		}
	case *ssa.Const:
		if x.Value == nil {
			return "no arguments (nil)"
		}
	}
	return ""
}

func checkMacroBinding(w *World, r *Report, fn *ssa.Function, macroCtx ssa.Value, setVar, evalM *types.Func) {
	name := ssaName(fn)
	// the parameter name of the current iteration: load(IndexAddr(load(n.params), idx))
	var paramVal ssa.Value
	var idxVal ssa.Value
	instrsOf(fn, func(in ssa.Instruction) {
		u, ok := in.(*ssa.UnOp)
		if !ok || u.Op != token.MUL {
			return
		}
		ia, ok := u.X.(*ssa.IndexAddr)
		if !ok {
			return
		}
		if t, f := originField(ia.X, 0); t == "MacroNode" && f == "params" {
			paramVal, idxVal = u, ia.Index
		}
	})
	if paramVal == nil {
		cannotDecide("R12.2: iteration over MacroNode.params not found in %s", name)
	}
	var argsParam *ssa.Parameter
	for _, p := range fn.Params {
		if sl, ok := p.Type().Underlying().(*types.Slice); ok {
			if it, ok := sl.Elem().Underlying().(*types.Interface); ok && it.NumMethods() == 0 {
				argsParam = p
			}
		}
	}
	var argsVal ssa.Value
	if argsParam != nil {
		argsVal = argsParam
	} else {
		// the argument list travels in a field of the call object the binder is a method of
		instrsOf(fn, func(in ssa.Instruction) {
			u, ok := in.(*ssa.UnOp)
			if !ok || u.Op != token.MUL || argsVal != nil {
				return
			}
			fa, ok := u.X.(*ssa.FieldAddr)
			if !ok {
				return
			}
			if _, isP := fa.X.(*ssa.Parameter); !isP {
				return
			}
			if sl, ok := u.Type().Underlying().(*types.Slice); ok {
				if it, ok := sl.Elem().Underlying().(*types.Interface); ok && it.NumMethods() == 0 {
					argsVal = u
				}
			}
		})
	}
	var sites []*ssa.Call
	instrsOf(fn, func(in ssa.Instruction) {
		c, ok := in.(*ssa.Call)
		if !ok || calleeFunc(c) != setVar {
			return
		}
		if callArgs(c)[0] == paramVal {
			sites = append(sites, c)
		}
	})
	r.floor("parameter bindings in the macro choke point", len(sites), 1)
	kinds := map[string]int{}
	for _, c := range sites {
		pos := w.posOf(c.Pos())
		recv := callRecv(c)
		construct := "binding of the current parameter"
		if macroCtx != nil && recv != macroCtx {
			// the receiver must be the macro's own context
			if leaves, bad := ctxLeaves(origin(recv), nil, w.ctxConstructors()); bad != "" || len(leaves) == 0 {
				r.bad("R12.2", name, construct, pos, "the parameter is bound on a context other than the macro's own fresh context")
				continue
			}
		}
		val := callArgs(c)[1]
		for _, res := range classifyBinding(w, fn, val, c.Block(), idxVal, paramVal, argsVal, evalM, 0) {
			switch res.kind {
			case "nil":
				kinds["nil"]++
				r.ok("R12.2", name, construct+" to null", pos, "parameter without argument and without default"+res.via, true)
			case "arg":
				kinds["arg"]++
				r.ok("R12.2", name, construct+" to args[i]", pos, "same index as the parameter, under i < len(args)"+res.via, true)
			case "default":
				kinds["default"]++
				r.ok("R12.2", name, construct+" to its evaluated default", pos, "default looked up under the parameter's own name"+res.via, true)
			default:
				r.bad("R12.2", name, construct+res.construct, pos, res.problem)
			}
		}
	}
	for _, k := range []string{"arg", "default", "nil"} {
		if kinds[k] == 0 {
			r.bad("R12.2", name, "binding case: "+k, w.posOf(fn.Pos()), "the binding loop has no case for '"+k+"'")
		}
	}
	// exactly one binding per iteration: DFS from the block of paramVal to the loop header (the
	// block that defines idxVal's phi) counting binding sites
	var header *ssa.BasicBlock
	if phi, ok := idxVal.(*ssa.Phi); ok {
		header = phi.Block()
	} else if bo, ok := idxVal.(*ssa.BinOp); ok {
		if phi, ok := bo.X.(*ssa.Phi); ok {
			header = phi.Block()
		}
	}
	if header == nil {
		r.note("R12.2: loop header of the parameter iteration not identified; the one-binding-per-iteration clause was checked by case analysis only")
		return
	}
	siteBlock := map[*ssa.BasicBlock]int{}
	for _, c := range sites {
		siteBlock[c.Block()]++
	}
	minC, maxC := 1<<30, -1
	type key struct {
		b *ssa.BasicBlock
		n int
	}
	seen := map[key]bool{}
	var dfs func(b *ssa.BasicBlock, n int)
	dfs = func(b *ssa.BasicBlock, n int) {
		if seen[key{b, n}] || n > 3 {
			return
		}
		seen[key{b, n}] = true
		n += siteBlock[b]
		for _, s := range b.Succs {
			if s == header {
				if n < minC {
					minC = n
				}
				if n > maxC {
					maxC = n
				}
				continue
			}
			dfs(s, n)
		}
	}
	start := paramVal.(ssa.Instruction).Block()
	dfs(start, 0)
	construct := "exactly one binding per parameter"
	if minC == 1 && maxC == 1 {
		r.ok("R12.2", name, construct, w.posOf(fn.Pos()), "every path through one iteration executes exactly one binding", true)
	} else {
		r.bad("R12.2", name, construct, w.posOf(fn.Pos()), fmt.Sprintf("a path through one iteration executes between %d and %d bindings of the parameter: a parameter can stay unbound (it then reads an outer variable of the same name) or be bound twice", minC, maxC))
	}
}

type bindingClass struct {
	kind      string // arg | default | nil | bad
	construct string
	problem   string
	via       string
}

// classifyBinding: what the value bound to the current parameter is — args[i] under i < len(args),
// the evaluated default of this parameter, null — directly or as the result of a helper that is
// handed the iteration index, the parameter name and the argument list.
func classifyBinding(w *World, fn *ssa.Function, val ssa.Value, at *ssa.BasicBlock, idxVal, paramVal ssa.Value, argsParam ssa.Value, evalM *types.Func, depth int) []bindingClass {
	bad := func(c, p string) []bindingClass { return []bindingClass{{kind: "bad", construct: c, problem: p}} }
	// onlyWithoutArgument: the block lies behind the "no argument at this position" edge of
	// every test that relates the iteration index to len(args) — a supplied argument, whatever
	// its value (0, '', false, null), is never replaced by a default or by null
	onlyWithoutArgument := func() bool {
		if argsParam == nil {
			return true
		}
		found, ok := false, true
		for _, b := range fn.Blocks {
			v, trueIdx, isIf := ifCond(b)
			if !isIf {
				continue
			}
			bo, isBo := v.(*ssa.BinOp)
			if !isBo {
				continue
			}
			isLen := func(x ssa.Value) bool {
				lc, ok := x.(*ssa.Call)
				if !ok {
					return false
				}
				bi, ok := lc.Call.Value.(*ssa.Builtin)
				return ok && bi.Name() == "len" && sameValue(lc.Call.Args[0], argsParam)
			}
			var suppliedIdx int
			switch {
			case bo.Op == token.LSS && sameValue(bo.X, idxVal) && isLen(bo.Y), bo.Op == token.GTR && isLen(bo.X) && sameValue(bo.Y, idxVal):
				suppliedIdx = trueIdx
			case bo.Op == token.GEQ && sameValue(bo.X, idxVal) && isLen(bo.Y), bo.Op == token.LEQ && isLen(bo.X) && sameValue(bo.Y, idxVal):
				suppliedIdx = 1 - trueIdx
			default:
				continue
			}
			if !(b == at || b.Dominates(at)) {
				continue
			}
			found = true
			// edge dominance: from the "argument supplied" successor the binding cannot be
			// reached without coming round to the test again
			supplied := b.Succs[suppliedIdx]
			if supplied == at || blockReachesAvoiding(supplied, at, b) {
				ok = false
			}
		}
		return found && ok
	}
	if isNilConst(val) {
		if !onlyWithoutArgument() {
			return bad(" to null", "the parameter can be bound to null although an argument was supplied at its position (the binding is not confined to the i >= len(args) side of the test): the corresponding argument does not reach the macro")
		}
		return []bindingClass{{kind: "nil"}}
	}
	// args[i]
	if u, ok := val.(*ssa.UnOp); ok && u.Op == token.MUL {
		if ia, ok := u.X.(*ssa.IndexAddr); ok && argsParam != nil && sameValue(ia.X, argsParam) {
			guarded := false
			for _, b := range fn.Blocks {
				v, trueIdx, ok := ifCond(b)
				if !ok {
					continue
				}
				bo, ok := v.(*ssa.BinOp)
				if !ok || bo.Op != token.LSS || !sameValue(bo.X, ia.Index) {
					continue
				}
				lc, ok := bo.Y.(*ssa.Call)
				if !ok {
					continue
				}
				if bi, ok := lc.Call.Value.(*ssa.Builtin); !ok || bi.Name() != "len" || !sameValue(lc.Call.Args[0], argsParam) {
					continue
				}
				t := b.Succs[trueIdx]
				if t == at || t.Dominates(at) {
					guarded = true
				}
			}
			switch {
			case !sameValue(ia.Index, idxVal):
				return bad(" to args[i]", "the argument is not taken at the position of the parameter (index differs from the iteration index): arguments do not bind positionally")
			case !guarded:
				return bad(" to args[i]", "args[i] is read without the test i < len(args)")
			}
			return []bindingClass{{kind: "arg"}}
		}
	}
	if ex, ok := val.(*ssa.Extract); ok && ex.Index == 0 {
		if ec, ok := ex.Tuple.(*ssa.Call); ok {
			// evaluated default
			if calleeFunc(ec) == evalM {
				src := callArgs(ec)[0]
				if dex, ok := src.(*ssa.Extract); ok {
					if lk, ok := dex.Tuple.(*ssa.Lookup); ok && sameValue(lk.Index, paramVal) {
						if t, f := originField(lk.X, 0); t == "MacroNode" && f == "defaults" {
							if !onlyWithoutArgument() {
								return bad(" to its evaluated default", "the default can be bound although an argument was supplied at this position (the binding is not confined to the i >= len(args) side of the test): an argument whose value happens to be empty — 0, '', false, a comparison that is false — is replaced by the default")
							}
							return []bindingClass{{kind: "default"}}
						}
					}
				}
				return bad("", "the bound value is an evaluated expression that is not this parameter's default")
			}
			// a helper that is handed (i, name, args)
			if h := ec.Call.StaticCallee(); h != nil && isTwigFn(h) && len(h.Blocks) > 0 && depth < 2 {
				var hIdx, hName, hArgs ssa.Value
				for i, a := range ec.Call.Args {
					if i >= len(h.Params) {
						break
					}
					switch {
					case sameValue(a, idxVal):
						hIdx = h.Params[i]
					case sameValue(a, paramVal):
						hName = h.Params[i]
					case argsParam != nil && sameValue(a, argsParam):
						hArgs = h.Params[i]
					}
				}
				if hIdx == nil || hName == nil || hArgs == nil {
					return bad("", "the bound value comes from "+h.Name()+", which is not handed the iteration index, the parameter name and the argument list")
				}
				var out []bindingClass
				instrsOf(h, func(in ssa.Instruction) {
					ret, ok := in.(*ssa.Return)
					if !ok {
						return
					}
					res := retResults(ret)
					if len(res) == 0 {
						return
					}
					// error returns carry no value
					if len(res) == 2 && !isNilConst(res[1]) {
						if _, isEx := res[1].(*ssa.Extract); !isEx {
							return
						}
					}
					for _, bc := range classifyBinding(w, h, res[0], ret.Block(), hIdx, hName, hArgs, evalM, depth+1) {
						bc.via = " (in " + h.Name() + ")"
						out = append(out, bc)
					}
				})
				if len(out) == 0 {
					return bad("", "the helper "+h.Name()+" returns no value")
				}
				return out
			}
		}
	}
	return bad("", "the bound value is neither args[i], the evaluated default of this parameter, nor null")
}

// checkParserDoesNotEvaluate — R12.6: a default expression is evaluated when the macro is
// called, in the macro's context — like every other expression of a template.  Nothing
// reachable from Parser.Parse calls the evaluator or a Node's Render: the parser builds the
// tree, the renderer gives it meaning.  "Constant folding" of an expression that happens to
// evaluate without error in an empty context freezes `theme ~ '-badge'` or `site.name` to
// what it is worth where no variable exists.
func checkParserDoesNotEvaluate(w *World, r *Report) {
	parse := w.ssaFunc(w.method("Parser", "Parse"))
	reach := w.reachableFrom([]*ssa.Function{parse})
	eval := w.ssaFunc(w.method("RenderContext", "EvaluateExpression"))
	n := 0
	bad := 0
	for _, fn := range w.pkgFuncs() {
		if !reach[fn] {
			continue
		}
		n++
		instrsOf(fn, func(in ssa.Instruction) {
			c, ok := in.(ssa.CallInstruction)
			if !ok {
				return
			}
			cc := c.Common()
			what := ""
			if cc.StaticCallee() == eval {
				what = "EvaluateExpression"
			} else if cc.IsInvoke() && cc.Method.Name() == "Render" && isNamed(cc.Value.Type(), twigPath, "Node") {
				what = "Node.Render"
			}
			if what == "" {
				return
			}
			bad++
			r.bad("R12.6", ssaName(fn), "the parser does not evaluate expressions", w.posOf(in.Pos()), "a function reachable from Parser.Parse ("+strings.Join(w.pathTo([]*ssa.Function{parse}, fn), " → ")+") calls "+what+": an expression is given its value while the template is parsed — without the variables, globals and macro arguments of the call it was written for — instead of each time it is used")
		})
	}
	if bad == 0 {
		r.ok("R12.6", "(*Parser).Parse", "the parser does not evaluate expressions", "-", fmt.Sprintf("none of the %d functions reachable from Parse calls EvaluateExpression or a Node's Render", n), true)
	}
}

// checkImportsRenderLibrary — R12.7: `import … as m` and `from … import` learn a library's macros
// the same way — by rendering the library into a context of its own and reading that context's
// macro table.  Both renderers reach a successful return only through a Render of the loaded
// template's nodes.  Collecting macros another way for one of the two forms (scanning top-level
// nodes) misses macros defined under an `if`, or handed on by the library's own imports, for
// that form only.
func checkImportsRenderLibrary(w *World, r *Report, rule string) {
	n := 0
	for _, tn := range []string{"ImportNode", "FromImportNode"} {
		m := w.tryMethod(tn, "Render")
		if m == nil {
			continue
		}
		fn := w.ssaFunc(m)
		n++
		rendersLib := func(in ssa.Instruction) bool {
			c, ok := in.(ssa.CallInstruction)
			if !ok {
				return false
			}
			if _, isDefer := in.(*ssa.Defer); isDefer {
				return false
			}
			cc := c.Common()
			if cc.IsInvoke() && cc.Method.Name() == "Render" {
				if _, ok := fieldLoad(unspill(cc.Value), "Template", "nodes"); ok {
					return true
				}
			}
			// a helper of the package that does it on every successful path
			if g := cc.StaticCallee(); g != nil && w.inPkg(g) && g != fn && len(g.Blocks) > 0 {
				direct := func(x ssa.Instruction) bool {
					if c2, ok := x.(ssa.CallInstruction); ok && c2.Common().IsInvoke() && c2.Common().Method.Name() == "Render" {
						if _, isDefer := x.(*ssa.Defer); isDefer {
							return false
						}
						if _, ok := fieldLoad(unspill(c2.Common().Value), "Template", "nodes"); ok {
							return true
						}
					}
					return false
				}
				found := false
				instrsOf(g, func(x ssa.Instruction) {
					if direct(x) {
						found = true
					}
				})
				if !found {
					return false
				}
				// … on every path to a return that can carry a nil error
				every := true
				instrsOf(g, func(x ssa.Instruction) {
					ret, ok := x.(*ssa.Return)
					if !ok || !every {
						return
					}
					res := retResults(ret)
					if len(res) > 0 && errorSurelyNonNil(res[len(res)-1], ret.Block()) {
						return
					}
					if b, _ := existsPathAvoiding(g, x, direct, nil); b {
						every = false
					}
				})
				return every
			}
			return false
		}
		construct := "macros of the library are collected by rendering it"
		bad := ""
		instrsOf(fn, func(in ssa.Instruction) {
			ret, ok := in.(*ssa.Return)
			if !ok || bad != "" {
				return
			}
			res := retResults(ret)
			if len(res) == 0 || errorSurelyNonNil(res[len(res)-1], ret.Block()) {
				return
			}
			if b, path := existsPathAvoiding(fn, in, rendersLib, nil); b {
				bad = w.posOf(ret.Pos()) + " (path " + strings.Join(path, " → ") + ")"
			}
		})
		if bad == "" {
			r.ok(rule, ssaName(fn), construct, w.posOf(fn.Pos()), "no nil-error return is reachable without a Render of the loaded template's nodes", true)
		} else {
			r.bad(rule, ssaName(fn), construct, w.posOf(fn.Pos()), "a successful return at "+bad+" is reachable without rendering the library: its macros are gathered some other way than for the sibling directive, so the same macro is reachable through one form of import and missing (or another macro) through the other")
		}
	}
	r.Counts["import directives checked for rendering the library"] = n
}

// checkMacroKeepsDeclaration — R12.9: a macro node holds what the parser collected.  Every store
// into MacroNode.params / defaults / body is, on every edge, a parameter of the storing function
// (the constructor's argument), nil or the field's own earlier content — never a container built
// or filtered from the arguments: the defaults of a macro are looked up by parameter name when it
// is called, so a default that a constructor decided not to keep binds null.
func checkMacroKeepsDeclaration(w *World, r *Report) {
	n := 0
	for _, fn := range w.pkgFuncs() {
		instrsOf(fn, func(in ssa.Instruction) {
			st, ok := in.(*ssa.Store)
			if !ok {
				return
			}
			fa, ok := st.Addr.(*ssa.FieldAddr)
			if !ok {
				return
			}
			t, f := fieldOfAddr(fa)
			if t != "MacroNode" || (f != "params" && f != "defaults" && f != "body") {
				return
			}
			n++
			bad := ""
			var walk func(v ssa.Value, seen map[ssa.Value]bool)
			walk = func(v ssa.Value, seen map[ssa.Value]bool) {
				v = unspill(v)
				if seen[v] || bad != "" {
					return
				}
				seen[v] = true
				switch x := v.(type) {
				case *ssa.Parameter, *ssa.Const:
				case *ssa.Phi:
					for _, e := range x.Edges {
						walk(e, seen)
					}
				case *ssa.Slice:
					// n.params[:0] in a release function keeps the storage, drops the content
					if _, ok := fieldLoad(unspill(x.X), "MacroNode", f); ok {
						return
					}
					bad = v.String()
				case *ssa.UnOp:
					if _, ok := fieldLoad(x, "MacroNode", f); ok {
						return
					}
					bad = v.String()
				default:
					bad = v.Name() + " = " + v.String()
				}
			}
			walk(st.Val, map[ssa.Value]bool{})
			construct := "MacroNode." + f + " is what the constructor was given"
			if bad == "" {
				r.ok("R12.9", ssaName(fn), construct, w.posOf(in.Pos()), "a parameter, nil, or the field's own storage", true)
			} else {
				r.bad("R12.9", ssaName(fn), construct, w.posOf(in.Pos()), "the macro node stores a value computed from its arguments ("+bad+") instead of the argument itself: whatever the computation leaves out — a default in front of a parameter without one, say — is not there when the macro is called, and the parameter binds null")
			}
		})
	}
	r.floor("stores into a macro node's declaration fields", n, 3)
}

// checkMacroTableWriters — R12.10: a macro exists from the point where its definition (or the
// import that brings it in) is rendered.  The macro table of a render context is written only by
// the context's own methods and by the macro / import / from-import nodes: another writer — a
// root node registering every macro of the template up front — makes a name mean the macro before
// its definition was reached, and since a name is looked up among the macros first, a variable of
// that name set earlier in the template is hidden.
func checkMacroTableWriters(w *World, r *Report) {
	allowed := map[string]bool{"RenderContext": true, "MacroNode": true, "ImportNode": true, "FromImportNode": true}
	n := 0
	for _, fn := range w.pkgFuncs() {
		instrsOf(fn, func(in ssa.Instruction) {
			mu, ok := in.(*ssa.MapUpdate)
			if !ok {
				return
			}
			if _, ok := fieldLoad(mu.Map, "RenderContext", "macros"); !ok {
				return
			}
			n++
			recv := ""
			root := fn
			for root.Parent() != nil {
				root = root.Parent()
			}
			if root.Signature.Recv() != nil {
				if nt, ok := deref(root.Signature.Recv().Type()).(*types.Named); ok {
					recv = nt.Obj().Name()
				}
			}
			construct := "write to the context's macro table"
			if allowed[recv] {
				r.ok("R12.10", ssaName(fn), construct, w.posOf(in.Pos()), "by the context itself or by a macro/import node", false)
			} else {
				r.bad("R12.10", ssaName(fn), construct, w.posOf(in.Pos()), "the macro table is filled by code that is neither the context nor the node that defines or imports the macro: macros become visible before their definition is rendered, and a name that the template uses as a variable until then resolves to the macro instead")
			}
		})
	}
	r.floor("writes to a context's macro table", n, 3)
}

// checkQualifiedCallsKeepQualifier — R12.11: `m.f(…)` is f of m.  Wherever a function call node's
// name is used to look a macro (or function) up by that bare name, the lookup is reachable only
// where the node's module expression has been tested (nil: an unqualified call): a shortcut that
// dispatches on the name alone calls whatever macro of that name is in scope instead of the
// library's.
func checkQualifiedCallsKeepQualifier(w *World, r *Report) {
	getMacro := w.method("RenderContext", "GetMacro")
	n := 0
	for _, fn := range w.pkgFuncs() {
		instrsOf(fn, func(in ssa.Instruction) {
			c, ok := in.(*ssa.Call)
			if !ok || calleeFunc(c) != getMacro {
				return
			}
			args := callArgs(c)
			if len(args) == 0 {
				return
			}
			nameLoad, ok := unspill(args[0]).(*ssa.UnOp)
			if !ok {
				return
			}
			base, ok := fieldLoad(nameLoad, "FunctionNode", "name")
			if !ok {
				return
			}
			n++
			// a nil test of base.moduleExpr on every path to the call
			fl := &boolFlow{fn: fn, entry: false}
			fl.edge = func(b *ssa.BasicBlock, i int) bool {
				return anyEdgeFact(b, i, func(v ssa.Value, trueIdx int) bool {
					bo, ok := v.(*ssa.BinOp)
					if !ok || (bo.Op != token.EQL && bo.Op != token.NEQ) {
						return false
					}
					for _, pr := range [][2]ssa.Value{{bo.X, bo.Y}, {bo.Y, bo.X}} {
						if !isNilConst(pr[1]) {
							continue
						}
						if mb, ok := fieldLoad(unspill(pr[0]), "FunctionNode", "moduleExpr"); ok && sameValue(unspill(mb), unspill(base)) {
							isNil := (bo.Op == token.EQL) == (i == trueIdx)
							return isNil
						}
					}
					return false
				})
			}
			fl.solve()
			construct := "macro looked up by a call node's bare name"
			if fl.at(in) {
				r.ok("R12.11", ssaName(fn), construct, w.posOf(in.Pos()), "only where the node's module expression is nil", true)
			} else {
				r.bad("R12.11", ssaName(fn), construct, w.posOf(in.Pos()), "the call node's name is looked up among the macros in scope without the node's module expression having been found nil: `lib.f(…)` is answered by a macro f that happens to be defined or imported in the calling template, not by the library's f")
			}
		})
	}
	r.Counts["macro lookups by a call node's name"] = n
}

// checkImportBindsVariable — R12.12: `import … as alias` makes the alias a variable.  The code of
// ImportNode.Render — the method, the closures it defines and the package functions it calls,
// three levels deep — contains a SetVariable call whose name is the node's alias.  Variables are
// what child contexts, parent() and includes copy or look up; an alias kept only elsewhere (the
// macro table, a side map) is missing wherever a context is derived from the variables, so the
// same macro call works in a template and fails in a block reached through parent().  This is
// the existence of the binding, not that every path performs it.
func checkImportBindsVariable(w *World, r *Report) {
	setVar := w.method("RenderContext", "SetVariable")
	n := 0
	for _, fn := range w.pkgFuncs() {
		if fn.Name() != "Render" || fn.Signature.Recv() == nil || !isNamed(fn.Signature.Recv().Type(), twigPath, "ImportNode") || fn.Synthetic != "" {
			continue
		}
		n++
		found := ""
		seen := map[*ssa.Function]bool{}
		var visit func(g *ssa.Function, depth int)
		visit = func(g *ssa.Function, depth int) {
			if g == nil || seen[g] || depth > 3 || found != "" || len(g.Blocks) == 0 {
				return
			}
			seen[g] = true
			instrsOf(g, func(in ssa.Instruction) {
				c, ok := in.(ssa.CallInstruction)
				if !ok || found != "" {
					return
				}
				if calleeFunc(c) == setVar {
					args := callArgs(c)
					if len(args) >= 1 {
						name := unspill(args[0])
						if _, ok := fieldLoad(name, "ImportNode", "module"); ok {
							found = w.posOf(in.Pos())
							return
						}
						// the alias handed on as a string parameter / captured variable
						if p, ok := name.(*ssa.Parameter); ok && isString(p.Type()) && depth > 0 {
							found = w.posOf(in.Pos())
							return
						}
					}
					return
				}
				if h := c.Common().StaticCallee(); h != nil && isTwigFn(h) {
					visit(h, depth+1)
				}
				// closures handed to helpers
				for _, a := range c.Common().Args {
					if mc, ok := a.(*ssa.MakeClosure); ok {
						if cf, ok := mc.Fn.(*ssa.Function); ok {
							visit(cf, depth)
						}
					}
				}
			})
			for _, a := range g.AnonFuncs {
				visit(a, depth)
			}
		}
		visit(fn, 0)
		construct := "the alias is bound with SetVariable"
		if found != "" {
			r.ok("R12.12", ssaName(fn), construct, w.posOf(fn.Pos()), "SetVariable(alias, …) at "+found, true)
		} else {
			r.bad("R12.12", ssaName(fn), construct, w.posOf(fn.Pos()), "nothing in the import's code binds the alias as a variable: contexts derived from the variables — parent(), child contexts of blocks — do not see the module, so the same macro call fails depending on how the block is reached")
		}
	}
	r.floor("ImportNode.Render methods", n, 1)
}

// checkMacroRegistersItself — R12.13: a macro definition that is rendered takes its name.  In
// MacroNode.Render the store into the context's macro table under the node's name is not
// controlled by what the table already holds: "only if the name is still free" keeps the macro
// an included partial or an earlier `from … import` bound, so a template calls somebody else's
// macro instead of the one it defines.
func checkMacroRegistersItself(w *World, r *Report) {
	n := 0
	for _, fn := range w.pkgFuncs() {
		if fn.Name() != "Render" || fn.Signature.Recv() == nil || !isNamed(fn.Signature.Recv().Type(), twigPath, "MacroNode") || fn.Synthetic != "" {
			continue
		}
		check := func(in ssa.Instruction, where *ssa.Function) {
			n++
			bad := ""
			for _, c := range controllingConds(in) {
				seen := map[ssa.Value]bool{}
				var walk func(v ssa.Value, d int)
				walk = func(v ssa.Value, d int) {
					if v == nil || seen[v] || d > 6 || bad != "" {
						return
					}
					seen[v] = true
					if l, ok := v.(*ssa.Lookup); ok {
						if _, ok := fieldLoad(l.X, "RenderContext", "macros"); ok {
							bad = w.posOf(l.Pos())
							return
						}
					}
					if c, ok := v.(*ssa.Call); ok {
						if g := calleeFunc(c); g != nil && g.Name() == "GetMacro" {
							bad = w.posOf(c.Pos())
							return
						}
					}
					if vi, ok := v.(ssa.Instruction); ok {
						for _, op := range vi.Operands(nil) {
							if *op != nil {
								walk(*op, d+1)
							}
						}
					}
				}
				walk(c, 0)
			}
			construct := "the definition is registered whatever the table holds"
			if bad == "" {
				r.ok("R12.13", ssaName(where), construct, w.posOf(in.Pos()), "not controlled by a lookup in the macro table", true)
			} else {
				r.bad("R12.13", ssaName(where), construct, w.posOf(in.Pos()), "whether the macro is registered depends on a lookup of the macro table ("+bad+"): where the name is already bound — by the includer, by an earlier import — the definition is skipped and calls of the name reach the other macro")
			}
		}
		instrsOf(fn, func(in ssa.Instruction) {
			if mu, ok := in.(*ssa.MapUpdate); ok {
				if _, ok := fieldLoad(mu.Map, "RenderContext", "macros"); ok {
					check(in, fn)
				}
			}
			if c, ok := in.(*ssa.Call); ok {
				if g := calleeFunc(c); g != nil && g.Name() == "SetMacro" {
					check(in, fn)
				}
			}
		})
	}
	r.floor("registrations in MacroNode.Render", n, 1)
}

// checkNodesOwnTheirTables — R12.14: what one tag declares belongs to the node of that tag.  No
// map or slice handed to a node constructor in the parser is a container kept in a field of the
// Parser: such a container is shared by every node built from it, so the aliases of one
// `from … import a as x` tag apply to the same macro name in every other from tag of the template.
func checkNodesOwnTheirTables(w *World, r *Report) {
	reach := w.parseReachable()
	n := 0
	for _, fn := range w.pkgFuncs() {
		if !reach[fn] {
			continue
		}
		instrsOf(fn, func(in ssa.Instruction) {
			c, ok := in.(*ssa.Call)
			if !ok {
				return
			}
			g := c.Call.StaticCallee()
			if g == nil || !isTwigFn(g) || !(strings.HasPrefix(g.Name(), "New") || strings.HasPrefix(g.Name(), "Get")) || !strings.HasSuffix(g.Name(), "Node") {
				return
			}
			for _, a := range c.Call.Args {
				switch a.Type().Underlying().(type) {
				case *types.Map, *types.Slice:
				default:
					continue
				}
				n++
				from := ""
				for _, o := range originChain(a) {
					if u, ok := o.(*ssa.UnOp); ok && u.Op == token.MUL {
						if fa, ok := u.X.(*ssa.FieldAddr); ok {
							if t, f := fieldOfAddr(fa); t == "Parser" && f != "tokens" {
								from = "Parser." + f
							}
						}
					}
				}
				construct := "container handed to " + g.Name() + " belongs to the node"
				if from == "" {
					r.ok("R12.14", ssaName(fn), construct, w.posOf(in.Pos()), "not a container kept in the parser", false)
				} else {
					r.bad("R12.14", ssaName(fn), construct, w.posOf(in.Pos()), "the node is given "+from+", a container the parser keeps across tags: every node built from it sees what every other tag put there — an alias declared in one from tag renames the same macro in all the others")
				}
			}
		})
	}
	r.floor("containers handed to node constructors in the parser", n, 5)
}
